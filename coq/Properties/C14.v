(* C14 -- floor / ceil / round snap to multiples of the step, on the correct side.
   fl_of d s = d - d mod |s| is the greatest multiple of |s| not above d (C14_fl_of_is_floor).
   Known finding (KNOWN_FINDINGS.txt, floor-one-step-above-min): when that floor is at most one step
   above MIN the code returns MIN; the main theorems therefore carry the hypothesis
   MINV + |s| < fl_of d s, and C14_floor_saturates_low states what happens otherwise.
   Statements only. *)
From Coq Require Import ZArith.
From HF Require Import MachInt GenConsts Duration SignedNs DurationP.
Open Scope Z_scope.

Theorem C14_fl_of_is_floor : forall d s, s <> 0 ->
  (Z.abs s | fl_of d s) /\ fl_of d s <= d < fl_of d s + Z.abs s /\
  (forall m, (Z.abs s | m) -> m <= d -> m <= fl_of d s).
Proof.
  intros d s Hs. destruct (fl_of_props d s Hs) as [A B]. split; [exact A|]. split; [exact B|].
  intros m Hm Hle. exact (fl_of_greatest d s m Hs Hm Hle).
Qed.

Theorem C14_zero_step : forall d st, canon d -> canon st -> val st = 0 -> dur_floor d st = D_ZERO.
Proof. exact floor_zero. Qed.

Theorem C14_floor : forall d st, canon d -> canon st -> val st <> 0 ->
  MINV + Z.abs (val st) < fl_of (val d) (val st) ->
  canon (dur_floor d st) /\ val (dur_floor d st) = fl_of (val d) (val st).
Proof. exact floor_main. Qed.

Theorem C14_floor_saturates_low : forall d st, canon d -> canon st -> val st <> 0 ->
  fl_of (val d) (val st) <= MINV + Z.abs (val st) -> dur_floor d st = D_MIN.
Proof. exact floor_sat. Qed.

Theorem C14_ceil : forall d st, canon d -> canon st -> val st <> 0 ->
  MINV + Z.abs (val st) < fl_of (val d) (val st) ->
  canon (dur_ceil d st) /\ val (dur_ceil d st) = clamp (fl_of (val d) (val st) + Z.abs (val st)).
Proof. exact ceil_main. Qed.

(* ties go up: round = floor iff d is strictly nearer to the floor *)
Theorem C14_round : forall d st, canon d -> canon st -> val st <> 0 ->
  MINV + Z.abs (val st) < fl_of (val d) (val st) ->
  fl_of (val d) (val st) + Z.abs (val st) <= MAXV ->
  canon (dur_round d st) /\
  val (dur_round d st) = (if 2 * (val d - fl_of (val d) (val st)) <? Z.abs (val st)
                          then fl_of (val d) (val st) else fl_of (val d) (val st) + Z.abs (val st)).
Proof. exact round_main. Qed.

(* the known finding is real on the model (and replayed on the code by the correspondence check):
   (MIN + 10 s) is a multiple of 10 s yet floors to MIN *)
Example C14_known_floor_refuted :
  let d := mkD (-32768) 10000000000 in let st := mkD 0 10000000000 in
  canon d /\ canon st /\ fl_of (val d) (val st) = val d /\ dur_floor d st = D_MIN /\ val D_MIN <> val d.
Proof. cbv zeta. repeat split; try (apply canon_canonb; reflexivity); try reflexivity. discriminate. Qed.

Example C14_nonvacuous :
  let d := mkD (-1) 3155754600000000000 in let st := mkD 0 3600000000000 in  (* -1.5 h, 1 h *)
  canon d /\ canon st /\ MINV + Z.abs (val st) < fl_of (val d) (val st) /\
  dur_floor d st = mkD (-1) 3155752800000000000 /\ dur_ceil d st = mkD (-1) 3155756400000000000 /\
  dur_round d st = mkD (-1) 3155756400000000000.
Proof. cbv zeta. repeat split; try (apply canon_canonb; reflexivity); reflexivity. Qed.
