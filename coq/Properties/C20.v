(* C20 -- GNSS week/time-of-week, ns counters and day-of-year are exact and invertible.
   Integer part proved here, and the float day_of_year() accessor is proved within 2^-40 day of (time elapsed in the year) + 1
   (Flocq); the from_day_of_year direction and the round trip "to float precision" are covered by correspondence with a
   tolerance (partial, see DESIGN.md). *)
From Coq Require Import ZArith Bool List Reals.
From Flocq Require Import Core.Core IEEE754.BinarySingleNaN.
From HF Require Import MachInt GenConsts Duration Epoch F64 Gregorian Views SignedNs Civil LeapSpec DurationP EpochP ViewsFloatP.
Open Scope Z_scope.

Theorem C20_time_of_week_build : forall w ns t,
  scale (from_time_of_week w ns t) = t /\ canon (dur (from_time_of_week w ns t)) /\
  val (dur (from_time_of_week w ns t)) = clamp (w * 7 * NS_PER_DAY + ns).
Proof. exact from_time_of_week_spec. Qed.
Theorem C20_time_of_week_build_no_overflow : forall w ns, 0 <= w <= U32_MAX -> 0 <= ns <= U64_MAX ->
  in_i128 (ns + w * WEEKDAY_DAYS_PER_WEEK_I128 * NANOSECONDS_PER_DAY).
Proof. exact from_time_of_week_no_overflow. Qed.
(* the unique pair with nanoseconds of week below 604 800 s; the week fits a u32 for every duration *)
Theorem C20_time_of_week_split : forall e, canon (dur e) -> 0 <= val (dur e) ->
  let '(w, r) := to_time_of_week e in
  0 <= r < 7 * NS_PER_DAY /\ w * (7 * NS_PER_DAY) + r = val (dur e) /\ 0 <= w <= U32_MAX.
Proof. exact to_time_of_week_spec. Qed.
Theorem C20_time_of_week_inverse : forall w ns t, 0 <= w -> 0 <= ns < 7 * NS_PER_DAY -> w * 7 * NS_PER_DAY + ns <= MAXV ->
  to_time_of_week (from_time_of_week w ns t) = (w, ns).
Proof. exact tow_roundtrip. Qed.
Theorem C20_time_of_week_inverse_back : forall e, canon (dur e) -> 0 <= val (dur e) ->
  let '(w, r) := to_time_of_week e in from_time_of_week w r (scale e) = e.
Proof. exact tow_roundtrip_back. Qed.
(* nanosecond counters *)
Theorem C20_from_counter : forall n t, 0 <= n <= U64_MAX ->
  scale (from_nanoseconds_in n t) = t /\ canon (dur (from_nanoseconds_in n t)) /\ val (dur (from_nanoseconds_in n t)) = n.
Proof. exact from_nanoseconds_spec. Qed.
Theorem C20_to_counter : forall e t d, to_duration_in_time_scale e t = Some d -> canon d ->
  to_nanoseconds_in_time_scale e t = Some (if (0 <=? val d) && (val d <? SNPC) then Some (val d) else None).
Proof. exact to_nanoseconds_spec. Qed.

(* day of year: one-based, within 2^-40 day of the exact value, for the duration elapsed in the year that the integer model gives *)
Theorem C20_day_of_year_error : forall e d, duration_in_year_fast e = Some d -> canon d -> 0 <= val d < 367 * 86400000000000 ->
  exists r, day_of_year e = Some r /\ is_finite r = true /\
            (Rabs (B2R r - (IZR (val d) / IZR 86400000000000 + 1)) <= bpow radix2 (-40))%R.
Proof. exact day_of_year_err. Qed.
Example C20_day_of_year_nonvacuous :      (* 1900-01-01T12:00 TAI: half a day into the year *)
  duration_in_year_fast (mkE (mkD 0 43200000000000) TAI) = Some (mkD 0 43200000000000).
Proof. vm_compute. reflexivity. Qed.

Example C20_nonvacuous :
  to_time_of_week (mkE (mkD 0 1209600000000005) GPST) = (2, 5) /\
  to_nanoseconds_in_time_scale (mkE (mkD 0 5) GPST) GPST = Some (Some 5) /\
  to_nanoseconds_in_time_scale (mkE (mkD 0 5) TAI) GPST = Some None.
Proof. repeat split; reflexivity. Qed.
