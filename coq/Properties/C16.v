(* C16 -- Epoch weekday is the civil weekday of its date; weekday arithmetic is mod 7.
   Weekdays are 0 = Monday .. 6 = Sunday; weekday_of_day n = n mod 7 with day 0 = 1900-01-01 (a Monday). *)
From Coq Require Import ZArith Bool List.
From HF Require Import MachInt GenConsts Duration Epoch Gregorian SignedNs Civil LeapSpec DurationP CivilP EpochP GregorianP.
Open Scope Z_scope.

Local Notation D := 86400000000000 (only parsing).

(* independent anchors of the weekday numbering: 2000-01-01 was a Saturday, 1970-01-01 a Thursday; an era is whole weeks *)
Theorem C16_anchors : weekday_of_day (civil_days 1900 1 1) = 0 /\ weekday_of_day (civil_days 2000 1 1) = 5 /\
  weekday_of_day (civil_days 1970 1 1) = 3 /\ 146097 mod 7 = 0.
Proof. repeat split; reflexivity. Qed.
(* for every instant: floor of the day count in the relevant scale, mod 7 -- first and last nanosecond, before 1900 too *)
Theorem C16_weekday_in_scale : forall e t x, to_duration_in_time_scale e t = Some x -> canon x ->
  weekday_in_time_scale e t = Some (weekday_of_day (val x / D)).
Proof. exact weekday_in_scale_spec. Qed.
Theorem C16_weekday_tai : forall e, int_scale (scale e) = true -> canon (dur e) -> MINV <= instant e <= MAXV ->
  weekday e = Some (weekday_of_day (instant e / D)).
Proof. exact weekday_tai_spec. Qed.
(* integers modulo 7 *)
Theorem C16_add_u8 : forall a n, 0 <= a < 7 -> 0 <= n < 256 -> weekday_add_u8 a n = Some ((a + n) mod 7).
Proof. exact weekday_add_u8_spec. Qed.
Theorem C16_sub_u8 : forall a n, 0 <= a < 7 -> 0 <= n < 256 -> weekday_sub_u8 a n = Some ((a - n) mod 7).
Proof. exact weekday_sub_u8_spec. Qed.
Theorem C16_add : forall a b, 0 <= a < 7 -> 0 <= b < 7 -> weekday_add a b = Some ((a + b) mod 7).
Proof. exact weekday_add_spec. Qed.
Theorem C16_from_u8 : forall n, 0 <= n < 256 -> weekday_from_u8 n = n mod 7.
Proof. exact weekday_from_u8_spec. Qed.
Theorem C16_from_i8 : forall n, -128 <= n < 128 -> weekday_from_i8 n = n mod 7.
Proof. exact weekday_from_i8_spec. Qed.
Theorem C16_difference : forall a b, 0 <= a < 7 -> 0 <= b < 7 ->
  canon (weekday_sub a b) /\ val (weekday_sub a b) = ((b - a) mod 7) * D.
Proof. exact weekday_diff_spec. Qed.
(* next / previous: exactly 1..7 whole days away, the distance to the requested weekday; same time of day by C04 *)
Theorem C16_next : forall e w wd, weekday e = Some wd -> 0 <= wd < 7 -> 0 <= w < 7 ->
  epoch_next e w = Some (epoch_add e (unit_mul_i64 Day ((w - wd - 1) mod 7 + 1))) /\ 1 <= (w - wd - 1) mod 7 + 1 <= 7.
Proof. exact epoch_next_spec. Qed.
Theorem C16_previous : forall e w wd, weekday e = Some wd -> 0 <= wd < 7 -> 0 <= w < 7 ->
  epoch_previous e w = Some (epoch_sub e (unit_mul_i64 Day ((wd - w - 1) mod 7 + 1))) /\ 1 <= (wd - w - 1) mod 7 + 1 <= 7.
Proof. exact epoch_previous_spec. Qed.

Example C16_nonvacuous :
  weekday (mkE (mkD 0 86399999999999) TAI) = Some 0 /\ weekday (mkE (mkD (-1) 3155759999999999999) TAI) = Some 6 /\
  weekday_sub_u8 0 200 = Some 3 /\ weekday_add_u8 6 250 = Some 4.
Proof. repeat split; vm_compute; reflexivity. Qed.
