(* C06 -- UTC <-> TAI follows the IERS leap-second table exactly, in both directions.
   spec_utc2tai / spec_tai2utc (Spec/LeapSpec.v) are step functions over GenLeap.IERS_FILE, i.e. the
   data/leap-seconds.list shipped with the sources as read by the translator on this run. *)
From Coq Require Import ZArith Bool List.
From HF Require Import MachInt GenConsts GenLeap Duration Epoch SignedNs Civil LeapSpec DurationP CivilP EpochP TextParse LeapFile LeapFileP.
Open Scope Z_scope.

(* built-in table = IERS file = NAIF kernel; the SOFA (pre-1972) entries are not among the announced ones *)
Theorem C06_builtin_is_iers_file : BUILTIN_IERS = IERS_FILE.
Proof. exact builtin_is_file. Qed.
Theorem C06_iers_file_is_naif_kernel :
  map (fun e => (snd e, fst e)) IERS_FILE =
  map (fun e => let '(d, y, m, dd) := e in (d, civil_days y m dd * 86400)) NAIF_DELTA_AT.
Proof. exact file_is_naif. Qed.
Theorem C06_announced_entries_of_the_full_table :
  map (fun e => let '(ts, _, _, _) := e in ts) (filter (fun e => let '(_, _, _, a) := e in a) LATEST_LEAP_SECONDS) = map fst BUILTIN_IERS.
Proof. exact builtin_full_table_iers_part. Qed.
Theorem C06_table_shape : length IERS_FILE = 28%nat /\ tbl_ok IERS_FILE = true /\ sortedb IERS_FILE = true /\ ascb IERS_FILE 0 = true /\
  hd (0, 0) IERS_FILE = (civil_days 1972 1 1 * 86400, 10) /\ last IERS_FILE (0, 0) = (civil_days 2017 1 1 * 86400, 37).
Proof. repeat split; reflexivity. Qed.

(* the lookups of the code are the step functions of the spec, for every duration *)
Theorem C06_lookup_at_utc : forall d, canon d -> opt_or0 (leap_seconds_iers d) = spec_delta_utc (val d).
Proof. exact leap_lookup_is_spec. Qed.
Theorem C06_lookup_at_tai : forall d, canon d -> leap_seconds_at_tai d = spec_delta_tai (val d).
Proof. exact leap_at_tai_is_spec. Qed.
Theorem C06_offset_bounds : forall u, 0 <= spec_delta_utc u <= 37 /\ 0 <= spec_delta_tai u <= 37.
Proof. exact spec_delta_bounds. Qed.
(* UTC -> TAI adds the offset in force at that UTC time *)
Theorem C06_utc_to_tai : forall d, canon d ->
  exists d', to_time_scale (mkE d UTC) TAI = Some (mkE d' TAI) /\ canon d' /\ val d' = clamp (spec_utc2tai (val d)).
Proof. exact utc_to_tai_spec. Qed.
Theorem C06_tai_to_utc : forall d, canon d ->
  exists d', to_time_scale (mkE d TAI) UTC = Some (mkE d' UTC) /\ canon d' /\ val d' = clamp (spec_tai2utc (val d)).
Proof. exact tai_to_utc_spec. Qed.
(* strictly increasing, and converting back returns the original UTC count -- for every count *)
Theorem C06_utc_to_tai_strictly_increasing : forall u1 u2, u1 < u2 -> spec_utc2tai u1 < spec_utc2tai u2.
Proof. exact spec_utc2tai_strict_mono. Qed.
Theorem C06_roundtrip : forall u, spec_tai2utc (spec_utc2tai u) = u.
Proof. exact spec_roundtrip. Qed.
(* TAI -> UTC never goes backwards between instants that have a UTC count of their own
   (outside the inserted seconds, where the code repeats the preceding second by design) *)
Theorem C06_tai_to_utc_monotone_outside_inserted_seconds : forall t1 t2, t1 <= t2 ->
  in_gap t1 = false -> in_gap t2 = false -> spec_tai2utc t1 <= spec_tai2utc t2.
Proof. exact tai2utc_mono_outside_gaps. Qed.
(* a provider is consulted through its entries only *)
Theorem C06_provider_extensional : forall p1 p2 d, p1 = p2 -> leap_seconds_with p1 d = leap_seconds_with p2 d.
Proof. exact provider_extensional. Qed.

(* the file provider: the model of LeapSecondsFile's parser, run on the bytes of data/leap-seconds.list (regenerated from
   the sources on every run), yields exactly the built-in table; any accepted file has entries in the u64 / u8 ranges *)
Theorem C06_shipped_file_is_ascii : forallb (fun c => (0 <=? c) && (c <? 128)) IERS_FILE_BYTES = true.
Proof. exact shipped_file_ascii. Qed.
Theorem C06_shipped_file_parses_to_builtin : parse_leap_file IERS_FILE_BYTES = FileOk BUILTIN_IERS.
Proof. exact shipped_file_parses_to_builtin. Qed.
Theorem C06_lookup_through_shipped_file : forall tai,
  match parse_leap_file IERS_FILE_BYTES with FileOk p => leap_seconds_with p tai = leap_seconds_iers tai | FileErr _ => False end.
Proof. exact lookup_through_shipped_file. Qed.
Theorem C06_parsed_entries_in_range : forall content p, parse_leap_file content = FileOk p -> Forall entry_ok p.
Proof. exact parsed_entries_in_range. Qed.

Example C06_nonvacuous :
  spec_delta_utc (3692217600 * NS_PER_S - 1) = 36 /\ spec_delta_utc (3692217600 * NS_PER_S) = 37 /\
  spec_tai2utc ((3692217600 + 10) * NS_PER_S) = (3692217600 + 10 - 36) * NS_PER_S /\
  in_gap ((3692217600 + 36) * NS_PER_S) = true /\ in_gap ((3692217600 + 37) * NS_PER_S) = false /\
  spec_delta_utc 0 = 0.
Proof. repeat split; reflexivity. Qed.
