(* C02 -- Duration <-> integer nanosecond count round-trips; one canonical representation.
   Statements only. *)
From Coq Require Import ZArith.
From HF Require Import MachInt GenConsts Duration SignedNs DurationP.
Open Scope Z_scope.

(* one observable form per count *)
Theorem C02_canonical_unique : forall a b, canon a -> canon b -> val a = val b -> a = b.
Proof. exact canon_unique. Qed.
(* raw parts -> canonical, count = clamp (c*NPC + n) *)
Theorem C02_from_parts : forall c n, in_i16 c -> in_u64 n ->
  canon (from_parts c n) /\ val (from_parts c n) = clamp (c * SNPC + n).
Proof. exact from_parts_spec. Qed.
(* the total count read back is centuries * NPC + nanoseconds *)
Theorem C02_total : forall d, canon d -> total_nanoseconds d = val d.
Proof. exact total_canon. Qed.
(* from an integer count (any integer, in particular any i128) and back: the clamped integer *)
Theorem C02_from_total : forall z, canon (from_total_nanoseconds z) /\ val (from_total_nanoseconds z) = clamp z.
Proof. exact from_total_spec. Qed.
Theorem C02_from_total_roundtrip : forall d, canon d -> from_total_nanoseconds (total_nanoseconds d) = d.
Proof. intros d H. rewrite (total_canon d H). exact (from_total_of_val d H). Qed.
(* from an integer number of any of the nine units *)
Theorem C02_unit_i64 : forall u q, in_i64 q ->
  canon (unit_mul_i64 u q) /\ val (unit_mul_i64 u q) = clamp (q * spec_unit_factor u).
Proof. exact unit_mul_spec. Qed.
(* the 64-bit constructor and accessors *)
Theorem C02_from_truncated : forall z, in_i64 z ->
  canon (from_truncated_nanoseconds z) /\ val (from_truncated_nanoseconds z) = z.
Proof. exact from_truncated_spec. Qed.
Theorem C02_try_truncated_never_wrong : forall d z, canon d -> try_truncated_nanoseconds d = Some z -> z = val d.
Proof. exact try_truncated_never_wrong. Qed.
Theorem C02_try_truncated_exact_within_2_centuries : forall d, canon d ->
  - 2 * SNPC <= val d <= 2 * SNPC -> try_truncated_nanoseconds d = Some (val d).
Proof. exact try_truncated_ok. Qed.
Theorem C02_try_truncated_error_when_unrepresentable : forall d, canon d ->
  (val d < I64_MIN \/ I64_MAX < val d) -> try_truncated_nanoseconds d = None.
Proof. exact try_truncated_err. Qed.
Theorem C02_truncated : forall d, canon d ->
  (- 2 * SNPC <= val d <= 2 * SNPC -> truncated_nanoseconds d = val d) /\
  (val d < I64_MIN -> truncated_nanoseconds d = I64_MIN) /\
  (I64_MAX < val d -> truncated_nanoseconds d = I64_MAX) /\
  (I64_MIN <= val d <= I64_MAX -> truncated_nanoseconds d = val d \/ truncated_nanoseconds d = I64_MIN \/ truncated_nanoseconds d = I64_MAX).
Proof. exact truncated_spec. Qed.
(* the generated constants are the calendar facts the spec is written with *)
Theorem C02_constants : NPC = SNPC /\ (forall u, unit_factor u = spec_unit_factor u) /\
  D_MAX = mkD 32767 SNPC /\ D_MIN = mkD (-32768) 0 /\ D_ZERO = mkD 0 0.
Proof. exact (conj NPC_eq (conj unit_factor_eq (conj D_MAX_eq (conj D_MIN_eq D_ZERO_eq)))). Qed.

(* compose: integer sum of the u64 fields, no i128 overflow, denotes clamp(+-sum); std::time conversions *)
Theorem C02_compose_no_overflow : forall d h mi s ms us ns,
  0 <= d <= U64_MAX -> 0 <= h <= U64_MAX -> 0 <= mi <= U64_MAX -> 0 <= s <= U64_MAX -> 0 <= ms <= U64_MAX ->
  0 <= us <= U64_MAX -> 0 <= ns <= U64_MAX ->
  0 <= compose_total d h mi s ms us ns <= I128_MAX /\ in_i128 (- compose_total d h mi s ms us ns).
Proof. exact compose_total_range. Qed.
Theorem C02_compose : forall sg d h mi s ms us ns,
  canon (compose sg d h mi s ms us ns) /\
  val (compose sg d h mi s ms us ns) =
    clamp (if sg <? 0 then - compose_total d h mi s ms us ns else compose_total d h mi s ms us ns).
Proof. exact compose_spec. Qed.
Theorem C02_compose_total : forall d h mi s ms us ns,
  compose_total d h mi s ms us ns = (((((d * 24 + h) * 60 + mi) * 60 + s) * 1000 + ms) * 1000 + us) * 1000 + ns.
Proof. exact compose_total_mixed_radix. Qed.
Theorem C02_to_std : forall d, canon d ->
  to_std d = if val d <? 0 then (0, 0) else (val d / 1000000000, val d mod 1000000000).
Proof. exact to_std_spec. Qed.
Theorem C02_from_std : forall secs sub, 0 <= secs <= U64_MAX -> 0 <= sub < 1000000000 ->
  canon (from_std secs sub) /\ val (from_std secs sub) = clamp (secs * 1000000000 + sub).
Proof. exact from_std_spec. Qed.
Theorem C02_std_roundtrip : forall d, canon d -> 0 <= val d -> let '(secs, sub) := to_std d in from_std secs sub = d.
Proof. exact std_roundtrip. Qed.

Example C02_nonvacuous :
  canon (mkD (-2) 5) /\ total_nanoseconds (mkD (-2) 5) = -6311519999999999995 /\
  try_truncated_nanoseconds (mkD (-2) 3155759999999999995) = Some (-3155760000000000005) /\
  from_total_nanoseconds (-6311519999999999995) = mkD (-2) 5.
Proof. repeat split; try (apply canon_canonb; reflexivity); reflexivity. Qed.
