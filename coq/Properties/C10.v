(* C10 -- Epoch text round trip (partial).
   Proved here: the parsers involved are total for every string and time-scale names print and parse back. The round trip
   parse(format(e)) = e itself is decided by correspondence: the model's renderer and parser are both run on generated
   epochs (all nine scales, years 0001-9999, nanosecond resolution, every offset and fractional length) and compared
   with the implementation and with the identity / the instant the text denotes (spec side computed from the count alone).
   No unbounded round-trip theorem is claimed; see DESIGN.md. *)
From Coq Require Import ZArith Bool List.
From HF Require Import Text Epoch TextFmt TextParse TextP.
Import ListNotations.
Open Scope Z_scope.

Theorem C10_timescale_name_roundtrip : forall t, ts_from_str (ts_name t) = Some t.
Proof. exact ts_name_roundtrip. Qed.
Theorem C10_from_gregorian_str_total : forall s, from_gregorian_str s <> PPanic.
Proof. exact from_gregorian_str_total. Qed.
Theorem C10_epoch_from_str_total : forall s, epoch_from_str s <> PPanic.
Proof. exact epoch_from_str_total. Qed.
