(* C12 -- Epoch equality and ordering are chronological, whatever the time scales.
   instant e is the TAI instant an epoch denotes (spec: constant offsets for the uniform scales, the IERS
   step function for UTC).  Proved exactly for the seven integer scales; for ET/TDB operands the
   conversion goes through f64 and sin and is covered by C07's tolerance (not claimed here). *)
From Coq Require Import ZArith Bool List.
From HF Require Import MachInt GenConsts Duration Epoch SignedNs Civil LeapSpec DurationP EpochP.
Open Scope Z_scope.

Theorem C12_cmp_is_chronological : forall a b, int_scale (scale a) = true -> int_scale (scale b) = true ->
  canon (dur a) -> canon (dur b) -> MINV <= instant a <= MAXV -> MINV <= instant b <= MAXV ->
  epoch_cmp a b = Some (instant a ?= instant b).
Proof. exact epoch_cmp_chrono. Qed.
Theorem C12_eq_is_same_instant : forall a b, int_scale (scale a) = true -> int_scale (scale b) = true ->
  canon (dur a) -> canon (dur b) -> MINV <= instant a <= MAXV -> MINV <= instant b <= MAXV ->
  epoch_eqb a b = Some (instant a =? instant b).
Proof. exact epoch_eq_chrono. Qed.
(* independent of which operand is on the left: exactly one of <, ==, > *)
Theorem C12_operand_swap : forall a b, int_scale (scale a) = true -> int_scale (scale b) = true ->
  canon (dur a) -> canon (dur b) -> MINV <= instant a <= MAXV -> MINV <= instant b <= MAXV ->
  epoch_cmp b a = option_map CompOpp (epoch_cmp a b).
Proof. exact epoch_cmp_antisym. Qed.
(* preserved by converting an operand: the instant does not change *)
Theorem C12_conversion_keeps_instant_uniform : forall e t, uniform (scale e) = true -> uniform t = true -> canon (dur e) ->
  MINV <= val (dur e) + zero_of (scale e) <= MAXV -> MINV <= val (dur e) + zero_of (scale e) - zero_of t <= MAXV ->
  exists e', to_time_scale e t = Some e' /\ instant e' = instant e.
Proof. exact instant_preserved_uniform. Qed.
Theorem C12_conversion_keeps_instant_utc : forall d, canon d -> MINV <= spec_utc2tai (val d) <= MAXV ->
  exists e', to_time_scale (mkE d UTC) TAI = Some e' /\ instant e' = instant (mkE d UTC).
Proof. exact instant_preserved_utc_to_tai. Qed.
(* min / max follow cmp *)
Theorem C12_min_max : forall a b,
  epoch_min a b = option_map (fun c => match c with Lt => a | _ => b end) (epoch_cmp a b) /\
  epoch_max a b = option_map (fun c => match c with Gt => a | _ => b end) (epoch_cmp a b).
Proof. intros; split; reflexivity. Qed.

Example C12_nonvacuous :
  (* 1 us either side of the TAI reference are not equal; a UTC/TAI pair around the 2017 leap second is ordered consistently *)
  epoch_eqb (mkE (mkD (-1) 3155759999999999000) TAI) (mkE (mkD 0 1000) TAI) = Some false /\
  let a := mkE (mkD 1 536457599000000000) UTC in let b := mkE (mkD 1 536457635000000000) TAI in
  int_scale (scale a) = true /\ canon (dur a) /\ epoch_cmp a b = Some Eq /\ epoch_cmp b a = Some Eq.
Proof. cbv zeta. repeat split; try (apply canon_canonb; reflexivity); vm_compute; reflexivity. Qed.
