(* C13 -- Parsers are total: any string yields a value or an error, never a panic.
   The parser models answer POk / PErr / PPanic / PUnmodelled; PPanic stands for every panicking operation of the Rust
   (unwrap of a failed integer conversion, a slice off a character boundary or out of bounds, an arithmetic overflow under
   overflow checks, unreachable!/todo!). The theorems say PPanic is never the answer, for every string (a list of Unicode
   scalar values of any length) and every (format, input) pair. Termination is by construction (structural recursion over
   the characters). PUnmodelled (decimal-to-float conversion outside the exactly modelled range) is covered by the
   correspondence run, which feeds those strings to the real parsers under catch_unwind. *)
From Coq Require Import ZArith Bool List.
From HF Require Import Text TextFmt TextParse TextP.
Import ListNotations.
Open Scope Z_scope.

Theorem C13_from_gregorian_str_total : forall s, from_gregorian_str s <> PPanic.
Proof. exact from_gregorian_str_total. Qed.
Theorem C13_epoch_from_str_total : forall s, epoch_from_str s <> PPanic.
Proof. exact epoch_from_str_total. Qed.
Theorem C13_duration_from_str_total : forall s, duration_from_str s <> PPanic.
Proof. exact duration_from_str_total. Qed.
(* every Format built by Format::from_str, and every predefined one, holds enum tokens only ... *)
Theorem C13_format_from_str_wf : forall s f, format_from_str s = inl f -> fmt_wf f.
Proof. exact format_from_str_wf. Qed.
Theorem C13_format_from_str_len : forall s f, format_from_str s = inl f -> Z.of_nat (length f) <= 16.
Proof. exact format_from_str_len. Qed.
(* ... and parsing with any such format is total *)
Theorem C13_format_parse_total : forall fmt s, fmt_wf fmt -> format_parse fmt s <> PPanic.
Proof. exact format_parse_total. Qed.
Theorem C13_from_format_str_total : forall s fs, from_format_str s fs <> PPanic.
Proof. exact from_format_str_total. Qed.

Example C13_nonvacuous :
  (exists e, from_gregorian_str [50;48;49;55;45;48;49;45;49;52;84;48;48;58;51;49;58;53;53;32;85;84;67] = POk e) /\
  (exists k, from_gregorian_str [50;48;49;55;45;49;52;45;49;52] = PErr k) /\
  (exists k, from_format_str [50;48;49;55] [37;81] = PErr k).
Proof. repeat split; try (eexists; vm_compute; reflexivity); vm_compute; reflexivity. Qed.
