(* C07 -- ET and TDB match the NAIF and ESA closed forms and round-trip within nanoseconds (partial).
   The code computes in binary64 with libm's sine, which no Coq library specifies; what is proved here is about the
   closed forms themselves (over the reals): both periodic terms are Lipschitz with a constant below 4e-10, hence
   instant -> ET / TDB reading is strictly increasing and injective (the inverse conversion is well defined), the
   choice between TT, ET or TDB seconds for `t` (less than 10 ms apart) moves the result by at most 0.004 ns, and ANY
   computation that stays within 30 ns of the closed form preserves the order of instants more than 100 ns apart.
   That the code does stay within 30 ns, and round-trips within 20 ns, is decided by correspondence: the Flocq model
   (Model/EtTdb.v, parametrised by the sine) is compared bit for bit with the code, and the code with a 10^-36
   fixed-point evaluation of the closed forms, on generated instants over +/-10 000 years. See DESIGN.md. *)
From Coq Require Import Reals Lra.
From HF Require Import GenConsts GenLeap GenEtTdb EtTdbSpec EtTdbP.
Open Scope R_scope.

Theorem C07_delta_et_lipschitz : forall a b, Rabs (delta_et_R a - delta_et_R b) <= L_ET * Rabs (a - b).
Proof. exact delta_et_lipschitz. Qed.
Theorem C07_delta_tdb_lipschitz : forall a b, Rabs (delta_tdb_R a - delta_tdb_R b) <= L_TDB * Rabs (a - b).
Proof. exact delta_tdb_lipschitz. Qed.
Theorem C07_constants_small : (0 <= L_ET < 4 / 10000000000) /\ (0 <= L_TDB < 4 / 10000000000).
Proof. exact (conj L_ET_small L_TDB_small). Qed.
Theorem C07_et_increasing : forall a b, a < b -> a + delta_et_R a < b + delta_et_R b.
Proof. exact (F_increasing delta_et_R L_ET L_ET_small delta_et_lipschitz). Qed.
Theorem C07_tdb_increasing : forall a b, a < b -> a + delta_tdb_R a < b + delta_tdb_R b.
Proof. exact (F_increasing delta_tdb_R L_TDB L_TDB_small delta_tdb_lipschitz). Qed.
Theorem C07_et_inverse_unique : forall a b, a + delta_et_R a = b + delta_et_R b -> a = b.
Proof. exact (F_injective delta_et_R L_ET L_ET_small delta_et_lipschitz). Qed.
Theorem C07_tdb_inverse_unique : forall a b, a + delta_tdb_R a = b + delta_tdb_R b -> a = b.
Proof. exact (F_injective delta_tdb_R L_TDB L_TDB_small delta_tdb_lipschitz). Qed.
Theorem C07_et_order_preserved : forall ca cb a b,
  Rabs (ca - (a + delta_et_R a)) <= 30 / 1000000000 -> Rabs (cb - (b + delta_et_R b)) <= 30 / 1000000000 ->
  100 / 1000000000 < b - a -> ca < cb.
Proof. exact (order_preserved delta_et_R L_ET L_ET_small delta_et_lipschitz). Qed.
Theorem C07_tdb_order_preserved : forall ca cb a b,
  Rabs (ca - (a + delta_tdb_R a)) <= 30 / 1000000000 -> Rabs (cb - (b + delta_tdb_R b)) <= 30 / 1000000000 ->
  100 / 1000000000 < b - a -> ca < cb.
Proof. exact (order_preserved delta_tdb_R L_TDB L_TDB_small delta_tdb_lipschitz). Qed.
(* an epoch given in ET read in TDB (or the reverse): same order of the readings, and computed conversions keep it beyond 100 ns *)
Theorem C07_et_tdb_same_order : forall a b, a + delta_et_R a < b + delta_et_R b <-> a + delta_tdb_R a < b + delta_tdb_R b.
Proof. exact (chain_same_order delta_et_R delta_tdb_R L_ET L_TDB L_ET_small L_TDB_small delta_et_lipschitz delta_tdb_lipschitz). Qed.
Theorem C07_et_to_tdb_order_preserved : forall ca cb a b,
  Rabs (ca - (a + delta_tdb_R a)) <= 30 / 1000000000 -> Rabs (cb - (b + delta_tdb_R b)) <= 30 / 1000000000 ->
  100 / 1000000000 < (b + delta_et_R b) - (a + delta_et_R a) -> ca < cb.
Proof. exact (chain_order_preserved delta_et_R delta_tdb_R L_ET L_TDB L_ET_small L_TDB_small delta_et_lipschitz delta_tdb_lipschitz). Qed.
Theorem C07_tdb_to_et_order_preserved : forall ca cb a b,
  Rabs (ca - (a + delta_et_R a)) <= 30 / 1000000000 -> Rabs (cb - (b + delta_et_R b)) <= 30 / 1000000000 ->
  100 / 1000000000 < (b + delta_tdb_R b) - (a + delta_tdb_R a) -> ca < cb.
Proof. exact (chain_order_preserved delta_tdb_R delta_et_R L_TDB L_ET L_TDB_small L_ET_small delta_tdb_lipschitz delta_et_lipschitz). Qed.
Theorem C07_et_insensitive_to_t : forall a b, Rabs (a - b) <= 1 / 100 -> Rabs (delta_et_R a - delta_et_R b) <= 4 / 1000000000000.
Proof. exact (delta_insensitive delta_et_R L_ET L_ET_small delta_et_lipschitz). Qed.
Theorem C07_tdb_insensitive_to_t : forall a b, Rabs (a - b) <= 1 / 100 -> Rabs (delta_tdb_R a - delta_tdb_R b) <= 4 / 1000000000000.
Proof. exact (delta_insensitive delta_tdb_R L_TDB L_TDB_small delta_tdb_lipschitz). Qed.
(* the constants in the code are those of the NAIF kernel file shipped with the crate (closed facts over regenerated values) *)
Theorem C07_code_constants_are_kernel_constants :
  NAIF_K_bits = NAIF_FILE_K_bits /\ NAIF_EB_bits = NAIF_FILE_EB_bits /\ NAIF_M0_bits = NAIF_FILE_M0_bits /\ NAIF_M1_bits = NAIF_FILE_M1_bits.
Proof. repeat split; reflexivity. Qed.

(* the hypotheses of the order theorems are satisfiable: two instants one second apart, each computed exactly *)
Example C07_nonvacuous :
  Rabs ((0 + delta_et_R 0) - (0 + delta_et_R 0)) <= 30 / 1000000000 /\ Rabs ((1 + delta_et_R 1) - (1 + delta_et_R 1)) <= 30 / 1000000000 /\
  100 / 1000000000 < 1 - 0.
Proof. rewrite !Rminus_eq_0, Rabs_R0. repeat split; lra. Qed.
