(* C08 -- Gregorian date -> Epoch: exact day count, valid dates accepted, invalid rejected.
   civil_days is the day count of Spec/Civil.v (C08_day_count_is_the_sum_of_year_and_month_lengths ties the
   closed form to the definition by summation); spec_gregorian_zero is where each scale's calendar starts.
   Known finding feb-30-31-leap-year (KNOWN_FINDINGS.txt): the code accepts 30/31 February in leap years;
   C08_known_feb30_refuted exhibits it and the rejection theorem is stated for what the code does reject. *)
From Coq Require Import ZArith Bool List.
From HF Require Import MachInt GenConsts GenLeap Duration Epoch Gregorian SignedNs Civil LeapSpec DurationP CivilP EpochP GregorianP.
Open Scope Z_scope.

Theorem C08_day_count_is_the_sum_of_year_and_month_lengths : forall y m d, 1 <= m <= 12 ->
  civil_days y m d = civil_days_sum y m d.
Proof. exact civil_days_is_sum. Qed.
Theorem C08_anchors : civil_days 1900 1 1 = 0 /\ civil_days 1970 1 1 = 25567 /\ civil_days 2000 1 1 = 36524 /\ civil_days 1 1 1 = -693595.
Proof. repeat split; reflexivity. Qed.

(* every valid date-time (second < 60) is accepted and lands exactly days*86400 s + time of day after the
   scale's calendar zero -- every year within 3 million years of 1900, all nine scales *)
Theorem C08_valid_accepted_exact : forall y m d h mi s ns t,
  valid_date y m d -> 0 <= h < 24 -> 0 <= mi < 60 -> 0 <= s < 60 -> 0 <= ns < 1000000000 -> Z.abs (y - 1900) <= 3000000 ->
  exists x, maybe_from_gregorian y m d h mi s ns t = inl (mkE x t) /\ canon x /\
            val x = civil_ns y m d h mi s ns - spec_gregorian_zero (ts_id t) /\
            compute_gregorian x t = (y, m, d, h, mi, s, ns).
Proof. exact greg_inverse. Qed.
(* whatever the code accepts (incl. second = 60) it maps to this count *)
Theorem C08_accepted_count : forall y m d h mi s ns t,
  is_gregorian_valid y m d h mi s ns = true -> 0 <= m -> 0 <= d -> 0 <= h -> 0 <= mi -> 0 <= s -> 0 <= ns ->
  Z.abs (y - 1900) <= 3000000 ->
  exists dd, maybe_from_gregorian y m d h mi s ns t = inl (mkE dd t) /\ canon dd /\ val dd = code_total y m d h mi s ns t.
Proof. exact maybe_from_gregorian_spec. Qed.
(* what is accepted satisfies the field ranges; second = 60 only at 23:59 of a day before a table entry *)
Theorem C08_accepted_implies : forall y m d h mi s ns, 0 <= m -> 0 <= d -> is_gregorian_valid y m d h mi s ns = true ->
  1 <= m <= 12 /\ 1 <= d <= 31 /\ h <= 24 /\ mi <= 59 /\ s <= 60 /\ ns <= 1000000000 /\
  (s = 60 -> model_leap_clause y m d = true /\ h = 23 /\ mi = 59).
Proof. exact valid_bounds. Qed.
Theorem C08_leap_second_days_are_the_table : forall y m d, in_i32 y ->
  model_leap_clause y m d = existsb (date_eqb (y, m, d)) leap_days.
Proof. exact model_leap_clause_is_table. Qed.
(* anything else is an error, never a shifted date *)
Theorem C08_rejected_is_error : forall y m d h mi s ns t, is_gregorian_valid y m d h mi s ns = false ->
  maybe_from_gregorian y m d h mi s ns t = inr InvalidGregorianDate.
Proof. intros. unfold maybe_from_gregorian. rewrite H. reflexivity. Qed.
(* calendar zero of each scale: the date of the property, 00:00:00 (12:00:00 for ET/TDB) in the scale itself *)
Theorem C08_calendar_zero : forall t, canon (gregorian_epoch_offset t) /\ val (gregorian_epoch_offset t) = spec_gregorian_zero (ts_id t).
Proof. exact gregorian_epoch_offset_val. Qed.
(* the executable fast path used in the correspondence run is the loop version *)
Theorem C08_fast_path_is_the_loops : forall y m d h mi s ns t, 0 <= m -> 0 <= d -> 0 <= h -> 0 <= mi -> 0 <= s -> 0 <= ns ->
  maybe_from_gregorian_fast y m d h mi s ns t = maybe_from_gregorian y m d h mi s ns t.
Proof. exact maybe_from_gregorian_fast_eq. Qed.

Example C08_known_feb30_refuted :
  valid_dateb 2020 2 30 = false /\ is_gregorian_valid 2020 2 30 0 0 0 0 = true /\
  maybe_from_gregorian_fast 2020 2 30 0 0 0 0 UTC = maybe_from_gregorian_fast 2020 3 1 0 0 0 0 UTC.
Proof. repeat split; vm_compute; reflexivity. Qed.
Example C08_nonvacuous :
  is_gregorian_valid 2016 12 31 23 59 60 0 = true /\ is_gregorian_valid 2015 12 31 23 59 60 0 = false /\
  is_gregorian_valid 2019 2 29 0 0 0 0 = false /\ is_gregorian_valid 2020 2 29 0 0 0 0 = true /\
  is_gregorian_valid 2020 13 1 0 0 0 0 = false /\ is_gregorian_valid 2020 4 31 0 0 0 0 = false.
Proof. repeat split; vm_compute; reflexivity. Qed.
