(* C17 -- Julian Date, Modified Julian Date and UNIX views are exact affine re-expressions.
   Proved: the constants (closed facts on the Flocq model of Unit * f64) and every Duration-valued view,
   for all epochs.  Partial: the float-valued accessors and from_mjd/from_jde/from_unix_seconds -- their dataflow
   is proved (C17_float_views_dataflow) and the model is bit-exact against the code on every case of the
   correspondence run.  The "few ulps" bound of the float-valued accessors is proved (C17_*_error, Flocq), as is their
   monotonicity; for the float-taking constructors it is proved on integer day counts and otherwise checked against exact rationals. *)
From Coq Require Import ZArith Bool List Reals.
From Flocq Require Import Core.Core IEEE754.BinarySingleNaN.
From HF Require Import MachInt GenConsts GenUnits Duration Epoch F64 DurationF64 Views SignedNs DurationP EpochP F64P ViewsP Gregorian F64ExactP ViewsFloatP.
Open Scope Z_scope.

Local Notation D := 86400000000000 (only parsing).

(* MJD of 1900-01-01 is 15 020 d; JD = MJD + 2 400 000.5 d; J2000 = 3 155 716 800 s = 36 524.5 d; UNIX zero = day 25 567 *)
Theorem C17_constants :
  day_mjd_j1900 = from_total_nanoseconds (15020 * D) /\
  day_mjd_offset = from_total_nanoseconds (2400000 * D + 43200000000000) /\
  day_jd_j1900 = from_total_nanoseconds (2415020 * D + 43200000000000) /\
  sec_et_epoch = from_total_nanoseconds (3155716800 * 1000000000) /\
  unix_ref_utc = Some (from_total_nanoseconds (25567 * D)) /\
  val sec_et_epoch = 36524 * D + 43200000000000.
Proof. exact view_constants_exact. Qed.
Theorem C17_jde_tai : forall e tai, to_tai_duration e = Some tai -> canon tai ->
  exists d, to_jde_tai_duration e = Some d /\ canon d /\ val d = clamp (clamp (val tai + 15020 * D) + (2400000 * D + D / 2)).
Proof. exact jde_tai_duration_spec. Qed.
Theorem C17_jde_utc : forall e x, to_utc_duration e = Some x -> canon x ->
  exists d, to_jde_utc_duration e = Some d /\ canon d /\ val d = clamp (val x + (2415020 * D + D / 2)).
Proof. exact jde_utc_duration_spec. Qed.
Theorem C17_jde_tt : forall e x, to_tt_duration e = Some x -> canon x ->
  exists d, to_jde_tt_duration e = Some d /\ canon d /\ val d = clamp (val x + (2415020 * D + D / 2)).
Proof. exact jde_tt_duration_spec. Qed.
Theorem C17_mjd_tt : forall e x, to_tt_duration e = Some x -> canon x ->
  exists d, to_mjd_tt_duration e = Some d /\ canon d /\ val d = clamp (val x + 15020 * D).
Proof. exact mjd_tt_duration_spec. Qed.
Theorem C17_tt_since_j2000 : forall e x, to_tt_duration e = Some x -> canon x ->
  exists d, to_tt_since_j2k e = Some d /\ canon d /\ val d = clamp (val x - 3155716800 * 1000000000).
Proof. exact tt_since_j2k_spec. Qed.
Theorem C17_unix : forall e x, to_utc_duration e = Some x -> canon x ->
  exists d, to_unix_duration e = Some d /\ canon d /\ val d = clamp (val x - 25567 * D).
Proof. exact unix_duration_spec. Qed.
Theorem C17_from_unix_duration : forall d, canon d ->
  exists e, from_unix_duration d = Some e /\ scale e = UTC /\ canon (dur e) /\ val (dur e) = clamp (25567 * D + val d).
Proof. exact from_unix_duration_spec. Qed.
Theorem C17_float_views_dataflow_partial : forall e u,
  to_mjd_tai e u = option_map (fun d => to_unit d u) (to_mjd_tai_duration e) /\
  to_jde_tai e u = option_map (fun d => to_unit d u) (to_jde_tai_duration e) /\
  to_unix e u = option_map (fun d => to_unit d u) (to_unix_duration e) /\
  (forall d, to_unit d u = fmul (to_seconds d) (fdiv (f_of_bits F64_ONE_BITS) (unit_in_seconds u))).
Proof. exact float_views_dataflow. Qed.

(* an integer Modified Julian Date, in any of the nine time scales, within 18 600 years of 1900: exactly (k - 15020) days
   minus the scale's calendar offset (Flocq: the subtraction and the product by one day are exact) *)
Theorem C17_from_mjd_integer : forall k t, Z.abs k <= 2 ^ 52 -> Z.abs (k - 15020) <= 6800000 ->
  from_mjd_in_time_scale (f_of_Z k) t = mkE (dur_sub (unit_mul_i64 Day (k - 15020)) (gregorian_epoch_offset t)) t.
Proof. exact from_mjd_integer. Qed.

(* the float-valued views: within 5 * 2^-53 (relative) plus 2^-49 of one second's worth of the exact count in the unit asked for
   (within_unit_err unfolds to finiteness and that bound), and monotone in the count they are read from (Flocq) *)
Theorem C17_jde_utc_days_error : forall e x, to_utc_duration e = Some x -> canon x ->
  exists r, to_jde_utc_days e = Some r /\ within_unit_err r (clamp (val x + (2415020 * D + D / 2))) Day.
Proof. exact jde_utc_days_err. Qed.
Theorem C17_jde_tai_error : forall e tai u, to_tai_duration e = Some tai -> canon tai ->
  exists r, to_jde_tai e u = Some r /\ within_unit_err r (clamp (clamp (val tai + 15020 * D) + (2400000 * D + D / 2))) u.
Proof. exact jde_tai_err. Qed.
Theorem C17_unix_error : forall e x u, to_utc_duration e = Some x -> canon x ->
  exists r, to_unix e u = Some r /\ within_unit_err r (clamp (val x - 25567 * D)) u.
Proof. exact unix_err. Qed.
Theorem C17_tt_centuries_error : forall e x, to_tt_duration e = Some x -> canon x ->
  exists r, to_tt_centuries_j2k e = Some r /\ within_unit_err r (clamp (val x - 3155716800 * 1000000000)) Century.
Proof. exact tt_centuries_j2k_err. Qed.
Theorem C17_within_unit_err_means : forall r v u, within_unit_err r v u <->
  (is_finite r = true /\
   (Rabs (B2R r - IZR v / IZR (spec_unit_factor u))
    <= 5 * bpow radix2 (-53) * Rabs (IZR v / IZR (spec_unit_factor u)) + bpow radix2 (-49) / (IZR (spec_unit_factor u) / 1000000000))%R).
Proof. intros r v u. reflexivity. Qed.
Theorem C17_jde_utc_days_monotone : forall e1 e2 x1 x2 r1 r2,
  to_utc_duration e1 = Some x1 -> to_utc_duration e2 = Some x2 -> canon x1 -> canon x2 -> val x1 <= val x2 ->
  to_jde_utc_days e1 = Some r1 -> to_jde_utc_days e2 = Some r2 -> (B2R r1 <= B2R r2)%R.
Proof. exact jde_utc_days_monotone. Qed.
Theorem C17_unix_monotone : forall e1 e2 x1 x2 u r1 r2,
  to_utc_duration e1 = Some x1 -> to_utc_duration e2 = Some x2 -> canon x1 -> canon x2 -> val x1 <= val x2 ->
  to_unix e1 u = Some r1 -> to_unix e2 u = Some r2 -> (B2R r1 <= B2R r2)%R.
Proof. exact unix_monotone. Qed.

Example C17_nonvacuous :
  to_jde_tai_duration (mkE (mkD 0 0) TAI) = Some (mkD 66 377611200000000000) /\
  from_mjd_in_time_scale (f_of_bits 4669482946653061120) TAI = mkE (mkD 0 0) TAI. (* MJD 15020.0 *)
Proof. split; vm_compute; reflexivity. Qed.
