(* C15 -- TimeSeries yields exactly start + k*step, in order, up to the end bound.
   The theorem is about every call of next from every reachable state (induction on the number of calls,
   no bound on it): the i-th call from the state with counter j yields item (j+i) while j+i < N and None
   for ever after, where N = #{k >= 0 : k*step < span} (exclusive) or #{k : k*step <= span} (inclusive). *)
From Coq Require Import ZArith List Bool. Import ListNotations.
From HF Require Import MachInt GenConsts Duration Epoch TimeSeries SignedNs DurationP EpochP TimeSeriesP.
Open Scope Z_scope.

Theorem C15_count_characterisation : forall span step incl j, 0 < step -> 0 <= span -> 0 <= j ->
  (j <? n_items span step incl) = (if incl then j * step <=? span else j * step <? span).
Proof. exact n_items_char. Qed.

(* each item is computed from the start: start + j*step exactly, in start's time scale *)
Theorem C15_item : forall start span step incl, canon (dur start) -> canon step ->
  0 < val step -> 0 <= val span -> val span + val step <= MAXV -> val (dur start) + val span <= MAXV ->
  n_items (val span) (val step) incl <= I64_MAX ->
  forall j, 0 <= j < n_items (val span) (val step) incl ->
  scale (item start step j) = scale start /\ canon (dur (item start step j)) /\
  val (dur (item start step j)) = val (dur start) + j * val step.
Proof. exact item_spec. Qed.

Theorem C15_every_call : forall start span step incl, canon span -> canon step ->
  0 < val step -> 0 <= val span -> val span + val step <= MAXV ->
  n_items (val span) (val step) incl <= I64_MAX ->
  forall n j, 0 <= j <= n_items (val span) (val step) incl ->
  forall i, (i < n)%nat ->
    nth i (fst (ts_run n (st start span step incl j))) None =
    (if j + Z.of_nat i <? n_items (val span) (val step) incl then Some (item start step (j + Z.of_nat i)) else None).
Proof. exact run_from. Qed.

(* the constructors measure the span as end - start (in the scale of the left operand, C04) and start at k = 0 *)
Theorem C15_constructors : forall start end_ step incl,
  ts_new start end_ step incl = option_map (fun d => st start d step incl 0) (epoch_diff end_ start).
Proof. reflexivity. Qed.

Example C15_nonvacuous :
  let start := mkE (mkD 1 536457598000000000) UTC in let span := mkD 0 2500000000 in let step := mkD 0 1000000000 in
  canon (dur start) /\ canon span /\ canon step /\ n_items (val span) (val step) false = 3 /\ n_items (val span) (val step) true = 3 /\
  n_items 3000000000 1000000000 false = 3 /\ n_items 3000000000 1000000000 true = 4 /\
  fst (ts_run 5 (st start span step false 0)) =
    [Some (mkE (mkD 1 536457598000000000) UTC); Some (mkE (mkD 1 536457599000000000) UTC); Some (mkE (mkD 1 536457600000000000) UTC); None; None].
Proof. cbv zeta. repeat split; try (apply canon_canonb; reflexivity); vm_compute; reflexivity. Qed.
