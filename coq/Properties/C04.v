(* C04 -- Epoch +/- Duration is exact in the epoch's own time scale; differences invert it.
   Statements only; all nine time scales (the scale is never inspected by these operations). *)
From Coq Require Import ZArith Bool List.
From HF Require Import MachInt GenConsts Duration Epoch SignedNs DurationP EpochP F64 DurationF64 Views F64ExactP.
Open Scope Z_scope.

Theorem C04_add_exact_same_scale : forall e d, canon (dur e) -> canon d ->
  scale (epoch_add e d) = scale e /\ canon (dur (epoch_add e d)) /\ val (dur (epoch_add e d)) = clamp (val (dur e) + val d).
Proof. exact epoch_add_spec. Qed.
Theorem C04_sub_exact_same_scale : forall e d, canon (dur e) -> canon d ->
  scale (epoch_sub e d) = scale e /\ canon (dur (epoch_sub e d)) /\ val (dur (epoch_sub e d)) = clamp (val (dur e) - val d).
Proof. exact epoch_sub_spec. Qed.
Theorem C04_add_unit : forall e u, canon (dur e) ->
  scale (epoch_add_unit e u) = scale e /\ canon (dur (epoch_add_unit e u)) /\
  val (dur (epoch_add_unit e u)) = clamp (val (dur e) + spec_unit_factor u).
Proof. exact epoch_add_unit_spec. Qed.
Theorem C04_sub_unit : forall e u, canon (dur e) ->
  scale (epoch_sub_unit e u) = scale e /\ canon (dur (epoch_sub_unit e u)) /\
  val (dur (epoch_sub_unit e u)) = clamp (val (dur e) - spec_unit_factor u).
Proof. exact epoch_sub_unit_spec. Qed.
(* (e + d) - e = d *)
Theorem C04_add_then_diff : forall e d, canon (dur e) -> canon d -> MINV <= val (dur e) + val d <= MAXV ->
  epoch_diff (epoch_add e d) e = Some d.
Proof. exact add_then_diff. Qed.
(* (e + d) - d = e *)
Theorem C04_add_then_sub : forall e d, canon (dur e) -> canon d -> MINV <= val (dur e) + val d <= MAXV ->
  epoch_sub (epoch_add e d) d = e.
Proof. exact add_then_sub. Qed.
(* e + (f - e) = f *)
Theorem C04_add_diff_back : forall e f, scale e = scale f -> canon (dur e) -> canon (dur f) ->
  MINV <= val (dur f) - val (dur e) <= MAXV -> exists x, epoch_diff f e = Some x /\ epoch_add e x = f.
Proof. exact add_diff_back. Qed.
(* the difference is measured in the scale of the left operand after re-expressing the right operand in it *)
Theorem C04_diff_in_left_scale : forall a b,
  epoch_diff a b = option_map (fun b' => dur_sub (dur a) (dur b')) (to_time_scale b (scale a)).
Proof. reflexivity. Qed.

(* Epoch + f64 with float seconds that are an exact integer (nanosecond count below 2^53): exactly that many seconds, same scale *)
Theorem C04_add_f64_integer : forall e k, Z.abs (k * 1000000000) < 2 ^ 53 ->
  epoch_add_f64 e (f_of_Z k) = epoch_add e (unit_mul_i64 Second k).
Proof. exact epoch_add_f64_integer. Qed.

Example C04_nonvacuous :
  let e := mkE (mkD (-1) 3155759999999999993) GPST in let d := mkD 1 5 in
  canon (dur e) /\ canon d /\ MINV <= val (dur e) + val d <= MAXV /\ epoch_diff (epoch_add e d) e = Some d.
Proof. cbv zeta. repeat split; try (apply canon_canonb; reflexivity); try reflexivity; vm_compute; discriminate. Qed.
