(* C19 -- strftime-style formatting: consts match docs, formats are bounded, parsing with a format is total.
   Proved here: each predefined format IS the format its documented string parses to (closed facts over the constants
   regenerated from src/efmt/consts.rs), Format::from_str keeps at most 16 items and enum tokens only, weekday and month
   names print and parse back. The per-token rendering clause and the parse-back clause are decided by correspondence
   against the spec renderer that walks the format string (Extract/Dispatch.v spec_render): partial, see DESIGN.md. *)
From Coq Require Import ZArith Bool List.
From HF Require Import Text Duration Epoch Gregorian TextFmt TextParse TextSpec TextP.
Import ListNotations.
Open Scope Z_scope.

Theorem C19_predefined_is_documented : forall k, 0 <= k <= 8 -> format_from_str (DOC_FORMAT k) = inl (predefined_by_index k).
Proof. exact predefined_is_documented. Qed.
Theorem C19_format_len : forall s f, format_from_str s = inl f -> Z.of_nat (length f) <= 16.
Proof. exact format_from_str_len. Qed.
Theorem C19_format_wf : forall s f, format_from_str s = inl f -> fmt_wf f.
Proof. exact format_from_str_wf. Qed.
Theorem C19_parse_total : forall s fs, from_format_str s fs <> PPanic.
Proof. exact from_format_str_total. Qed.
Theorem C19_weekday_names : forall w, 0 <= w <= 6 ->
  weekday_from_str (weekday_long w) = Some w /\ weekday_from_str (weekday_short w) = Some w.
Proof. exact weekday_name_roundtrip. Qed.
Theorem C19_month_names : forall m, 1 <= m <= 12 ->
  month_from_str (month_long m) = Some m /\ month_from_str (month_short m) = Some m.
Proof. exact month_name_roundtrip. Qed.
(* the ISO 8601 formatter prints what Display prints, for every epoch whose sub-second part is non-zero; for whole seconds
   they differ (known finding iso8601-vs-display-whole-seconds, witness below): Display omits the fraction, the formatter's
   documented %f is not optional *)
Theorem C19_iso8601_is_display : forall e, weekday e <> None -> nanos_of (compute_gregorian (dur e) (scale e)) <> 0 ->
  formatter_new e (predefined_by_index 0) = ROk (display_epoch e).
Proof. exact iso8601_is_display_when_subsecond. Qed.
Theorem C19_iso8601_display_whole_second_witness :
  exists e, weekday e <> None /\ nanos_of (compute_gregorian (dur e) (scale e)) = 0 /\
            formatter_new e (predefined_by_index 0) <> ROk (display_epoch e).
Proof. exact iso8601_display_whole_second_witness. Qed.
(* per-token rendering, for every epoch and every format made of the tokens Y y m d H M S f z T A a B b (optional or not):
   each item prints the field its token names (zero-padded numbers, nine-digit %f, names, scale, offset), preceded by exactly the
   separators of the item before it; an optional token that is zero / UTC prints nothing and its leading separators are
   dropped; the separators of the last item are never printed.  spec_render_items is that description, executable. *)
Theorem C19_formatter_spec : forall e off fmt wd out, weekday e = Some wd -> need_gregorian fmt = true ->
  spec_render_items e off (compute_gregorian (dur e) (scale e)) wd None fmt = Some out ->
  formatter_render e off fmt = ROk out.
Proof. exact formatter_spec. Qed.
Example C19_formatter_spec_nonvacuous :
  exists out, spec_render_items (mkE (mkD 0 86399000000037) UTC) D_ZERO (compute_gregorian (mkD 0 86399000000037) UTC) 0 None (predefined_by_index 2) = Some out.
Proof. eexists. vm_compute. reflexivity. Qed.
