(* C01 -- Duration arithmetic is exact to the nanosecond and saturates at the bounds.
   Only statements here; every proof is `exact <lemma of Proofs/DurationP.v>`.
   val d = centuries*SNPC + nanoseconds is the signed count, clamp saturates to [MINV, MAXV],
   canon is the one observable (centuries, nanoseconds) form.  All quantifiers are unbounded. *)
From Coq Require Import ZArith.
From HF Require Import MachInt GenConsts Duration SignedNs DurationP.
Open Scope Z_scope.

(* every value the constructor can produce is canonical and denotes the clamped count *)
Theorem C01_constructor : forall c n, in_i16 c -> in_u64 n ->
  canon (from_parts c n) /\ val (from_parts c n) = clamp (c * SNPC + n).
Proof. exact from_parts_spec. Qed.

Theorem C01_add_exact : forall a b, canon a -> canon b ->
  canon (dur_add a b) /\ val (dur_add a b) = clamp (val a + val b).
Proof. exact add_spec. Qed.
Theorem C01_sub_exact : forall a b, canon a -> canon b ->
  canon (dur_sub a b) /\ val (dur_sub a b) = clamp (val a - val b).
Proof. exact sub_spec. Qed.
Theorem C01_neg_exact : forall a, canon a -> canon (dur_neg a) /\ val (dur_neg a) = clamp (- val a).
Proof. exact neg_spec. Qed.
Theorem C01_abs_exact : forall a, canon a -> canon (dur_abs a) /\ val (dur_abs a) = clamp (Z.abs (val a)).
Proof. exact abs_spec. Qed.
Theorem C01_mul_exact : forall a k, canon a -> in_i64 k ->
  canon (dur_mul_i64 a k) /\ val (dur_mul_i64 a k) = clamp (val a * k).
Proof. exact mul_spec. Qed.
(* integer division truncates toward zero: Z.quot *)
Theorem C01_div_exact : forall a k, canon a -> in_i64 k -> k <> 0 ->
  canon (dur_div_i64 a k) /\ val (dur_div_i64 a k) = clamp (Z.quot (val a) k).
Proof. exact div_spec. Qed.
(* Duration +/- Unit *)
Theorem C01_add_unit_exact : forall a u, canon a ->
  canon (dur_add_unit a u) /\ val (dur_add_unit a u) = clamp (val a + spec_unit_factor u).
Proof. exact add_unit_spec. Qed.
Theorem C01_sub_unit_exact : forall a u, canon a ->
  canon (dur_sub_unit a u) /\ val (dur_sub_unit a u) = clamp (val a - spec_unit_factor u).
Proof. exact sub_unit_spec. Qed.

(* saturation is on the side of the true result, and is the bound itself *)
Theorem C01_add_saturates : forall a b, canon a -> canon b ->
  (MAXV <= val a + val b -> dur_add a b = D_MAX) /\ (val a + val b <= MINV -> dur_add a b = D_MIN).
Proof. exact add_saturates. Qed.
Theorem C01_sub_saturates : forall a b, canon a -> canon b ->
  (MAXV <= val a - val b -> dur_sub a b = D_MAX) /\ (val a - val b <= MINV -> dur_sub a b = D_MIN).
Proof. exact sub_saturates. Qed.
Theorem C01_mul_saturates : forall a k, canon a -> in_i64 k ->
  (MAXV <= val a * k -> dur_mul_i64 a k = D_MAX) /\ (val a * k <= MINV -> dur_mul_i64 a k = D_MIN).
Proof. exact mul_saturates. Qed.
Theorem C01_neg_bounds : dur_neg D_MIN = D_MAX /\ dur_neg D_MAX = D_MIN.
Proof. exact neg_min_max. Qed.

(* no wrap-around: the i128 intermediates of + - neg stay inside i128 *)
Theorem C01_no_i128_overflow : forall a b, canon a -> canon b ->
  in_i128 (total_nanoseconds a + total_nanoseconds b) /\ in_i128 (total_nanoseconds a - total_nanoseconds b) /\
  in_i128 (- total_nanoseconds a).
Proof. exact add_no_i128_overflow. Qed.

(* the clamp is the identity on the representable range, so "exact whenever representable" *)
Theorem C01_clamp_id : forall z, MINV <= z <= MAXV -> clamp z = z.
Proof. exact clamp_id. Qed.

(* non-vacuity: the hypotheses are met by non-trivial values, incl. the former failing inputs *)
Example C01_nonvacuous :
  canon (mkD (-32768) 5) /\ canon (mkD 20000 0) /\ canon (mkD (-20000) 3155759999999999999) /\
  dur_sub (mkD 20000 0) (mkD (-20000) 0) = D_MAX /\
  dur_add (mkD (-20000) 3155759999999999999) (mkD (-12769) 3155759999999999999) = mkD (-32768) 3155759999999999998 /\
  dur_neg (mkD (-32768) 5) = mkD 32767 3155759999999999995 /\
  dur_mul_i64 (mkD (-3) 7) 2 = mkD (-6) 14.
Proof. repeat split; try (apply canon_canonb; reflexivity); reflexivity. Qed.
