(* C09 -- Epoch -> Gregorian fields exactly inverts construction.
   The default text form is proved to print exactly those fields; the other renderings are covered with C10/C19. *)
From Coq Require Import ZArith Bool List.
From HF Require Import MachInt GenConsts Text Duration Epoch Gregorian SignedNs Civil LeapSpec TextFmt TextSpec DurationP CivilP EpochP GregorianP TextP.
Open Scope Z_scope.

Local Notation D := 86400000000000 (only parsing).

(* the spec's date <-> day-number maps are mutually inverse on all of Z / all valid dates *)
Theorem C09_civil_of_days_valid_and_inverse : forall z,
  let '(y, m, d) := civil_of_days z in valid_date y m d /\ civil_days y m d = z.
Proof. exact civil_of_days_valid. Qed.
Theorem C09_civil_days_then_back : forall y m d, valid_date y m d -> civil_of_days (civil_days y m d) = (y, m, d).
Proof. exact civil_of_days_of_civil. Qed.

(* what the code computes: civil date of the floored day count, time of day of the remainder *)
Theorem C09_fields : forall d t, canon d ->
  let w := val d + spec_gregorian_zero (ts_id t) in MINV <= w <= MAXV ->
  compute_gregorian d t =
    (let '(y, m, dd) := civil_of_days (w / D) in let '(h, mi, s, ns) := tod_fields (w mod D) in (y, m, dd, h, mi, s, ns)).
Proof. exact compute_gregorian_spec. Qed.
Theorem C09_fields_valid : forall d t, canon d -> MINV <= val d + spec_gregorian_zero (ts_id t) <= MAXV ->
  let '(y, m, dd, h, mi, s, ns) := compute_gregorian d t in
  valid_date y m dd /\ 0 <= h < 24 /\ 0 <= mi < 60 /\ 0 <= s < 60 /\ 0 <= ns < 1000000000.
Proof. exact greg_fields_valid. Qed.
(* fields -> epoch gives the identical epoch back, in the same scale *)
Theorem C09_roundtrip : forall d t, canon d -> MINV <= val d + spec_gregorian_zero (ts_id t) <= MAXV ->
  let '(y, m, dd, h, mi, s, ns) := compute_gregorian d t in
  Z.abs (y - 1900) <= 3000000 -> maybe_from_gregorian y m dd h mi s ns t = inl (mkE d t).
Proof. exact greg_roundtrip. Qed.
(* equivalently the fields of an epoch built from valid fields are those fields *)
Theorem C09_inverse : forall y m d h mi s ns t,
  valid_date y m d -> 0 <= h < 24 -> 0 <= mi < 60 -> 0 <= s < 60 -> 0 <= ns < 1000000000 -> Z.abs (y - 1900) <= 3000000 ->
  exists x, maybe_from_gregorian y m d h mi s ns t = inl (mkE x t) /\ canon x /\
            val x = civil_ns y m d h mi s ns - spec_gregorian_zero (ts_id t) /\
            compute_gregorian x t = (y, m, d, h, mi, s, ns).
Proof. exact greg_inverse. Qed.

(* the default text form: exactly those fields as YYYY-MM-DDTHH:MM:SS, nine fractional digits only when non-zero, then the scale name *)
Theorem C09_display_text : forall d t, canon d ->
  let w := val d + spec_gregorian_zero (ts_id t) in MINV <= w <= MAXV ->
  display_epoch (mkE d t) =
    (let '(y, m, dd) := civil_of_days (w / D) in let '(h, mi, s, ns) := tod_fields (w mod D) in spec_epoch_text y m dd h mi s ns t).
Proof. exact display_epoch_text. Qed.

Example C09_nonvacuous :
  compute_gregorian (mkD (-1) 2934921600000000000) TAI = (1893, 1, 1, 0, 0, 0, 0) /\
  compute_gregorian (mkD (-19) 32832000000000000) TAI = (1, 1, 1, 0, 0, 0, 0) /\
  compute_gregorian (mkD 0 86399999999999) UTC = (1900, 1, 1, 23, 59, 59, 999999999) /\
  compute_gregorian (mkD 0 0) GPST = (1980, 1, 6, 0, 0, 0, 0) /\ compute_gregorian (mkD 0 0) ET = (2000, 1, 1, 12, 0, 0, 0).
Proof. repeat split; vm_compute; reflexivity. Qed.
