(* C05 -- TAI/TT/GPST/QZSST/GST/BDT conversions are exact, constant-offset and invertible.
   zero_of t is the TAI count of the scale's zero, written in Spec/LeapSpec.v from the property text:
   date of the zero (civil_days ... * 86400 s) plus how far the scale runs behind TAI. *)
From Coq Require Import ZArith Bool List.
From HF Require Import MachInt GenConsts Duration Epoch SignedNs Civil LeapSpec DurationP CivilP EpochP.
Open Scope Z_scope.

(* the offsets, as the property states them *)
Theorem C05_offsets :
  zero_of TAI = 0 /\ zero_of TT = - 32184 * 1000000 /\
  zero_of GPST = civil_days 1980 1 6 * NS_PER_DAY + 19 * NS_PER_S /\ zero_of QZSST = zero_of GPST /\
  zero_of GST = civil_days 1999 8 22 * NS_PER_DAY + 19 * NS_PER_S /\
  zero_of BDT = civil_days 2006 1 1 * NS_PER_DAY + 33 * NS_PER_S.
Proof. repeat split; reflexivity. Qed.
(* every copy of those constants in the sources agrees with them *)
Theorem C05_source_constants_agree :
  val tt_offset = 32184000000 /\ val gpst_ref_tai = zero_of GPST /\ val qzsst_ref_tai = zero_of QZSST /\
  val gst_ref_tai = zero_of GST /\ val bdt_ref_tai = zero_of BDT /\
  prime_epoch_offset GPST = gpst_ref_tai /\ prime_epoch_offset QZSST = qzsst_ref_tai /\
  prime_epoch_offset GST = gst_ref_tai /\ prime_epoch_offset BDT = bdt_ref_tai /\
  prime_epoch_offset TAI = D_ZERO /\ prime_epoch_offset TT = D_ZERO /\
  val gpst_ref_tai = SECONDS_GPS_TAI_OFFSET_I64 * NS_PER_S /\ val gst_ref_tai = SECONDS_GST_TAI_OFFSET_I64 * NS_PER_S /\
  val bdt_ref_tai = SECONDS_BDT_TAI_OFFSET_I64 * NS_PER_S.
Proof. repeat split; reflexivity. Qed.

(* all 36 ordered pairs: same instant, exact, whenever no duration bound is hit *)
Theorem C05_conversion_exact : forall e t, uniform (scale e) = true -> uniform t = true -> canon (dur e) ->
  MINV <= val (dur e) + zero_of (scale e) <= MAXV ->
  MINV <= val (dur e) + zero_of (scale e) - zero_of t <= MAXV ->
  exists e', to_time_scale e t = Some e' /\ scale e' = t /\ canon (dur e') /\
             val (dur e') = val (dur e) + zero_of (scale e) - zero_of t.
Proof. exact conv_uniform. Qed.
Theorem C05_identity : forall e, to_time_scale e (scale e) = Some e.
Proof. exact conv_identity. Qed.
Theorem C05_roundtrip : forall e t, uniform (scale e) = true -> uniform t = true -> canon (dur e) ->
  MINV <= val (dur e) + zero_of (scale e) <= MAXV ->
  MINV <= val (dur e) + zero_of (scale e) - zero_of t <= MAXV ->
  exists e', to_time_scale e t = Some e' /\ to_time_scale e' (scale e) = Some e.
Proof. exact conv_roundtrip. Qed.
Theorem C05_commutes_with_add : forall e t x, uniform (scale e) = true -> uniform t = true -> canon (dur e) -> canon x ->
  MINV <= val (dur e) + zero_of (scale e) <= MAXV ->
  MINV <= val (dur e) + zero_of (scale e) - zero_of t <= MAXV ->
  MINV <= val (dur e) + val x <= MAXV ->
  MINV <= val (dur e) + val x + zero_of (scale e) <= MAXV ->
  MINV <= val (dur e) + val x + zero_of (scale e) - zero_of t <= MAXV ->
  exists e1 e2, to_time_scale e t = Some e1 /\ to_time_scale (epoch_add e x) t = Some e2 /\ e2 = epoch_add e1 x.
Proof. exact conv_add_commutes. Qed.

Example C05_nonvacuous :
  let e := mkE (mkD 0 5) GPST in
  uniform (scale e) = true /\ canon (dur e) /\ MINV <= val (dur e) + zero_of (scale e) <= MAXV /\
  to_time_scale e BDT = Some (mkE (mkD (-1) 2335651186000000005) BDT).
Proof. cbv zeta. repeat split; try (apply canon_canonb; reflexivity); try reflexivity; vm_compute; discriminate. Qed.
