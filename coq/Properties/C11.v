(* C11 -- Duration decomposition and text form are exact.
   Proved: the decomposition (sign, days, h < 24, min < 60, s < 60, ms/us/ns < 1000) sums exactly to |d| for every canonical
   duration; Display prints exactly the non-zero components of |count| with unit names, one leading '-', "0 ns" for zero
   (equal to the spec renderer written from the count alone); Duration::from_str is total. Parse-back and the parser's
   value semantics go through f64 (compose_f64): decided by correspondence (partial, see DESIGN.md). *)
From Coq Require Import ZArith Bool List.
From HF Require Import MachInt GenConsts Text Duration SignedNs TextFmt TextParse TextSpec DurationP TextP.
Import ListNotations.
Open Scope Z_scope.

Theorem C11_decompose_exact : forall d sg D h mi s ms us ns, canon d ->
  decompose d = (sg, (D, h, mi, s, ms, us, ns)) ->
  0 <= D /\ 0 <= h < 24 /\ 0 <= mi < 60 /\ 0 <= s < 60 /\ 0 <= ms < 1000 /\ 0 <= us < 1000 /\ 0 <= ns < 1000 /\
  Z.abs (val d) = (((((D * 24 + h) * 60 + mi) * 60 + s) * 1000 + ms) * 1000 + us) * 1000 + ns /\
  (sg < 0 <-> val d < 0) /\ D <= 32768 * 36525.
Proof. exact decompose_spec. Qed.
(* composing the decomposition returns the identical duration *)
Theorem C11_compose_decompose : forall d, canon d ->
  let '(sg, (D, h, mi, s, ms, us, ns)) := decompose d in compose sg D h mi s ms us ns = d.
Proof. exact compose_decompose. Qed.
Theorem C11_display_exact : forall d, canon d -> display_duration d = spec_display_duration (val d).
Proof. exact display_duration_spec. Qed.
Theorem C11_from_str_total : forall s, duration_from_str s <> PPanic.
Proof. exact duration_from_str_total. Qed.

Example C11_nonvacuous :
  canon (mkD (-1) 3155759999999999999) /\ display_duration (mkD (-1) 3155759999999999999) = [45; 49; 32; 110; 115] /\
  display_duration (mkD 0 86400000000001) = [49; 32; 100; 97; 121; 32; 49; 32; 110; 115].
Proof. repeat split; vm_compute; try reflexivity; intuition discriminate. Qed.
