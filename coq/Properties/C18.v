(* C18 -- Duration float interop: rounded out, truncated to ns in, never panics.  (partial)
   The model of every float step is Flocq's binary64 (bit-exact against the code on every case of the
   correspondence run, incl. subnormals, huge values, +/-inf and NaN).  Proved here for all inputs: totality
   and canonical results (no panic, no hang: the model is a total function and Duration * f64 has no loop),
   infinities -> bounds, NaN -> zero, and Duration * f64 = the exact real product truncated toward zero.
   and Unit * f64 = exactly the product whenever that is a whole number of nanoseconds below 2^53 (Flocq).
   to_seconds / to_unit are within a few units in the last place of the exact value (error of every binary64 step composed).
   Not proved (checked against exact rationals in the correspondence run instead): monotonicity of to_seconds in the duration,
   and Unit * f64 on products that are not integers representable as doubles. *)
From Coq Require Import Reals ZArith Bool List.
From Flocq Require Import Core.Core IEEE754.BinarySingleNaN.
From HF Require Import MachInt GenConsts GenLeap GenUnits Duration Epoch F64 DurationF64 SignedNs DurationP F64P F64ExactP F64ErrP F64MonoP.
Open Scope Z_scope.

Theorem C18_unit_times_float_total_and_canonical : forall u q, canon (unit_mul_f64 u q).
Proof. exact unit_mul_f64_canon. Qed.
Theorem C18_infinities_and_nan : forall u,
  unit_mul_f64 u B754_nan = D_ZERO /\ unit_mul_f64 u (B754_infinity false) = D_MAX /\ unit_mul_f64 u (B754_infinity true) = D_MIN.
Proof. exact unit_mul_f64_special. Qed.
Theorem C18_duration_times_float_total_and_canonical : forall d qb, canon (dur_mul_f64 d qb).
Proof. exact dur_mul_f64_canon. Qed.
(* q finite = (+/-) mantissa * 2^exponent exactly; the result is the real product truncated toward zero, clamped *)
Theorem C18_duration_times_float_exact : forall d qb, canon d -> q_finite qb = true -> val d <> 0 ->
  I128_MIN < val d * q_mantissa qb <= I128_MAX ->
  let p := val d * q_mantissa qb in let e := q_exponent qb in
  val (dur_mul_f64 d qb) = clamp (if 0 <=? e then p * 2 ^ e else Z.quot p (2 ^ (- e))).
Proof. exact dur_mul_f64_exact. Qed.
(* the f64 factor table of Unit * f64 is exactly the integer table *)
Theorem C18_unit_factor_tables_agree :
  map (fun b => f_to_int I128_MIN I128_MAX (f_of_bits b)) UNIT_FACTOR_F64_BITS = UNIT_FACTOR_I64 /\
  UNIT_FACTOR_I64 = map spec_unit_factor all_units /\ map unit_factor all_units = UNIT_FACTOR_I64.
Proof. exact unit_factor_tables_agree. Qed.
(* closed facts: every f64 * Unit::Second the leap-second code forms is exact *)
Theorem C18_leap_table_products_exact :
  forallb (fun e => let '(ts, tsbits, dbits, announced) := e in
                    dur_eqb (unit_mul_f64 Second (f_of_bits tsbits)) (unit_mul_i64 Second ts)) LATEST_LEAP_SECONDS = true /\
  forallb (fun e => dur_eqb (unit_mul_f64 Second (f_of_Z (snd e))) (unit_mul_i64 Second (snd e)) &&
                    dur_eqb (unit_mul_f64 Second (fadd (f_of_Z (fst e)) (f_of_Z (snd e - 1)))) (unit_mul_i64 Second (fst e + (snd e - 1)))) BUILTIN_IERS = true.
Proof. exact leap_table_f64_products_exact. Qed.

(* the real product, when it is a whole number of nanoseconds below 2^53, is returned exactly: for every finite float q
   and every unit (Flocq: the binary64 product is exact, neither saturation test fires, the cast returns the integer) *)
Theorem C18_unit_mul_f64_exact_whole : forall u q n,
  is_finite q = true -> (B2R q * IZR (spec_unit_factor u) = IZR n)%R -> Z.abs n < 2 ^ 53 ->
  canon (unit_mul_f64 u q) /\ val (unit_mul_f64 u q) = n.
Proof. exact unit_mul_f64_exact_whole. Qed.
Theorem C18_unit_mul_f64_of_int : forall u k, Z.abs (k * spec_unit_factor u) < 2 ^ 53 ->
  unit_mul_f64 u (f_of_Z k) = unit_mul_i64 u k.
Proof. exact unit_mul_f64_of_int. Qed.

(* general form: whenever the real product is an integer that is itself a double (below 2^126), it is returned, clamped;
   in particular whole days up to 18 600 years (d * 86 400 * 10^9 = d * 1318359375 * 2^16) *)
Theorem C18_unit_mul_f64_exact_repr : forall u q n,
  is_finite q = true -> (B2R q * IZR (spec_unit_factor u) = IZR n)%R ->
  generic_format radix2 (SpecFloat.fexp 53 1024) (IZR n) -> Z.abs n < 2 ^ 126 ->
  canon (unit_mul_f64 u q) /\ val (unit_mul_f64 u q) = clamp n.
Proof. exact unit_mul_f64_exact_repr. Qed.
Theorem C18_unit_mul_f64_whole_days : forall q d, is_finite q = true -> B2R q = IZR d -> Z.abs d <= 6800000 ->
  unit_mul_f64 Day q = unit_mul_i64 Day d.
Proof. exact unit_mul_f64_whole_days. Qed.

(* rounding-error bounds (Flocq): to_seconds within 2^-53 relative of the exact value plus 2^-51 s; to_unit within
   5 * 2^-53 relative of the exact value in that unit plus 2^-49 of one second's worth -- "a few units in the last place
   of the value, or of one second for sub-second values" -- for every canonical duration and every unit *)
Theorem C18_to_seconds_error : forall d, canon d ->
  is_finite (to_seconds d) = true /\
  (Rabs (B2R (to_seconds d) - IZR (val d) / 1000000000) <= bpow radix2 (-53) * Rabs (IZR (val d) / 1000000000) + bpow radix2 (-51))%R.
Proof. exact to_seconds_err. Qed.
Theorem C18_to_unit_error : forall d u, canon d ->
  is_finite (to_unit d u) = true /\
  (Rabs (B2R (to_unit d u) - IZR (val d) / IZR (spec_unit_factor u))
   <= 5 * bpow radix2 (-53) * Rabs (IZR (val d) / IZR (spec_unit_factor u)) + bpow radix2 (-49) / (IZR (spec_unit_factor u) / 1000000000))%R.
Proof. exact to_unit_err. Qed.

(* a longer duration never reads as fewer seconds, nor as fewer of any unit (both results are finite by the two theorems above) *)
Theorem C18_to_seconds_monotone : forall a b, canon a -> canon b -> val a <= val b -> (B2R (to_seconds a) <= B2R (to_seconds b))%R.
Proof. exact to_seconds_monotone. Qed.
Theorem C18_to_unit_monotone : forall a b u, canon a -> canon b -> val a <= val b -> (B2R (to_unit a u) <= B2R (to_unit b u))%R.
Proof. exact to_unit_monotone. Qed.

Example C18_nonvacuous :
  dur_mul_f64 (mkD 0 1000000000) 9223372036854775808 = D_ZERO /\           (* 1 s * -0.0 *)
  dur_mul_f64 (mkD 0 1000000000) 9264247303385390121 = mkD 0 0 /\           (* 1 s * -1e-300: terminates, 0 *)
  dur_mul_f64 (mkD 0 1000000000) 4609434218613702656 = mkD 0 1500000000 /\  (* 1 s * 1.5 *)
  unit_mul_f64 Second (f_of_bits 4609434218613702656) = mkD 0 1500000000.
Proof. repeat split; vm_compute; reflexivity. Qed.
