(* C03 -- Duration ordering and equality agree with the signed value.  Statements only. *)
From Coq Require Import ZArith.
From HF Require Import MachInt GenConsts Duration SignedNs DurationP.
Open Scope Z_scope.

(* cmp is the comparison of the signed counts: hence total, antisymmetric, transitive,
   negative < zero < positive -- all inherited from Z *)
Theorem C03_cmp_is_value_order : forall a b, canon a -> canon b -> dur_cmp a b = (val a ?= val b).
Proof. exact cmp_spec. Qed.
Theorem C03_lt : forall a b, canon a -> canon b -> dur_ltb a b = (val a <? val b).
Proof. exact ltb_spec. Qed.
Theorem C03_gt : forall a b, canon a -> canon b -> dur_gtb a b = (val b <? val a).
Proof. exact gtb_spec. Qed.
Theorem C03_min : forall a b, canon a -> canon b -> canon (dur_min a b) /\ val (dur_min a b) = Z.min (val a) (val b).
Proof. exact min_spec. Qed.
Theorem C03_max : forall a b, canon a -> canon b -> canon (dur_max a b) /\ val (dur_max a b) = Z.max (val a) (val b).
Proof. exact max_spec. Qed.
(* a + b > a exactly when b is positive, away from saturation *)
Theorem C03_add_monotone : forall a b, canon a -> canon b -> MINV <= val a + val b <= MAXV ->
  dur_gtb (dur_add a b) a = (0 <? val b).
Proof.
  intros a b Ha Hb R. destruct (add_spec a b Ha Hb) as [C V].
  rewrite gtb_spec by assumption. rewrite V, clamp_id by exact R.
  destruct (val a <? val a + val b) eqn:E; destruct (0 <? val b) eqn:F; try reflexivity;
    apply Z.ltb_lt in E || apply Z.ltb_ge in E; apply Z.ltb_lt in F || apply Z.ltb_ge in F; exfalso;
    revert E F; generalize (val a) (val b); intros; apply (Z.lt_irrefl 0); auto with zarith.
Qed.
(* == holds exactly for equal counts, or a duration and its exact negation within one century of zero *)
Theorem C03_eq_characterised : forall a b, canon a -> canon b ->
  (dur_eqb a b = true <-> (val a = val b \/ (Z.abs (val a) < SNPC /\ val a = - val b))).
Proof. exact eq_spec. Qed.

Example C03_nonvacuous :
  canon (mkD 1 10) /\ canon (mkD 0 3155759999999999990) /\
  dur_eqb (mkD 1 10) (mkD 0 3155759999999999990) = false /\
  dur_eqb (mkD (-1) 3155759999999999990) (mkD 0 10) = true /\
  dur_cmp (mkD (-1) 3155759999999999999) (mkD 0 0) = Lt.
Proof. repeat split; try (apply canon_canonb; reflexivity); reflexivity. Qed.
