(* Executable model of the float interop of Duration (src/timeunits.rs Mul<f64> for Unit, in_seconds,
   from_seconds; src/duration/mod.rs to_seconds, to_unit; src/duration/ops.rs Mul<f64> for Duration). *)
From Coq Require Import ZArith Bool List.
From HF Require Import MachInt GenConsts GenUnits Duration F64.
Import ListNotations.
Open Scope Z_scope.

Definition unit_index (u : unit_t) : nat :=
  match u with Nanosecond => 0 | Microsecond => 1 | Millisecond => 2 | Second => 3 | Minute => 4
             | Hour => 5 | Day => 6 | Week => 7 | Century => 8 end%nat.
Definition unit_factor_f64 (u : unit_t) : f64 := f_of_bits (nth (unit_index u) UNIT_FACTOR_F64_BITS 0).
Definition unit_in_seconds (u : unit_t) : f64 := f_of_bits (nth (unit_index u) UNIT_IN_SECONDS_BITS 0).
Definition unit_from_seconds (u : unit_t) : f64 := fdiv (f_of_bits F64_ONE_BITS) (unit_in_seconds u).

(* impl Mul<f64> for Unit (timeunits.rs:294) *)
Definition unit_mul_f64 (u : unit_t) (q : f64) : duration :=
  let factor := unit_factor_f64 u in
  let fmax := f_of_bits F64_MAX_BITS in
  if fge q (fdiv fmax factor) then D_MAX
  else if fle q (fdiv (fneg fmax) factor) then D_MIN
  else
    let total_ns := fmul q factor in
    if flt (fabs total_ns) (f_of_bits I64_MAX_AS_F64_BITS)
    then from_truncated_nanoseconds (f_to_int I64_MIN I64_MAX total_ns)
    else from_total_nanoseconds (f_to_int I128_MIN I128_MAX total_ns).

(* Duration::to_seconds (mod.rs:430) *)
Definition to_seconds (d : duration) : f64 :=
  let seconds := div_euclid (nanoseconds d) NANOSECONDS_PER_SECOND in
  let subseconds := rem_euclid (nanoseconds d) NANOSECONDS_PER_SECOND in
  let sub := fmul (f_of_Z subseconds) (f_of_bits TO_SECONDS_SUBSEC_SCALE_BITS) in
  if centuries d =? 0 then fadd (f_of_Z seconds) sub
  else fadd (fadd (fmul (f_of_Z (centuries d)) (f_of_bits SECONDS_PER_CENTURY_bits)) (f_of_Z seconds)) sub.
Definition to_unit (d : duration) (u : unit_t) : f64 := fmul (to_seconds d) (unit_from_seconds u).

(* impl Mul<f64> for Duration (ops.rs): exact integer arithmetic on the bit pattern of q *)
Definition dur_mul_f64 (d : duration) (qbits : Z) : duration :=
  let total := total_nanoseconds d in
  let biased := (qbits / 2 ^ 52) mod 2 ^ 11 in
  let fraction := qbits mod 2 ^ 52 in
  let negative := negb (qbits / 2 ^ 63 =? 0) in
  let is_nan := (biased =? 2047) && negb (fraction =? 0) in
  let is_inf := (biased =? 2047) && (fraction =? 0) in
  if is_nan || (total =? 0) then D_ZERO
  else if is_inf then (if Bool.eqb (0 <? total) (negb negative) then D_MAX else D_MIN)
  else
    let mantissa := if biased =? 0 then fraction else fraction + 2 ^ 52 in
    let exponent := if biased =? 0 then -1074 else biased - 1075 in
    let signed_mantissa := if negative then - mantissa else mantissa in
    let scaled := saturate I128_MIN I128_MAX (total * signed_mantissa) in
    let product :=
      if 0 <=? exponent then
        (if 127 <=? exponent then (if 0 <? scaled then I128_MAX else if scaled <? 0 then I128_MIN else 0)
         else saturate I128_MIN I128_MAX (scaled * 2 ^ exponent))
      else if exponent <=? -127 then 0
      else tdiv scaled (2 ^ (- exponent)) in
    from_total_nanoseconds product.
