(* Executable model of the JD / MJD / UNIX views (src/epoch/mod.rs accessors, src/epoch/initializers.rs)
   for the seven integer scales.  The f64 constants MJD_J1900, MJD_OFFSET and their sum go through
   Unit * f64 exactly as in the code. *)
From Coq Require Import ZArith Bool List.
From HF Require Import MachInt GenConsts GenUnits Duration Epoch Gregorian F64 DurationF64.
Open Scope Z_scope.

Definition mjd_j1900 : f64 := f_of_bits MJD_J1900_bits.
Definition mjd_offset : f64 := f_of_bits MJD_OFFSET_bits.
Definition day_mjd_j1900 : duration := unit_mul_f64 Day mjd_j1900.                       (* Unit::Day * MJD_J1900 *)
Definition day_mjd_offset : duration := unit_mul_f64 Day mjd_offset.                     (* Unit::Day * MJD_OFFSET *)
Definition day_jd_j1900 : duration := unit_mul_f64 Day (fadd mjd_j1900 mjd_offset).      (* Unit::Day * (MJD_J1900 + MJD_OFFSET) *)
Definition sec_et_epoch : duration := unit_mul_i64 Second ET_EPOCH_S.                    (* Unit::Second * ET_EPOCH_S *)

Definition omap {A B} (f : A -> B) (o : option A) : option B := option_map f o.
Definition to_utc_duration (e : epoch) := to_duration_in_time_scale e UTC.
Definition to_tt_duration (e : epoch) := to_duration_in_time_scale e TT.

Definition to_mjd_tai_duration (e : epoch) := omap (fun d => dur_add d day_mjd_j1900) (to_tai_duration e).
Definition to_mjd_utc_duration (e : epoch) := omap (fun d => dur_add d day_mjd_j1900) (to_utc_duration e).
Definition to_mjd_tt_duration (e : epoch) := omap (fun d => dur_add d day_mjd_j1900) (to_tt_duration e).
Definition to_jde_tai_duration (e : epoch) := omap (fun d => dur_add (dur_add d day_mjd_j1900) day_mjd_offset) (to_tai_duration e).
Definition to_jde_utc_duration (e : epoch) := omap (fun d => dur_add d day_jd_j1900) (to_utc_duration e).
Definition to_jde_tt_duration (e : epoch) := omap (fun d => dur_add d day_jd_j1900) (to_tt_duration e).
Definition to_tt_since_j2k (e : epoch) := omap (fun d => dur_sub d sec_et_epoch) (to_tt_duration e).
Definition unix_ref_utc : option duration := to_utc_duration (mkE unix_ref_tai TAI).
Definition to_unix_duration (e : epoch) : option duration :=
  match to_utc_duration e, unix_ref_utc with Some d, Some r => Some (dur_sub d r) | _, _ => None end.

(* float-valued views: the duration view, then to_unit *)
Definition to_mjd_tai (e : epoch) (u : unit_t) := omap (fun d => to_unit d u) (to_mjd_tai_duration e).
Definition to_mjd_utc (e : epoch) (u : unit_t) := omap (fun d => to_unit d u) (to_mjd_utc_duration e).
Definition to_jde_tai (e : epoch) (u : unit_t) := omap (fun d => to_unit d u) (to_jde_tai_duration e).
Definition to_jde_utc_days (e : epoch) := omap (fun d => to_unit d Day) (to_jde_utc_duration e).
Definition to_unix (e : epoch) (u : unit_t) := omap (fun d => to_unit d u) (to_unix_duration e).
Definition to_tt_centuries_j2k (e : epoch) := omap (fun d => to_unit d Century) (to_tt_since_j2k e).

(* constructors *)
(* the day count is read on the calendar of scale t: its calendar offset (TimeScale::gregorian_epoch_offset) is subtracted *)
Definition from_mjd_in_time_scale (days : f64) (t : timescale) : epoch :=
  mkE (dur_sub (unit_mul_f64 Day (fsub days mjd_j1900)) (gregorian_epoch_offset t)) t.
Definition from_jde_in_time_scale (days : f64) (t : timescale) : epoch :=
  mkE (dur_sub (unit_mul_f64 Day (fsub (fsub days mjd_j1900) mjd_offset)) (gregorian_epoch_offset t)) t.
Definition from_unix_duration (d : duration) : option epoch := omap (fun r => mkE (dur_add r d) UTC) unix_ref_utc.
Definition from_unix_seconds (s : f64) : option epoch := omap (fun r => mkE (dur_add r (unit_mul_f64 Second s)) UTC) unix_ref_utc.
Definition from_unix_milliseconds (s : f64) : option epoch := omap (fun r => mkE (dur_add r (unit_mul_f64 Millisecond s)) UTC) unix_ref_utc.

(* impl Add<f64> for Epoch (ops.rs): seconds * Unit::Second added in the epoch's own scale *)
Definition epoch_add_f64 (e : epoch) (x : f64) : epoch := mkE (dur_add (dur e) (unit_mul_f64 Second x)) (scale e).

(* Epoch::day_of_year (float, 1-based), year_days_of_year, Epoch::from_day_of_year (initializers.rs) *)
Definition day_of_year (e : epoch) : option f64 :=
  omap (fun d => fadd (to_unit d Day) (f_of_Z 1)) (duration_in_year_fast e).
Definition from_day_of_year (year : Z) (days : f64) (t : timescale) : option epoch :=
  match maybe_from_gregorian_fast year 1 1 0 0 0 0 t with
  | inl s => Some (epoch_add s (unit_mul_f64 Day (fsub days (f_of_Z 1))))
  | inr _ => None          (* from_gregorian panics on an invalid date *)
  end.
