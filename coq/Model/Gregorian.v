(* Executable model of src/epoch/gregorian.rs: validity, Gregorian -> Epoch (year loops, month
   prefix sums), Epoch -> Gregorian fields (era / year-of-era split), and the calendar-based
   accessors of src/epoch/mod.rs and ops.rs (year, duration_in_year, weekday, next/previous).
   No proofs in this file. *)
From Coq Require Import ZArith Bool List.
From HF Require Import MachInt GenConsts GenCalendar GenLeap Duration Epoch.
Import ListNotations.
Open Scope Z_scope.

(* const fn is_leap_year *)
Definition is_leap_year (y : Z) : bool :=
  ((trem y LEAP_MOD_A =? 0) && negb (trem y LEAP_MOD_B =? 0)) || (trem y LEAP_MOD_C =? 0).
(* const fn usual_days_per_month *)
Definition usual_days_per_month (m : Z) : Z :=
  match find (fun e => fst e =? m) USUAL_DAYS_PER_MONTH with Some e => snd e | None => USUAL_DAYS_DEFAULT end.
Definition january_years (y : Z) : bool := existsb (Z.eqb y) JANUARY_YEARS.
Definition july_years (y : Z) : bool := existsb (Z.eqb y) JULY_YEARS.

(* CUMULATIVE_DAYS_FOR_MONTH[_LEAP_YEARS]: the const blocks' while loops, index 0..11 *)
Fixpoint cumul_upto (leap : bool) (k : nat) : Z :=   (* days[k] *)
  match k with
  | O => 0
  | S k' => cumul_upto leap k' + usual_days_per_month (Z.of_nat k) + (if leap && (Z.of_nat k =? 2) then 1 else 0)
  end.
Definition cumulative_days (leap : bool) (month0 : Z) : Z := cumul_upto leap (Z.to_nat month0).

(* pub const fn is_gregorian_valid *)
Definition is_gregorian_valid (year month day hour minute second nanos : Z) : bool :=
  let max_seconds :=
    if ((month =? 12) || (month =? 6)) && (day =? usual_days_per_month month) && (hour =? 23) && (minute =? 59)
       && (((month =? 6) && july_years year) || ((month =? 12) && january_years (wrap_signed 32 (year + 1))))
    then 60 else 59 in
  if (month =? 0) || (12 <? month) || (day =? 0) || (31 <? day) || (24 <? hour) || (59 <? minute)
     || (max_seconds <? second) || (NANOSECONDS_PER_SECOND_U32 <? nanos) then false
  else if (usual_days_per_month month <? day) && (negb (month =? 2) || negb (is_leap_year year)) then false
  else true.

(* TimeScale::gregorian_epoch_offset: prime offset minus its whole-seconds subdivision *)
Definition gregorian_epoch_offset (t : timescale) : duration :=
  let p := prime_epoch_offset t in
  match subdivision p Second with
  | Some s => dur_sub p s
  | None => p           (* unreachable: subdivision(Second) is Some *)
  end.

(* leap-day loops of maybe_from_gregorian: one Unit::Day per leap year in [a, a+n) *)
Fixpoint add_leap_days (a : Z) (n : nat) (d : duration) : duration :=
  match n with
  | O => d
  | S n' => add_leap_days (a + 1) n' (if is_leap_year a then dur_add_unit d Day else d)
  end.
Fixpoint sub_leap_days (a : Z) (n : nat) (d : duration) : duration :=
  match n with
  | O => d
  | S n' => sub_leap_days (a + 1) n' (if is_leap_year a then dur_sub_unit d Day else d)
  end.

Inductive greg_err := InvalidGregorianDate | DurUnderflow | DurOverflow.

(* Epoch::maybe_from_gregorian *)
Definition maybe_from_gregorian (year month day hour minute second nanos : Z) (t : timescale) : epoch + greg_err :=
  if negb (is_gregorian_valid year month day hour minute second nanos) then inr InvalidGregorianDate
  else match checked I32_MIN I32_MAX (year - HIFITIME_REF_YEAR) with
  | None => inr DurUnderflow
  | Some years_since_ref =>
    match checked I32_MIN I32_MAX (years_since_ref * 365) with
    | None => inr DurOverflow
    | Some days =>
      let d0 := unit_mul_i64 Day days in
      let d1 := if HIFITIME_REF_YEAR <=? year
                then add_leap_days HIFITIME_REF_YEAR (Z.to_nat (year - HIFITIME_REF_YEAR)) d0
                else sub_leap_days year (Z.to_nat (HIFITIME_REF_YEAR - year)) d0 in
      let d2 := dur_add d1 (unit_mul_i64 Day (cumulative_days (is_leap_year year) (month - 1))) in
      let d3 := dur_add d2
                  (dur_add (dur_add (dur_add (dur_add (unit_mul_i64 Day (day - 1)) (unit_mul_i64 Hour hour))
                                              (unit_mul_i64 Minute minute)) (unit_mul_i64 Second second))
                           (unit_mul_i64 Nanosecond nanos)) in
      let d4 := if second =? 60 then dur_sub_unit d3 Second else d3 in
      let d5 := dur_sub d4 (gregorian_epoch_offset t) in
      inl (mkE d5 t)
    end
  end.

(* Fast path used by the extracted executable: the two leap-day loops replaced by the leap-year count
   in closed form.  Proofs/GregorianP.v (maybe_from_gregorian_fast_eq) proves it equal to
   maybe_from_gregorian; outside the range covered by that proof it falls back to the loops. *)
Definition leap_count (y : Z) : Z := (y - 1) / 4 - (y - 1) / 100 + (y - 1) / 400.
Definition code_days (y m d : Z) : Z :=
  365 * (y - HIFITIME_REF_YEAR) + (leap_count y - leap_count HIFITIME_REF_YEAR)
  + cumulative_days (is_leap_year y) (m - 1) + (d - 1).
Definition maybe_from_gregorian_fast (year month day hour minute second nanos : Z) (t : timescale) : epoch + greg_err :=
  if negb (is_gregorian_valid year month day hour minute second nanos) then inr InvalidGregorianDate
  else if Z.abs (year - HIFITIME_REF_YEAR) <=? 3000000 then
    let total := ((code_days year month day * 24 + hour) * 60 + minute) * 60 * NANOSECONDS_PER_SECOND
                 + second * NANOSECONDS_PER_SECOND + nanos - (if second =? 60 then NANOSECONDS_PER_SECOND else 0)
                 - total_nanoseconds (gregorian_epoch_offset t) in
    inl (mkE (from_total_nanoseconds total) t)
  else maybe_from_gregorian year month day hour minute second nanos t.

(* Epoch::compute_gregorian *)
Definition compute_gregorian (d : duration) (t : timescale) : Z * Z * Z * Z * Z * Z * Z :=
  let wrt := dur_add d (gregorian_epoch_offset t) in
  let total := total_nanoseconds wrt in
  let days := div_euclid total NANOSECONDS_PER_DAY in
  let ns_of_day := wrap_unsigned 64 (rem_euclid total NANOSECONDS_PER_DAY) in
  let z := days + DAYS_FROM_0000_03_01_TO_REF in
  let era := div_euclid z DAYS_PER_ERA in
  let doe := rem_euclid z DAYS_PER_ERA in
  let yoe := tdiv (doe - tdiv doe CG_YOE_A + tdiv doe CG_YOE_B - tdiv doe CG_YOE_C) CG_YOE_DIV in
  let doy := doe - (CG_DOY_Y * yoe + tdiv yoe CG_DOY_4 - tdiv yoe CG_DOY_100) in
  let mp := tdiv (CG_MP_MUL * doy + CG_MP_ADD) CG_MP_DIV in
  let day := doy - tdiv (CG_D_MUL * mp + CG_D_ADD) CG_D_DIV + 1 in
  let month := if mp <? CG_M_LT then mp + CG_M_PLUS else mp - CG_M_MINUS in
  let year := yoe + era * CG_ERA_YEARS + (if month <=? CG_M_LE then 1 else 0) in
  let hours := tdiv ns_of_day NANOSECONDS_PER_HOUR in
  let minutes := tdiv (trem ns_of_day NANOSECONDS_PER_HOUR) NANOSECONDS_PER_MINUTE in
  let seconds := tdiv (trem ns_of_day NANOSECONDS_PER_MINUTE) NANOSECONDS_PER_SECOND in
  let nanos := trem ns_of_day NANOSECONDS_PER_SECOND in
  (wrap_signed 32 year, wrap_unsigned 8 month, wrap_unsigned 8 day, wrap_unsigned 8 hours,
   wrap_unsigned 8 minutes, wrap_unsigned 8 seconds, wrap_unsigned 32 nanos).

Definition greg_year (e : epoch) : Z := let '(y, _, _, _, _, _, _) := compute_gregorian (dur e) (scale e) in y.
Definition greg_month (e : epoch) : Z := let '(_, m, _, _, _, _, _) := compute_gregorian (dur e) (scale e) in m.

(* Epoch::duration_in_year: self.duration - from_gregorian(year, 1, 1, 0,0,0,0, ts).duration; from_gregorian panics on Err *)
Definition duration_in_year (e : epoch) : option duration :=
  match maybe_from_gregorian (greg_year e) 1 1 0 0 0 0 (scale e) with
  | inl s => Some (dur_sub (dur e) (dur s))
  | inr _ => None
  end.
Definition duration_in_year_fast (e : epoch) : option duration :=
  match maybe_from_gregorian_fast (greg_year e) 1 1 0 0 0 0 (scale e) with
  | inl s => Some (dur_sub (dur e) (dur s))
  | inr _ => None
  end.
(* formatter's integer day of year *)
Definition day_of_year_integer (e : epoch) : option Z :=
  option_map (fun d => tdiv (total_nanoseconds d) NANOSECONDS_PER_DAY + 1) (duration_in_year e).
Definition day_of_year_integer_fast (e : epoch) : option Z :=
  option_map (fun d => tdiv (total_nanoseconds d) NANOSECONDS_PER_DAY + 1) (duration_in_year_fast e).

(* ---- weekday (ops.rs) ---- *)
(* Weekday as 0 = Monday .. 6 = Sunday; From<u8>: rem_euclid 7 *)
Definition weekday_from_u8 (u : Z) : Z := rem_euclid u WEEKDAY_MAX.
Definition weekday_in_time_scale (e : epoch) (t : timescale) : option Z :=
  option_map (fun d => weekday_from_u8 (wrap_unsigned 8 (rem_euclid (div_euclid (total_nanoseconds d) NANOSECONDS_PER_DAY) WEEKDAY_DAYS_PER_WEEK_I128)))
             (to_duration_in_time_scale e t).
Definition weekday (e : epoch) := weekday_in_time_scale e TAI.
Definition weekday_utc (e : epoch) := weekday_in_time_scale e UTC.

(* impl Sub for Weekday -> Duration: forward distance in days *)
Definition weekday_sub (a b : Z) : duration :=
  let rhs := if b - a <? 0 then b + 7 else b in unit_mul_i64 Day (rhs - a).
(* Epoch::next / previous *)
Definition epoch_next (e : epoch) (w : Z) : option epoch :=
  option_map (fun wd => let delta := weekday_sub wd w in
                        if dur_eqb delta D_ZERO then epoch_add e (unit_mul_i64 Day 7) else epoch_add e delta) (weekday e).
Definition epoch_previous (e : epoch) (w : Z) : option epoch :=
  option_map (fun wd => let delta := weekday_sub w wd in
                        if dur_eqb delta D_ZERO then epoch_sub e (unit_mul_i64 Day 7) else epoch_sub e delta) (weekday e).

(* Weekday arithmetic (weekday.rs); u8 arithmetic is checked in debug, so each op returns None on overflow *)
Definition weekday_from_i8 (i : Z) : Z := weekday_from_u8 (wrap_unsigned 8 (rem_euclid i 7 + 7)).
Definition weekday_add (a b : Z) : option Z := option_map weekday_from_u8 (checked 0 U8_MAX (a + b)).
Definition weekday_add_u8 (a : Z) (rhs : Z) : option Z :=
  option_map weekday_from_u8 (checked 0 U8_MAX (a + trem rhs WEEKDAY_MAX)).
Definition weekday_sub_u8 (a : Z) (rhs : Z) : option Z :=
  match checked 0 U8_MAX (a + WEEKDAY_MAX) with
  | None => None
  | Some s => option_map weekday_from_u8 (checked 0 U8_MAX (s - trem rhs WEEKDAY_MAX))
  end.
Definition to_c89_weekday (a : Z) : option Z := weekday_add_u8 a 1.

(* with_hms_strict (with_funcs.rs): keep sign and whole days of the duration, replace the time of day *)
Definition with_hms_strict (e : epoch) (h m s : Z) : epoch :=
  let '(sign, (days, _, _, _, _, _, _)) := decompose (dur e) in mkE (compose sign days h m s 0 0 0) (scale e).
Definition next_weekday_at (e : epoch) (w h : Z) : option epoch := option_map (fun x => with_hms_strict x h 0 0) (epoch_next e w).
Definition previous_weekday_at (e : epoch) (w h : Z) : option epoch := option_map (fun x => with_hms_strict x h 0 0) (epoch_previous e w).
(* year(), month_name() as an index 0..11 (MonthName::from(u8): anything outside 1..12 is January), and the
   hours() .. nanoseconds() accessors, which expose the decomposition of the duration *)
Definition epoch_accessors (e : epoch) : list Z :=
  let '(y, mm, _, _, _, _, _) := compute_gregorian (dur e) (scale e) in
  let '(_, (_, h, mi, s, ms, us, ns)) := decompose (dur e) in
  [y; (if (1 <=? mm) && (mm <=? 12) then mm - 1 else 0); h; mi; s; ms; us; ns].
