(* Executable model of hifitime's Duration core (src/duration/mod.rs, ops.rs, timeunits.rs),
   transcribed function by function from the Rust as it stands.  Integers are Z; every place
   where Rust uses checked_/saturating_/as/div_euclid is written with the MachInt vocabulary.
   No proofs in this file. *)
From Coq Require Import ZArith Bool List.
From HF Require Import MachInt GenConsts.
Import ListNotations.
Open Scope Z_scope.

Record duration := mkD { centuries : Z; nanoseconds : Z }.

Definition NPC : Z := NANOSECONDS_PER_CENTURY.
Definition D_ZERO := mkD (fst DURATION_ZERO) (snd DURATION_ZERO).
Definition D_MAX := mkD (fst DURATION_MAX) (snd DURATION_MAX).
Definition D_MIN := mkD (fst DURATION_MIN) (snd DURATION_MIN).

(* impl PartialEq for Duration (mod.rs:79) *)
Definition dur_eqb (a b : duration) : bool :=
  if centuries a =? centuries b then nanoseconds a =? nanoseconds b
  else if ((centuries a =? -1) && (centuries b =? 0)) || ((centuries a =? 0) && (centuries b =? -1)) then
    if centuries a <? 0 then (NPC - nanoseconds a) =? nanoseconds b
    else (NPC - nanoseconds b) =? nanoseconds a
  else false.

(* #[derive(PartialOrd, Ord)]: lexicographic on (centuries, nanoseconds) *)
Definition dur_cmp (a b : duration) : comparison :=
  match centuries a ?= centuries b with
  | Eq => nanoseconds a ?= nanoseconds b
  | c => c
  end.
Definition dur_ltb a b := match dur_cmp a b with Lt => true | _ => false end.
Definition dur_gtb a b := match dur_cmp a b with Gt => true | _ => false end.
Definition dur_leb a b := negb (dur_gtb a b).
Definition dur_geb a b := negb (dur_ltb a b).
Definition dur_min a b := if dur_ltb a b then a else b.
Definition dur_max a b := if dur_gtb a b then a else b.

(* fn normalize (mod.rs:323) *)
Definition normalize (d : duration) : duration :=
  let extra := div_euclid (nanoseconds d) NPC in
  if 0 <? extra then
    let rem := rem_euclid (nanoseconds d) NPC in
    if centuries d =? I16_MAX then
      if nanoseconds D_MAX <? saturate 0 U64_MAX (nanoseconds d + rem) then D_MAX else d
    else if negb (dur_eqb d D_MAX) && negb (dur_eqb d D_MIN) then
      match checked I16_MIN I16_MAX (centuries d + wrap_signed 16 extra) with
      | Some c => mkD c rem
      | None => if 0 <=? centuries d then D_MAX else D_MIN
      end
    else d
  else d.

Definition from_parts (c n : Z) : duration := normalize (mkD c n).

(* fn from_total_nanoseconds (mod.rs:185) *)
Definition from_total_nanoseconds (nanos : Z) : duration :=
  if nanos =? 0 then D_ZERO
  else
    let c := div_euclid nanos NPC in
    let r := rem_euclid nanos NPC in
    if I16_MAX <? c then D_MAX
    else if c <? I16_MIN then D_MIN
    else from_parts (wrap_signed 16 c) (wrap_unsigned 64 r).

(* fn total_nanoseconds (mod.rs:365) *)
Definition total_nanoseconds (d : duration) : Z :=
  if centuries d =? -1 then - (NPC - nanoseconds d)
  else if 0 <=? centuries d then centuries d * NPC + nanoseconds d
  else centuries d * NPC + nanoseconds d.

(* fn from_truncated_nanoseconds (mod.rs:207) *)
Definition from_truncated_nanoseconds (nanos : Z) : duration :=
  if nanos <? 0 then
    let ns := Z.abs nanos in
    let extra := div_euclid ns NPC in
    let rem := rem_euclid ns NPC in
    from_parts (-1 - wrap_signed 16 extra) (NPC - rem)
  else from_parts 0 (Z.abs nanos).

(* fn try_truncated_nanoseconds (mod.rs:379): None = Err(Duration{..}) *)
Definition try_truncated_nanoseconds (d : duration) : option Z :=
  if (centuries d =? I16_MIN) || (3 <=? Z.abs (centuries d)) then None
  else if centuries d =? -1 then Some (- wrap_signed 64 (NPC - nanoseconds d))
  else if 0 <=? centuries d then
    match checked I64_MIN I64_MAX (centuries d * wrap_signed 64 NPC) with
    | Some cns => checked I64_MIN I64_MAX (cns + wrap_signed 64 (nanoseconds d))
    | None => None
    end
  else Some (centuries d * wrap_signed 64 NPC + wrap_signed 64 (nanoseconds d)).

Definition truncated_nanoseconds (d : duration) : Z :=
  match try_truncated_nanoseconds d with
  | Some v => v
  | None => if centuries d <? 0 then I64_MIN else I64_MAX
  end.

(* impl Add / Sub / Neg for Duration (ops.rs) *)
Definition dur_add (a b : duration) : duration :=
  from_total_nanoseconds (total_nanoseconds a + total_nanoseconds b).
Definition dur_sub (a b : duration) : duration :=
  from_total_nanoseconds (total_nanoseconds a - total_nanoseconds b).
Definition dur_neg (a : duration) : duration :=
  from_total_nanoseconds (- total_nanoseconds a).

(* fn abs, signum, is_negative *)
Definition dur_abs (a : duration) : duration := if centuries a <? 0 then dur_neg a else a.
Definition signum (a : duration) : Z := Z.sgn (centuries a).
Definition is_negative (a : duration) : bool := centuries a <? 0.

(* Unit: numbering = declaration order of `enum Unit` *)
Inductive unit_t := Nanosecond | Microsecond | Millisecond | Second | Minute | Hour | Day | Week | Century.
Definition all_units := [Nanosecond; Microsecond; Millisecond; Second; Minute; Hour; Day; Week; Century].
Definition unit_of_Z (z : Z) : unit_t :=
  match z with 0 => Nanosecond | 1 => Microsecond | 2 => Millisecond | 3 => Second | 4 => Minute
             | 5 => Hour | 6 => Day | 7 => Week | _ => Century end.

(* factor table of impl Mul<i64> for Unit (timeunits.rs:248) *)
Definition unit_factor (u : unit_t) : Z :=
  match u with
  | Century => NANOSECONDS_PER_CENTURY
  | Week => NANOSECONDS_PER_DAY * DAYS_PER_WEEK_I64
  | Day => NANOSECONDS_PER_DAY
  | Hour => NANOSECONDS_PER_HOUR
  | Minute => NANOSECONDS_PER_MINUTE
  | Second => NANOSECONDS_PER_SECOND
  | Millisecond => NANOSECONDS_PER_MILLISECOND
  | Microsecond => NANOSECONDS_PER_MICROSECOND
  | Nanosecond => 1
  end.

(* impl Mul<i64> for Unit (timeunits.rs:242) *)
Definition unit_mul_i64 (u : unit_t) (q : Z) : duration :=
  let factor := unit_factor u in
  match checked I64_MIN I64_MAX (q * factor) with
  | Some total_ns =>
      if Z.abs total_ns <? Z.abs I64_MAX then from_truncated_nanoseconds total_ns
      else from_total_nanoseconds total_ns
  | None =>
      match checked I128_MIN I128_MAX (q * factor) with
      | Some total_ns => from_total_nanoseconds total_ns
      | None => if q <? 0 then D_MIN else D_MAX
      end
  end.

(* impl Mul<i64> for Duration, Div<i64> for Duration (ops.rs) *)
Definition dur_mul_i64 (a : duration) (q : Z) : duration :=
  from_total_nanoseconds
    (saturate I128_MIN I128_MAX (total_nanoseconds a * total_nanoseconds (unit_mul_i64 Nanosecond q))).
(* saturating_div: truncating division; the only overflow is MIN / -1; q = 0 panics (excluded by callers) *)
Definition dur_div_i64 (a : duration) (q : Z) : duration :=
  from_total_nanoseconds
    (saturate I128_MIN I128_MAX (tdiv (total_nanoseconds a) (total_nanoseconds (unit_mul_i64 Nanosecond q)))).

(* Duration +/- Unit: self + rhs * 1 *)
Definition dur_add_unit (a : duration) (u : unit_t) := dur_add a (unit_mul_i64 u 1).
Definition dur_sub_unit (a : duration) (u : unit_t) := dur_sub a (unit_mul_i64 u 1).

(* fn decompose (mod.rs) *)
Definition decompose (d : duration) : Z * (Z * Z * Z * Z * Z * Z * Z) :=
  let sign := signum d in
  let rem0 := Z.abs (total_nanoseconds d) in
  let days := tdiv rem0 NANOSECONDS_PER_DAY in
  let rem1 := trem rem0 NANOSECONDS_PER_DAY in
  let hours := tdiv rem1 NANOSECONDS_PER_HOUR in
  let rem2 := trem rem1 NANOSECONDS_PER_HOUR in
  let minutes := tdiv rem2 NANOSECONDS_PER_MINUTE in
  let rem3 := trem rem2 NANOSECONDS_PER_MINUTE in
  let seconds := tdiv rem3 NANOSECONDS_PER_SECOND in
  let rem4 := trem rem3 NANOSECONDS_PER_SECOND in
  let millis := tdiv rem4 NANOSECONDS_PER_MILLISECOND in
  let rem5 := trem rem4 NANOSECONDS_PER_MILLISECOND in
  let micros := tdiv rem5 NANOSECONDS_PER_MICROSECOND in
  let nanos := trem rem5 NANOSECONDS_PER_MICROSECOND in
  (sign, (wrap_unsigned 64 days, wrap_unsigned 64 hours, wrap_unsigned 64 minutes,
          wrap_unsigned 64 seconds, wrap_unsigned 64 millis, wrap_unsigned 64 micros, wrap_unsigned 64 nanos)).

(* fn subdivision: None for Week | Century *)
Definition subdivision (d : duration) (u : unit_t) : option duration :=
  let '(_, (days, hours, minutes, seconds, millis, micros, nanos)) := decompose d in
  match u with
  | Nanosecond => Some (unit_mul_i64 u (wrap_signed 64 nanos))
  | Microsecond => Some (unit_mul_i64 u (wrap_signed 64 micros))
  | Millisecond => Some (unit_mul_i64 u (wrap_signed 64 millis))
  | Second => Some (unit_mul_i64 u (wrap_signed 64 seconds))
  | Minute => Some (unit_mul_i64 u (wrap_signed 64 minutes))
  | Hour => Some (unit_mul_i64 u (wrap_signed 64 hours))
  | Day => Some (unit_mul_i64 u (wrap_signed 64 days))
  | Week | Century => None
  end.

(* fn floor / ceil / round (mod.rs) *)
Definition dur_floor (d step : duration) : duration :=
  let s := Z.abs (total_nanoseconds step) in
  if s =? 0 then D_ZERO
  else
    let floored := total_nanoseconds d - rem_euclid (total_nanoseconds d) s in
    if floored - s <=? total_nanoseconds D_MIN then D_MIN
    else from_total_nanoseconds floored.

Definition dur_ceil (d step : duration) : duration :=
  let floored := dur_floor d step in
  match checked I128_MIN I128_MAX (total_nanoseconds floored + total_nanoseconds (dur_abs step)) with
  | Some t => from_total_nanoseconds t
  | None => D_MAX
  end.

Definition dur_round (d step : duration) : duration :=
  let floored := dur_floor d step in
  let ceiled := dur_ceil d step in
  if dur_ltb (dur_sub d floored) (dur_abs (dur_sub ceiled d)) then floored else ceiled.

(* fn approx *)
Definition dur_approx (d : duration) : duration :=
  let '(_, (days, hours, minutes, seconds, millis, micros, _)) := decompose d in
  let round_to :=
    if 0 <? days then unit_mul_i64 Day 1
    else if 0 <? hours then unit_mul_i64 Hour 1
    else if 0 <? minutes then unit_mul_i64 Minute 1
    else if 0 <? seconds then unit_mul_i64 Second 1
    else if 0 <? millis then unit_mul_i64 Millisecond 1
    else if 0 <? micros then unit_mul_i64 Microsecond 1
    else unit_mul_i64 Nanosecond 1 in
  dur_round d round_to.

(* PartialEq<Unit>, PartialOrd<Unit> *)
Definition dur_eq_unit (d : duration) (u : unit_t) : bool := dur_eqb d (unit_mul_i64 u 1).
Definition dur_cmp_unit (d : duration) (u : unit_t) : comparison :=
  let ud := unit_mul_i64 u 1 in
  if dur_ltb d ud then Lt else if dur_gtb d ud then Gt else Eq.

(* from_tz_offset *)
Definition from_tz_offset (sign hours minutes : Z) : duration :=
  let dur := dur_add (unit_mul_i64 Hour hours) (unit_mul_i64 Minute minutes) in
  if sign <? 0 then dur_neg dur else dur.

(* Duration::compose (mod.rs): integer sum of the u64 fields in i128 *)
Definition compose_total (days hours minutes seconds ms us ns : Z) : Z :=
  days * NANOSECONDS_PER_DAY + hours * NANOSECONDS_PER_HOUR + minutes * NANOSECONDS_PER_MINUTE
  + seconds * NANOSECONDS_PER_SECOND + ms * NANOSECONDS_PER_MILLISECOND + us * NANOSECONDS_PER_MICROSECOND + ns.
Definition compose (sign days hours minutes seconds ms us ns : Z) : duration :=
  let total := compose_total days hours minutes seconds ms us ns in
  if sign <? 0 then from_total_nanoseconds (- total) else from_total_nanoseconds total.

(* src/duration/std.rs: From<Duration> for std::time::Duration as (secs, subsec_nanos); From<std::time::Duration> *)
Definition to_std (d : duration) : Z * Z :=
  if signum d =? -1 then (0, 0)
  else
    let nanos := total_nanoseconds d in
    let unsigned := if 0 <=? nanos then nanos else 0 in                     (* u128::try_from(..).unwrap_or(0) *)
    let secs := tdiv unsigned NANOSECONDS_PER_SECOND in
    ((if secs <=? U64_MAX then secs else U64_MAX), trem unsigned NANOSECONDS_PER_SECOND).
Definition from_std (secs subsec_nanos : Z) : duration :=
  let n := secs * 1000000000 + subsec_nanos in                              (* as_nanos(): u128 *)
  from_total_nanoseconds (if n <=? I128_MAX then n else I128_MAX).
