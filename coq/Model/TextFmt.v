(* Executable model of the text renderings: Display for Duration (src/duration/mod.rs), Display and friends for
   Epoch (src/epoch/formatting.rs, to_gregorian_str, to_rfc3339), TimeScale/Weekday/MonthName names, and the
   strftime-like Format / Formatter (src/efmt/format.rs FromStr, src/efmt/formatter.rs). *)
From Coq Require Import ZArith Bool List.
From HF Require Import MachInt GenConsts GenText Text Duration Epoch Gregorian.
Import ListNotations.
Open Scope Z_scope.

Definition ts_name (t : timescale) : str := nth_str (ts_id t) TS_DISPLAY.
Definition weekday_long (w : Z) : str := nth_str w WEEKDAY_LONG.
Definition weekday_short (w : Z) : str := nth_str w WEEKDAY_SHORT.
(* MonthName::from(u8) then Display / LowerHex: anything outside 1..12 is January *)
Definition month_index (m : Z) : Z := if (1 <=? m) && (m <=? 12) then m - 1 else 0.
Definition month_long (m : Z) : str := nth_str (month_index m) MONTH_LONG.
Definition month_short (m : Z) : str := nth_str (month_index m) MONTH_SHORT.

(* ---- impl Display for Duration ---- *)
Fixpoint join_components (vals : list Z) (units : list str) (insert_space : bool) : str :=
  match vals, units with
  | v :: vs, u :: us =>
      if 0 <? v then (if insert_space then [32] else []) ++ fmt_int 0 v ++ [32] ++ u ++ join_components vs us true
      else join_components vs us insert_space
  | _, _ => []
  end.
Definition display_duration (d : duration) : str :=
  if total_nanoseconds d =? 0 then [48; 32; 110; 115]   (* "0 ns" *)
  else
    let '(sign, (days, hours, minutes, seconds, milli, us, nano)) := decompose d in
    (if sign =? -1 then [45] else []) ++
    join_components [days; hours; minutes; seconds; milli; us; nano]
                    ((if 1 <? days then DISPLAY_DAYS else DISPLAY_DAY) :: DISPLAY_UNITS) false.

(* ---- Epoch renderings: the Gregorian fields of the duration `d` taken in scale t, then the scale name ---- *)
Definition render_fields (f : Z * Z * Z * Z * Z * Z * Z) (with_nanos : bool) : str :=
  let '(y, mm, dd, hh, mi, s, ns) := f in
  fmt_int 4 y ++ [45] ++ fmt_int 2 mm ++ [45] ++ fmt_int 2 dd ++ [84] ++ fmt_int 2 hh ++ [58] ++ fmt_int 2 mi ++ [58] ++ fmt_int 2 s ++
  (if with_nanos then [46] ++ fmt_int 9 ns else []).
Definition nanos_of (f : Z * Z * Z * Z * Z * Z * Z) : Z := let '(_, _, _, _, _, _, ns) := f in ns.
Definition gregorian_str (d : duration) (t : timescale) : str :=
  let f := compute_gregorian d t in render_fields f (negb (nanos_of f =? 0)) ++ [32] ++ ts_name t.
(* Display: own scale.  {:?} UTC, {:x} TAI, {:X} TT, {:e} TDB, {:E} ET: after conversion (None for float scales here) *)
Definition display_epoch (e : epoch) : str := gregorian_str (dur e) (scale e).
Definition to_gregorian_str (e : epoch) (t : timescale) : option str :=
  option_map (fun d => gregorian_str d t) (to_duration_in_time_scale e t).
Definition to_rfc3339 (e : epoch) : option str :=
  option_map (fun d => let f := compute_gregorian d UTC in
                       render_fields f (negb (nanos_of f =? 0)) ++ [43; 48; 48; 58; 48; 48]) (to_duration_in_time_scale e UTC).

(* ---- Format / Item ---- *)
Record item := mkItem { token : Z; sep_char : option Z; second_sep_char : option Z; optional : bool }.
Definition format := list item.     (* the first num_items entries of `items` *)
Definition item_of_tuple (x : Z * option Z * option Z * bool) : item := let '(t, s1, s2, o) := x in mkItem t s1 s2 o.
Definition predefined (l : list (Z * option Z * option Z * bool)) : format := map item_of_tuple l.

(* Item::new: '?' in either separator position makes the item optional; a lone second separator moves up *)
Definition item_new (tok : Z) (s1 s2 : option Z) : item :=
  let '(s1', o1) := match s1 with Some 63 => (None, true) | _ => (s1, false) end in
  let '(s2', o2) := match s2 with Some 63 => (None, true) | _ => (s2, false) end in
  let '(a, b) := match s1', s2' with None, Some c => (Some c, None) | _, _ => (s1', s2') end in
  mkItem tok a b (o1 || o2).

(* s.split('%') *)
Fixpoint split_on (c : Z) (s : str) (cur : str) : list str :=
  match s with
  | [] => [rev cur]
  | x :: r => if x =? c then rev cur :: split_on c r [] else split_on c r (x :: cur)
  end.
Inductive fmt_err := UnknownFormat | UnknownToken (c : Z).
Definition letter_token (c : Z) : option Z := option_map snd (find (fun e => fst e =? c) TOKEN_LETTERS).
Fixpoint format_from_pieces (pieces : list str) (acc : list item) : format + fmt_err :=
  match pieces with
  | [] => inl (rev acc)
  | p :: rest =>
      match p with
      | [] => format_from_pieces rest acc
      | c :: tl =>
          if (Z.of_nat (length acc) =? MAX_TOKENS) then inr UnknownFormat
          else match letter_token c with
               | Some tok => format_from_pieces rest (item_new tok (nth_error tl 0) (nth_error tl 1) :: acc)
               | None => inr (UnknownToken c)
               end
      end
  end.
Definition format_from_str (s : str) : format + fmt_err := format_from_pieces (split_on 37 s []) [].

(* ---- Formatter ---- *)
Definition T_Year := 0. Definition T_YearShort := 1. Definition T_Month := 2. Definition T_Day := 3. Definition T_Hour := 4.
Definition T_Minute := 5. Definition T_Second := 6. Definition T_Subsecond := 7. Definition T_OffsetHours := 8.
Definition T_OffsetMinutes := 9. Definition T_Timescale := 10. Definition T_DayOfYearInteger := 11. Definition T_DayOfYear := 12.
Definition T_Weekday := 13. Definition T_WeekdayShort := 14. Definition T_WeekdayDecimal := 15. Definition T_MonthName := 16.
Definition T_MonthNameShort := 17.

Definition token_needs_gregorian (t : Z) : bool :=
  (t <=? 9) || (t =? T_MonthName) || (t =? T_MonthNameShort).
Definition need_gregorian (f : format) : bool := existsb (fun it => token_needs_gregorian (token it)) f.

Definition write_sep (prev : option item) : str :=
  match prev with
  | None => []
  | Some it => (match sep_char it with Some c => [c] | None => [] end) ++ (match second_sep_char it with Some c => [c] | None => [] end)
  end.

(* the %z rendering: sign, hours (days folded in), ':', minutes, then seconds if non-zero *)
Definition render_offset (offset : duration) : str :=
  let '(sign, (days, hours, minutes, seconds, _, _, _)) := decompose offset in
  let hours := if 0 <? days then hours + 24 * days else hours in
  [if 0 <=? sign then 43 else 45] ++ fmt_int 2 hours ++ [58] ++ fmt_int 2 minutes ++ (if 0 <? seconds then fmt_int 2 seconds else []).

Inductive render_res := ROk (s : str) | RFmtError | RUnreachable | RUnmodelled.
Definition rbind (r : render_res) (k : str -> render_res) : render_res := match r with ROk s => k s | e => e end.

(* one token; `sep` is what write_sep prints before it (when the token prints at all) *)
Definition render_token (e : epoch) (offset : duration) (greg : option (Z * Z * Z * Z * Z * Z * Z)) (it : item) (sep : str) : render_res :=
  let t := token it in
  match weekday e with None => RUnmodelled | Some wd =>
  match greg with
  | Some (y, mm, dd, hh, mi, s, ns) =>
      if t =? T_Year then ROk (sep ++ fmt_int 4 y)
      else if t =? T_YearShort then ROk (sep ++ fmt_int 2 y)
      else if t =? T_Month then ROk (sep ++ fmt_int 2 mm)
      else if t =? T_Day then ROk (sep ++ fmt_int 2 dd)
      else if t =? T_Hour then ROk (sep ++ fmt_int 2 hh)
      else if t =? T_Minute then ROk (sep ++ fmt_int 2 mi)
      else if t =? T_Second then ROk (sep ++ fmt_int 2 s)
      else if t =? T_Subsecond then (if negb (optional it) || (0 <? ns) then ROk (sep ++ fmt_int 9 ns) else ROk [])
      else if t =? T_OffsetHours then ROk (sep ++ render_offset offset)
      else if t =? T_OffsetMinutes then RFmtError
      else if t =? T_Timescale then (if negb (optional it) || negb (ts_eqb (scale e) UTC) then ROk (sep ++ ts_name (scale e)) else ROk [])
      else if t =? T_DayOfYearInteger then (match day_of_year_integer_fast e with Some n => ROk (sep ++ fmt_int 3 n) | None => RUnreachable end)
      else if t =? T_DayOfYear then RUnmodelled
      else if t =? T_Weekday then ROk (sep ++ weekday_long wd)
      else if t =? T_WeekdayShort then ROk (sep ++ weekday_short wd)
      else if t =? T_WeekdayDecimal then (match to_c89_weekday wd with Some n => ROk (sep ++ fmt_int 0 n) | None => RUnreachable end)
      else if t =? T_MonthName then ROk (sep ++ month_long mm)
      else if t =? T_MonthNameShort then ROk (sep ++ month_short mm)
      else RUnreachable
  | None =>
      if t =? T_OffsetHours then ROk (sep ++ render_offset offset)
      else if t =? T_OffsetMinutes then RFmtError
      else if t =? T_Timescale then (if negb (optional it) || negb (ts_eqb (scale e) UTC) then ROk (sep ++ ts_name (scale e)) else ROk [])
      else if t =? T_DayOfYearInteger then (match day_of_year_integer_fast e with Some n => ROk (sep ++ fmt_int 3 n) | None => RUnreachable end)
      else if t =? T_DayOfYear then RUnmodelled
      else if t =? T_Weekday then ROk (sep ++ weekday_long wd)
      else if t =? T_WeekdayShort then ROk (sep ++ weekday_short wd)
      else if t =? T_WeekdayDecimal then (match to_c89_weekday wd with Some n => ROk (sep ++ fmt_int 0 n) | None => RUnreachable end)
      else RUnreachable
  end end.

Fixpoint render_items (e : epoch) (offset : duration) (greg : option (Z * Z * Z * Z * Z * Z * Z)) (prev : option item) (items : list item) : render_res :=
  match items with
  | [] => ROk []
  | it :: rest =>
      rbind (render_token e offset greg it (write_sep prev)) (fun s =>
      rbind (render_items e offset greg (Some it) rest) (fun r => ROk (s ++ r)))
  end.

(* impl Display for Formatter.  Formatter::new: offset zero; with_timezone: epoch + offset, offset kept *)
Definition formatter_render (e : epoch) (offset : duration) (f : format) : render_res :=
  let greg := if need_gregorian f then Some (compute_gregorian (dur e) (scale e)) else None in
  render_items e offset greg None f.
Definition formatter_new (e : epoch) (f : format) : render_res := formatter_render e D_ZERO f.
Definition formatter_with_timezone (e : epoch) (offset : duration) (f : format) : render_res :=
  formatter_render (epoch_add e offset) offset f.
