(* Executable model of the parsers: lexical_core's integer / float grammar (as observed), TimeScale / Weekday /
   MonthName FromStr, Epoch::from_gregorian_str (src/epoch/gregorian.rs), Epoch::from_str (src/epoch/mod.rs),
   Duration::from_str with parse_offset / parse_duration (src/duration/parse.rs).
   Strings are lists of Unicode scalar values.  Where the code derives its offsets from char_indices() the model
   keeps character positions (such slices are on character boundaries by construction); where the code does byte
   arithmetic (s.len(), s.get(a..b)) the model works on UTF-8 byte offsets (get_bytes).
   Outcomes: PErr k (an Err(..) value, k identifies the variant), PPanic, POk x. *)
From Coq Require Import ZArith Bool List.
From Flocq Require Import IEEE754.BinarySingleNaN.
From HF Require Import MachInt GenConsts GenText GenUnicode Text Duration Epoch Gregorian F64 DurationF64 Views.
Import ListNotations.
Open Scope Z_scope.

Inductive pres (A : Type) := POk (a : A) | PErr (k : Z) | PPanic | PUnmodelled.
Arguments POk {A}. Arguments PErr {A}. Arguments PPanic {A}. Arguments PUnmodelled {A}.
Definition pbind {A B} (x : pres A) (f : A -> pres B) : pres B :=
  match x with POk a => f a | PErr k => PErr k | PPanic => PPanic | PUnmodelled => PUnmodelled end.

(* error kinds (variant of HifitimeError / ParsingError, as printed by the harness) *)
Definition E_UnknownFormat := 1. Definition E_ValueError := 2. Definition E_TimeSystem := 3. Definition E_ISO8601 := 4.
Definition E_Lexical := 5. Definition E_InvalidGregorian := 6. Definition E_UnsupportedTimeSystem := 7. Definition E_Duration := 8.
Definition E_NothingToParse := 9. Definition E_UnknownOrMissingUnit := 10. Definition E_InvalidTimezone := 11.
Definition E_UnknownWeekday := 12. Definition E_UnknownMonthName := 13. Definition E_UnexpectedCharacter := 14.
Definition E_WeekdayMismatch := 15. Definition E_UnknownToken := 16.

(* ---- character classes and UTF-8 ---- *)
Definition in_ranges (tbl : list (Z * Z)) (c : Z) : bool := existsb (fun r => (fst r <=? c) && (c <=? snd r)) tbl.
Definition is_numeric (c : Z) : bool := in_ranges UNICODE_NUMERIC c.
Definition is_whitespace (c : Z) : bool := in_ranges UNICODE_WHITESPACE c.
Definition is_ascii_alpha (c : Z) : bool := ((65 <=? c) && (c <=? 90)) || ((97 <=? c) && (c <=? 122)).
Definition is_ascii_digit (c : Z) : bool := (48 <=? c) && (c <=? 57).
Definition len_utf8 (c : Z) : Z := if c <? 128 then 1 else if c <? 2048 then 2 else if c <? 65536 then 3 else 4.
Fixpoint blen (s : str) : Z := match s with [] => 0 | c :: t => len_utf8 c + blen t end.
Fixpoint drop_ws (s : str) : str := match s with c :: t => if is_whitespace c then drop_ws t else s | [] => [] end.
Definition trim (s : str) : str := rev (drop_ws (rev (drop_ws s))).
(* s.get(a..b) / s.get(a..) on byte offsets: None unless both ends are on character boundaries within the string *)
Fixpoint drop_b (s : str) (a : Z) : option str :=
  if a =? 0 then Some s else match s with [] => None | c :: t => if len_utf8 c <=? a then drop_b t (a - len_utf8 c) else None end.
Fixpoint take_b (s : str) (a : Z) : option str :=
  if a =? 0 then Some [] else match s with [] => None | c :: t => if len_utf8 c <=? a then option_map (cons c) (take_b t (a - len_utf8 c)) else None end.
Definition get_bytes (s : str) (a b : Z) : option str :=
  if (a <? 0) || (b <? a) then None else match drop_b s a with Some r => take_b r (b - a) | None => None end.
Definition get_bytes_from (s : str) (a : Z) : option str := if a <? 0 then None else drop_b s a.
Fixpoint starts_with (s p : str) : bool :=
  match p, s with [], _ => true | x :: p', y :: s' => (x =? y) && starts_with s' p' | _, [] => false end.

(* ---- lexical_core::parse ---- *)
Fixpoint digits_val (s : str) (acc : Z) : option Z :=
  match s with [] => Some acc | c :: t => if is_ascii_digit c then digits_val t (acc * 10 + (c - 48)) else None end.
(* [+-]?digits+ into [lo, hi]; `allow_minus` is false for unsigned types *)
Definition lex_int (allow_minus : bool) (lo hi : Z) (s : str) : option Z :=
  let '(neg, body) := match s with 45 :: t => (true, t) | 43 :: t => (false, t) | _ => (false, s) end in
  if neg && negb allow_minus then None else
  match body with
  | [] => None
  | _ => match digits_val body 0 with
         | Some v => let v := if neg then - v else v in if (lo <=? v) && (v <=? hi) then Some v else None
         | None => None
         end
  end.
Definition lex_i32 := lex_int true I32_MIN I32_MAX.
Definition lex_i64 := lex_int true I64_MIN I64_MAX.

Definition lower (c : Z) : Z := if (65 <=? c) && (c <=? 90) then c + 32 else c.
Fixpoint take_digits (s : str) (acc : str) : str * str :=
  match s with c :: t => if is_ascii_digit c then take_digits t (c :: acc) else (rev acc, s) | [] => (rev acc, []) end.
Inductive lexf := LexErr | LexVal (x : f64) | LexUnmodelled.
(* f64: [+-]? (digits+ [. digits*] | . digits+) ([eE] [+-]? digits+)?  |  [+-]? (inf | infinity | nan), case-insensitive.
   The value is modelled exactly on the classic fast path (integer mantissa below 2^53 and |decimal exponent| <= 22:
   one correctly rounded multiplication or division of two exact floats); beyond it the answer is LexUnmodelled. *)
Definition lex_f64 (s : str) : lexf :=
  let '(neg, body) := match s with 45 :: t => (true, t) | 43 :: t => (false, t) | _ => (false, s) end in
  let low := map lower body in
  if str_eqb low [105;110;102] || str_eqb low [105;110;102;105;110;105;116;121] then LexVal (B754_infinity neg)
  else if str_eqb low [110;97;110] then LexVal B754_nan
  else
    let '(ip, r1) := take_digits body [] in
    let '(fp, r2) := match r1 with 46 :: t => take_digits t [] | _ => ([], r1) end in
    if (length ip + length fp =? 0)%nat then LexErr else
    let exp_part : option (option Z) :=    (* None = malformed; Some None = absent *)
      match r2 with
      | [] => Some None
      | c :: t => if (c =? 101) || (c =? 69) then
                    match lex_int true (-100000) 100000 t with
                    | Some e => Some (Some e)
                    | None => (* distinguish malformed from out-of-model magnitudes *)
                        let '(_, tb) := match t with 45 :: u => (true, u) | 43 :: u => (false, u) | _ => (false, t) end in
                        match tb with [] => None | _ => match digits_val tb 0 with Some _ => Some (Some 1000000) | None => None end end
                    end
                  else None
      end in
    match exp_part with
    | None => LexErr
    | Some eo =>
        match digits_val (ip ++ fp) 0 with
        | None => LexErr
        | Some m =>
            let e10 := (match eo with Some e => e | None => 0 end) - Z.of_nat (length fp) in
            if m =? 0 then LexVal (B754_zero neg)
            else if (m <? 2 ^ 53) && (-22 <=? e10) && (e10 <=? 22) then
              let fm := f_of_Z (if neg then - m else m) in
              LexVal (if 0 <=? e10 then fmul fm (f_of_Z (10 ^ e10)) else fdiv fm (f_of_Z (10 ^ (- e10))))
            else LexUnmodelled
        end
    end.

(* ---- TimeScale / Weekday / MonthName FromStr: trim, then exact match in the table ---- *)
Definition lookup_str (tbl : list (str * Z)) (s : str) : option Z := option_map snd (find (fun e => str_eqb (fst e) s) tbl).
Definition ts_from_str (s : str) : option timescale := option_map ts_of_Z (lookup_str TS_PARSE (trim s)).
Definition weekday_from_str (s : str) : option Z := lookup_str WEEKDAY_PARSE (trim s).
Definition month_from_str (s : str) : option Z := lookup_str MONTH_PARSE (trim s).

(* ---- Token (src/parser.rs) ---- *)
Definition T_Year := 0. Definition T_YearShort := 1. Definition T_Month := 2. Definition T_Day := 3. Definition T_Hour := 4.
Definition T_Minute := 5. Definition T_Second := 6. Definition T_Subsecond := 7. Definition T_OffsetHours := 8.
Definition T_OffsetMinutes := 9. Definition T_Timescale := 10. Definition T_DayOfYearInteger := 11. Definition T_DayOfYear := 12.
Definition T_Weekday := 13. Definition T_WeekdayShort := 14. Definition T_WeekdayDecimal := 15. Definition T_MonthName := 16.
Definition T_MonthNameShort := 17.
Definition in_incl (lo hi v : Z) : bool := (lo <=? v) && (v <=? hi).
(* Token::value_ok: true = Ok(()) *)
Definition value_ok (t v : Z) : bool :=
  if (t =? T_Year) || (t =? T_YearShort) || (t =? T_Timescale) || (t =? T_WeekdayDecimal) then true
  else if t =? T_Month then in_incl 0 13 v
  else if t =? T_Day then in_incl 0 31 v
  else if (t =? T_Hour) || (t =? T_OffsetHours) then in_incl 0 23 v
  else if (t =? T_Minute) || (t =? T_OffsetMinutes) then in_incl 0 59 v
  else if t =? T_Second then in_incl 0 60 v
  else if t =? T_Subsecond then 0 <=? v
  else if t =? T_DayOfYearInteger then in_incl 0 366 v
  else false.
Definition gregorian_position (t : Z) : option nat :=
  if (t =? T_Year) || (t =? T_YearShort) then Some 0%nat else if t =? T_Month then Some 1%nat else if t =? T_Day then Some 2%nat
  else if t =? T_Hour then Some 3%nat else if t =? T_Minute then Some 4%nat else if t =? T_Second then Some 5%nat
  else if t =? T_Subsecond then Some 6%nat else if t =? T_OffsetHours then Some 7%nat else if t =? T_OffsetMinutes then Some 8%nat else None.
(* Token::advance_with: Some next token, None = Err(UnknownFormat) *)
Definition advance_with (t c : Z) : option Z :=
  if (t =? T_Year) || (t =? T_YearShort) then (if c =? 45 then Some T_Month else None)
  else if t =? T_Month then (if c =? 45 then Some T_Day else None)
  else if t =? T_Day then (if (c =? 84) || (c =? 32) then Some T_Hour else None)
  else if t =? T_Hour then (if c =? 58 then Some T_Minute else None)
  else if t =? T_Minute then (if c =? 58 then Some T_Second else None)
  else if t =? T_Second then
    (if c =? 46 then Some T_Subsecond else if (c =? 32) || (c =? 90) then Some T_Timescale
     else if (c =? 45) || (c =? 43) then Some T_OffsetHours else None)
  else if t =? T_Subsecond then
    (if (c =? 32) || (c =? 90) then Some T_Timescale else if (c =? 45) || (c =? 43) then Some T_OffsetHours else None)
  else if t =? T_OffsetHours then (if c =? 58 then Some T_OffsetMinutes else None)
  else if t =? T_OffsetMinutes then (if (c =? 32) || (c =? 90) then Some T_Timescale else None)
  else Some t.
Definition is_name_token (t : Z) : bool := (t =? T_Weekday) || (t =? T_WeekdayShort) || (t =? T_MonthName) || (t =? T_MonthNameShort).
Definition is_numeric_token (t : Z) : bool :=
  negb ((t =? T_Timescale) || (t =? T_Weekday) || (t =? T_WeekdayShort) || (t =? T_MonthName) || (t =? T_MonthNameShort)).

Fixpoint set_nth {A} (n : nat) (x : A) (l : list A) : list A :=
  match n, l with O, _ :: t => x :: t | S n', h :: t => h :: set_nth n' x t | _, [] => [] end.
Definition slice_pos (s : str) (a b : nat) : str := firstn (b - a) (skipn a s).

(* maybe_from_gregorian's error variants as parse errors *)
Definition greg_result (r : epoch + greg_err) : pres epoch :=
  match r with inl e => POk e | inr InvalidGregorianDate => PErr E_InvalidGregorian | inr _ => PErr E_Duration end.

(* ---- Epoch::from_gregorian_str ---- *)
Record gstate := mkG { g_dec : list Z; g_ts : timescale; g_sign : Z; g_prev : nat; g_tok : Z }.
Inductive gstep := GCont (st : gstate) | GBreak (st : gstate) | GErr (k : Z) | GPanic.
(* the body of the loop for the character c at position pos (of n characters) *)
Definition greg_step (s : str) (n : nat) (st : gstate) (pos : nat) (c : Z) : gstep :=
  let is_last := (S pos =? n)%nat in
  if negb (is_numeric c) || is_last then
    if g_tok st =? T_Timescale then
      if negb is_last then
        match ts_from_str (skipn pos s) with
        | Some t => GBreak (mkG (g_dec st) t (g_sign st) (g_prev st) (g_tok st))
        | None => GErr E_TimeSystem
        end
      else GBreak st
    else
      match gregorian_position (g_tok st) with
      | None => GPanic                                   (* .unwrap() *)
      | Some p =>
          let advance := negb is_last || negb (is_numeric c) in
          match (if advance then advance_with (g_tok st) c else Some (g_tok st)) with
          | None => GErr E_UnknownFormat
          | Some tok' =>
              let end_pos := if advance then pos else S pos in
              if (end_pos <? g_prev st)%nat then GErr E_ISO8601 else
              match lex_i32 (slice_pos s (g_prev st) end_pos) with
              | None => GErr E_Lexical
              | Some v =>
                  if negb (value_ok (g_tok st) v) then GErr E_ValueError else
                  let digits := blen (slice_pos s (g_prev st) end_pos) in
                  if (g_tok st =? T_Subsecond) && (9 <? digits) then GErr E_ValueError else
                  let v' := if g_tok st =? T_Subsecond then v * 10 ^ (9 - digits) else v in
                  let sign' := if (tok' =? T_OffsetHours) && (c =? 45) then -1 else g_sign st in
                  GCont (mkG (set_nth p v' (g_dec st)) (g_ts st) sign' (S pos) tok')
              end
          end
      end
  else GCont st.
Fixpoint greg_loop (s : str) (n : nat) (st : gstate) (pos : nat) (rest : str) : gstate + (Z + unit) :=
  match rest with
  | [] => inl st
  | c :: t => match greg_step s n st pos c with
              | GCont st' => greg_loop s n st' (S pos) t
              | GBreak st' => inl st'
              | GErr k => inr (inl k)
              | GPanic => inr (inr tt)
              end
  end.
Definition dec_nth (l : list Z) (n : nat) : Z := nth n l 0.
Definition u8_of (v : Z) : option Z := if in_incl 0 255 v then Some v else None.     (* try_into::<u8>() *)
Definition from_gregorian_str (s_in : str) : pres epoch :=
  let s := trim s_in in
  match greg_loop s (length s) (mkG (repeat 0 9) UTC 1 0%nat T_Year) 0%nat s with
  | inr (inl k) => PErr k
  | inr (inr _) => PPanic
  | inl st =>
      let d := g_dec st in
      let tzabs := dur_add (unit_mul_i64 Hour (dec_nth d 7)) (unit_mul_i64 Minute (dec_nth d 8)) in
      let tz := if 0 <? g_sign st then dur_neg tzabs else tzabs in
      match u8_of (dec_nth d 1), u8_of (dec_nth d 2), u8_of (dec_nth d 3), u8_of (dec_nth d 4), u8_of (dec_nth d 5) with
      | Some mo, Some da, Some ho, Some mi, Some se =>
          if dec_nth d 6 <? 0 then PPanic else
          pbind (greg_result (maybe_from_gregorian_fast (dec_nth d 0) mo da ho mi se (dec_nth d 6) (g_ts st)))
                (fun e => POk (epoch_add e tz))
      | _, _, _, _, _ => PPanic       (* .try_into().unwrap() *)
      end
  end.

(* ---- Epoch::from_str ---- *)
Fixpoint count_while {A} (p : A -> bool) (l : list A) : nat := match l with x :: t => if p x then S (count_while p t) else O | [] => O end.
Definition epoch_from_str (s_in : str) : pres epoch :=
  let s := trim s_in in
  if blen s <? 7 then PErr E_UnknownFormat
  else
    let fmt := if starts_with s [74;68] then 1 else if starts_with s [77;74;68] then 2 else if starts_with s [83;69;67] then 3 else 0 in
    if fmt =? 0 then from_gregorian_str s_in
    else
      let fmt_len : nat := if fmt =? 1 then 2%nat else 3%nat in
      let ts_len := count_while is_ascii_alpha (rev s) in
      let head := firstn (length s - ts_len) s in
      let ts_str := skipn (length s - ts_len) s in
      match ts_from_str ts_str with
      | None => PErr E_TimeSystem
      | Some t =>
          if (length head <? fmt_len)%nat then PErr E_ValueError      (* head.get(format.len()..) is None *)
          else
            match lex_f64 (trim (skipn fmt_len head)) with
            | LexErr => PErr E_ValueError
            | LexUnmodelled => PUnmodelled
            | LexVal x =>
                if f_is_nan x || f_is_inf x then PErr E_ValueError else
                if fmt =? 1 then
                  match t with
                  | TAI => POk (from_jde_in_time_scale x TAI)
                  | UTC => POk (from_jde_in_time_scale x UTC)
                  | ET | TDB => (* from_jde_et = from_jde_tdb = from_jde_tai(days) - Unit::Microsecond * ET_OFFSET_US, a TAI epoch *)
                      POk (epoch_sub (from_jde_in_time_scale x TAI) (unit_mul_i64 Microsecond ET_OFFSET_US))
                  | _ => PErr E_UnsupportedTimeSystem
                  end
                else if fmt =? 2 then
                  match t with
                  | TAI | UTC | GPST | BDT | GST => POk (from_mjd_in_time_scale x t)
                  | _ => PErr E_UnsupportedTimeSystem
                  end
                else
                  (* from_tai_seconds / from_et_seconds / from_tdb_seconds / from_tt_seconds / from_duration: all value * Unit::Second in t *)
                  POk (mkE (unit_mul_f64 Second x) t)
            end
      end.

(* ---- Duration::from_str ---- *)
(* parse_offset: fixed byte offsets *)
Definition parse_offset (s : str) : pres duration :=
  let n := blen s in
  let colon := if (n =? 3) || (n =? 5) || (n =? 7) then Some 0 else if (n =? 4) || (n =? 6) || (n =? 9) then Some 1 else None in
  match colon with
  | None => PErr E_InvalidTimezone
  | Some colon =>
      match get_bytes s 1 3 with
      | None => PErr E_InvalidTimezone
      | Some hs =>
          match lex_i64 hs with
          | None => PErr E_Lexical
          | Some hours =>
              match get_bytes s (3 + colon) (5 + colon) with
              | None => if n <=? 3 + colon       (* the text ends here; a range that cuts a character is not an offset *)
                        then POk (dur_add (dur_add (unit_mul_i64 Hour hours) (unit_mul_i64 Minute 0)) (unit_mul_i64 Second 0))
                        else PErr E_InvalidTimezone
              | Some ms =>
                  match lex_i64 ms with
                  | None => PErr E_ValueError
                  | Some minutes =>
                      let fin (seconds : Z) := POk (dur_add (dur_add (unit_mul_i64 Hour hours) (unit_mul_i64 Minute minutes)) (unit_mul_i64 Second seconds)) in
                      match get_bytes_from s (5 + 2 * colon) with
                      | None => if n <=? 5 + 2 * colon then fin 0 else PErr E_InvalidTimezone
                      | Some ss => match ss with
                                   | [] => fin 0
                                   | _ => match lex_i64 ss with Some sec => fin sec | None => PErr E_ValueError end
                                   end
                      end
                  end
              end
          end
      end
  end.

(* parse_duration: state machine over char_indices *)
Record dstate := mkDS { d_dec : list f64; d_prev : nat; d_seeking : bool; d_latest : f64; d_prev_space : bool }.
Definition unit_at (s : str) (start : nat) : option nat :=
  option_map (fun e => Z.to_nat (snd e)) (find (fun e => starts_with (skipn start s) (fst e)) PARSE_UNITS).
Inductive dstep := DCont (st : dstate) | DErr (k : Z) | DUnmodelled.
Definition dur_step (s : str) (st : dstate) (pos : nat) (c : Z) : dstep :=
  if c =? 32 then
    if d_seeking st then
      if negb (d_prev_space st) then
        if (d_prev st =? pos)%nat then DErr E_UnknownOrMissingUnit else
        match lex_f64 (slice_pos s (d_prev st) pos) with
        | LexErr => DErr E_ValueError
        | LexUnmodelled => DUnmodelled
        | LexVal x => DCont (mkDS (d_dec st) (d_prev st) false x true)
        end
      else DCont (mkDS (d_dec st) (d_prev st) (d_seeking st) (d_latest st) true)
    else
      match unit_at s (d_prev st) with
      | Some p => DCont (mkDS (set_nth p (d_latest st) (d_dec st)) pos true (d_latest st) true)
      | None => DErr E_UnknownOrMissingUnit
      end
  else
    DCont (mkDS (d_dec st) (if d_prev_space st then pos else d_prev st) (d_seeking st) (d_latest st) false).
Fixpoint dur_loop (s : str) (st : dstate) (pos : nat) (rest : str) : dstate + (option Z) :=
  match rest with
  | [] => inl st
  | c :: t => match dur_step s st pos c with
              | DCont st' => dur_loop s st' (S pos) t
              | DErr k => inr (Some k)
              | DUnmodelled => inr None
              end
  end.
Definition fzero : f64 := B754_zero false.
Definition compose_f64 (sign : Z) (l : list f64) : duration :=
  let g n := nth n l fzero in
  let me := dur_add (dur_add (dur_add (dur_add (dur_add (dur_add (unit_mul_f64 Day (g 0%nat)) (unit_mul_f64 Hour (g 1%nat)))
              (unit_mul_f64 Minute (g 2%nat))) (unit_mul_f64 Second (g 3%nat))) (unit_mul_f64 Millisecond (g 4%nat)))
              (unit_mul_f64 Microsecond (g 5%nat))) (unit_mul_f64 Nanosecond (g 6%nat)) in
  if sign <? 0 then dur_neg me else me.
Definition parse_duration (s : str) : pres duration :=
  match dur_loop s (mkDS (repeat fzero 7) 0%nat true fzero false) 0%nat s with
  | inr (Some k) => PErr k
  | inr None => PUnmodelled
  | inl st =>
      if negb (d_seeking st) then
        match unit_at s (d_prev st) with
        | Some p => POk (compose_f64 1 (set_nth p (d_latest st) (d_dec st)))
        | None => PErr E_UnknownOrMissingUnit
        end
      else if (d_prev st <? length s)%nat then PErr E_UnknownOrMissingUnit
      else POk (compose_f64 1 (d_dec st))
  end.
Definition duration_from_str (s_in : str) : pres duration :=
  let s := trim s_in in
  match s with
  | [] => PErr E_NothingToParse
  | c0 :: _ =>
      let '(sign, maybe_offset, skip) := if c0 =? 45 then (-1, true, 1%nat) else if c0 =? 43 then (1, true, 0%nat) else (1, false, 0%nat) in
      let fallthrough := pbind (parse_duration (skipn skip s)) (fun d => POk (if sign =? -1 then dur_neg d else d)) in
      if maybe_offset then
        match parse_offset s with
        | POk d => POk (if sign =? -1 then dur_neg d else d)
        | _ => fallthrough
        end
      else fallthrough
  end.

(* ---- Format::parse (src/efmt/format.rs) ---- *)
From HF Require Import TextFmt.
Definition sep_char_is (it : item) (c : Z) : bool := match sep_char it with Some x => x =? c | None => false end.
Definition sep_char_is_not (it : item) (c : Z) : bool := match sep_char it with Some x => negb (x =? c) | None => false end.
Definition second_sep_is (it : item) (c : Z) : bool := match second_sep_char it with Some x => x =? c | None => false end.
Definition second_sep_is_not (it : item) (c : Z) : bool := match second_sep_char it with Some x => negb (x =? c) | None => false end.
Definition second_sep_none (it : item) : bool := match second_sep_char it with None => true | Some _ => false end.

Record fstate := mkF { f_dec : list Z; f_ts : timescale; f_osign : Z; f_doy : option f64; f_wd : option Z;
                       f_prev : nat; f_idx : nat; f_cur : item; f_prev_item : item }.
Inductive fstep := FCont (st : fstate) | FBreak (st : fstate) | FErr (k : Z) | FPanic | FUnmodelled.

Definition fparse_step (fmt : format) (s : str) (n : nat) (st : fstate) (pos : nat) (c : Z) : fstep :=
  let is_last := (S pos =? n)%nat in
  let cur := f_cur st in
  let ct := TextFmt.token cur in
  (* the second separator of the previous token in front of a weekday or month name is skipped first *)
  if (pos =? f_prev st)%nat && negb is_last && is_name_token ct && second_sep_is (f_prev_item st) c && negb (sep_char_is cur c) then
    FCont (mkF (f_dec st) (f_ts st) (f_osign st) (f_doy st) (f_wd st) (S pos) (f_idx st) cur (f_prev_item st))
  else
  if is_last || ((is_numeric_token ct && negb (is_numeric c)) || (negb (is_numeric_token ct) && sep_char_is cur c)) then
    if (pos =? f_prev st)%nat && (second_sep_none (f_prev_item st) || second_sep_is (f_prev_item st) c) then
      FCont (mkF (f_dec st) (f_ts st) (f_osign st) (f_doy st) (f_wd st) (S pos) (f_idx st) cur (f_prev_item st))
    else if ct =? T_Timescale then
      if negb is_last then
        match ts_from_str (skipn pos s) with
        | Some t => FBreak (mkF (f_dec st) t (f_osign st) (f_doy st) (f_wd st) (f_prev st) (f_idx st) cur (f_prev_item st))
        | None => FErr E_TimeSystem
        end
      else FBreak st
    else if c =? 90 then FBreak st
    else
      let advance := negb is_last || negb (is_numeric c) in
      (* (outcome of the advance: new current item and index, or break / error) *)
      let adv : (item * nat) + (option Z) :=
        if advance then
          if sep_char_is_not cur c && (second_sep_none cur || second_sep_is_not cur c) then inr (Some E_UnexpectedCharacter)
          else if (f_idx st =? length fmt)%nat then inr None
          else match nth_error fmt (S (f_idx st)) with Some it => inl (it, S (f_idx st)) | None => inr None end
        else inl (cur, f_idx st) in
      match adv with
      | inr (Some k) => FErr k
      | inr None => FBreak (mkF (f_dec st) (f_ts st) (f_osign st) (f_doy st) (f_wd st) (f_prev st) (f_idx st) cur cur)
      | inl (cur', idx') =>
          let end_pos := if advance then pos else S pos in
          if (end_pos <? f_prev st)%nat then FErr E_UnknownFormat else
          let sub := slice_pos s (f_prev st) end_pos in
          let sign' := if (TextFmt.token cur' =? T_OffsetHours) && (c =? 45) then -1 else f_osign st in
          let fin (dec : list Z) (doy : option f64) (wd : option Z) :=
            FCont (mkF dec (f_ts st) sign' doy wd (S pos) idx' cur' cur) in
          if ct =? T_YearShort then
            match lex_i32 sub with
            | Some y => if y + 2000 <=? I32_MAX then fin (set_nth 0 (y + 2000) (f_dec st)) (f_doy st) (f_wd st) else FErr E_ValueError
            | None => FErr E_ValueError
            end
          else if ct =? T_DayOfYear then
            match lex_f64 sub with
            | LexVal x => fin (f_dec st) (Some x) (f_wd st)
            | LexErr => FErr E_ValueError
            | LexUnmodelled => FUnmodelled
            end
          else if (ct =? T_Weekday) || (ct =? T_WeekdayShort) then
            match weekday_from_str sub with Some w => fin (f_dec st) (f_doy st) (Some w) | None => FErr E_UnknownWeekday end
          else if ct =? T_WeekdayDecimal then FErr E_UnknownFormat
          else if (ct =? T_MonthName) || (ct =? T_MonthNameShort) then
            match month_from_str sub with Some m => fin (set_nth 1 m (f_dec st)) (f_doy st) (f_wd st) | None => FErr E_ValueError end
          else
            match lex_i32 sub with
            | None => FErr E_Lexical
            | Some v =>
                if negb (value_ok ct v) then FErr E_ValueError else
                match gregorian_position ct with
                | Some p =>
                    let digits := blen sub in
                    if (ct =? T_Subsecond) && (9 <? digits) then FErr E_ValueError
                    else fin (set_nth p (if ct =? T_Subsecond then v * 10 ^ (9 - digits) else v) (f_dec st)) (f_doy st) (f_wd st)
                | None => if ct =? T_DayOfYearInteger then fin (f_dec st) (Some (f_of_Z v)) (f_wd st) else FPanic
                end
            end
      end
  else FCont st.
Fixpoint fparse_loop (fmt : format) (s : str) (n : nat) (st : fstate) (pos : nat) (rest : str) : fstate + (option (option Z)) :=
  match rest with
  | [] => inl st
  | c :: t => match fparse_step fmt s n st pos c with
              | FCont st' => fparse_loop fmt s n st' (S pos) t
              | FBreak st' => inl st'
              | FErr k => inr (Some (Some k))
              | FPanic => inr (Some None)
              | FUnmodelled => inr None
              end
  end.
Definition format_parse (fmt : format) (s_in : str) : pres epoch :=
  match fmt with
  | [] => PErr E_NothingToParse
  | it0 :: _ =>
      let s := trim s_in in
      match fparse_loop fmt s (length s) (mkF (repeat 0 16) UTC 1 None None 0%nat 0%nat it0 it0) 0%nat s with
      | inr (Some (Some k)) => PErr k
      | inr (Some None) => PPanic
      | inr None => PUnmodelled
      | inl st =>
          let d := f_dec st in
          let tzabs := dur_add (unit_mul_i64 Hour (dec_nth d 7)) (unit_mul_i64 Minute (dec_nth d 8)) in
          let tz := if 0 <? f_osign st then dur_neg tzabs else tzabs in
          let built : pres epoch :=
            match f_doy st with
            | Some days =>
                let elapsed := dur_add (dur_add (dur_add (unit_mul_i64 Hour (dec_nth d 3)) (unit_mul_i64 Minute (dec_nth d 4)))
                                                (unit_mul_i64 Second (dec_nth d 5))) (unit_mul_i64 Nanosecond (dec_nth d 6)) in
                pbind (greg_result (maybe_from_gregorian_fast (dec_nth d 0) 1 1 0 0 0 0 (f_ts st)))
                      (fun e => POk (epoch_add (epoch_add e (unit_mul_f64 Day (fsub days (f_of_Z 1)))) elapsed))
            | None =>
                match u8_of (dec_nth d 1), u8_of (dec_nth d 2), u8_of (dec_nth d 3), u8_of (dec_nth d 4), u8_of (dec_nth d 5) with
                | Some mo, Some da, Some ho, Some mi, Some se =>
                    if dec_nth d 6 <? 0 then PPanic
                    else greg_result (maybe_from_gregorian_fast (dec_nth d 0) mo da ho mi se (dec_nth d 6) (f_ts st))
                | _, _, _, _, _ => PPanic
                end
            end in
          pbind built (fun e =>
            match f_wd st with
            | Some w => match weekday e with
                        | Some w' => if w =? w' then POk (epoch_add e tz) else PErr E_WeekdayMismatch
                        | None => PUnmodelled
                        end
            | None => POk (epoch_add e tz)
            end)
      end
  end.
(* Epoch::from_format_str: Format::from_str errors become Parse errors of the same variant *)
Definition from_format_str (s_in fmt_str : str) : pres epoch :=
  match format_from_str fmt_str with
  | inl f => format_parse f s_in
  | inr UnknownFormat => PErr E_UnknownFormat
  | inr (UnknownToken _) => PErr E_UnknownToken
  end.
