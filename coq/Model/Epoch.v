(* Executable model of Epoch and TimeScale (src/epoch/mod.rs, ops.rs, initializers.rs,
   src/timescale/mod.rs, src/epoch/leap_seconds.rs) for the seven scales whose conversion is
   integer arithmetic: TAI TT UTC GPST GST BDT QZSST.  ET and TDB go through f64 and sin and are
   modelled in EtTdb.v; here their arms answer None.  No proofs in this file. *)
From Coq Require Import ZArith Bool List.
From HF Require Import MachInt GenConsts GenLeap Duration.
Import ListNotations.
Open Scope Z_scope.

Inductive timescale := TAI | TT | ET | TDB | UTC | GPST | GST | BDT | QZSST.
Definition all_scales := [TAI; TT; ET; TDB; UTC; GPST; GST; BDT; QZSST].
Definition ts_id (t : timescale) : Z :=
  match t with TAI => TS_TAI | TT => TS_TT | ET => TS_ET | TDB => TS_TDB | UTC => TS_UTC
             | GPST => TS_GPST | GST => TS_GST | BDT => TS_BDT | QZSST => TS_QZSST end.
(* impl From<u8> for TimeScale: anything else is TAI *)
Definition ts_of_Z (z : Z) : timescale :=
  match z with 1 => TT | 2 => ET | 3 => TDB | 4 => UTC | 5 => GPST | 6 => GST | 7 => BDT | 8 => QZSST | _ => TAI end.
Definition ts_eqb (a b : timescale) : bool := ts_id a =? ts_id b.
Definition uses_leap_seconds (t : timescale) : bool := match t with UTC => true | _ => false end.
Definition is_float_scale (t : timescale) : bool := match t with ET | TDB => true | _ => false end.

Record epoch := mkE { dur : duration; scale : timescale }.

Definition dpair (p : Z * Z) : duration := mkD (fst p) (snd p).

(* TimeScale::prime_epoch_offset: generated table of the match arms *)
Definition prime_epoch_offset (t : timescale) : duration :=
  match find (fun e => fst e =? ts_id t) prime_epoch_offset_tbl with
  | Some e => dpair (snd e)
  | None => D_ZERO
  end.

(* the reference epochs' TAI durations (constants of timescale/mod.rs) *)
Definition gpst_ref_tai := dpair GPST_REF_EPOCH.
Definition qzsst_ref_tai := dpair QZSST_REF_EPOCH.
Definition gst_ref_tai := dpair GST_REF_EPOCH.
Definition bdt_ref_tai := dpair BDT_REF_EPOCH.
Definition unix_ref_tai := dpair UNIX_REF_EPOCH.

(* ---- leap seconds ---- *)
(* LatestLeapSeconds as a provider: the announced entries (timestamp s, delta s).
   `ts * Unit::Second` and `delta.seconds()` are f64 * Unit in the code; both are whole numbers far
   below 2^53/5^9, for which Unit * f64 is exact (F64P.unit_mul_f64_whole), hence unit_mul_i64 here. *)
Definition provider := list (Z * Z).
Definition builtin_provider : provider := BUILTIN_IERS.

(* Epoch::leap_seconds_with(iers_only = true, provider) on an epoch whose TAI duration is `tai`:
   reverse scan for the last entry whose threshold is at or before it.  None = no entry. *)
Fixpoint leap_rev_scan (rev_entries : provider) (tai : duration) : option Z :=
  match rev_entries with
  | [] => None
  | (ts, delta) :: rest =>
      if dur_geb tai (unit_mul_i64 Second ts) then Some delta else leap_rev_scan rest tai
  end.
Definition leap_seconds_with (p : provider) (tai : duration) : option Z := leap_rev_scan (rev p) tai.
Definition leap_seconds_iers (tai : duration) : option Z := leap_seconds_with builtin_provider tai.

(* Epoch::leap_seconds_at_tai: forward walk, each entry in force from threshold + previous offset *)
Fixpoint leap_fwd_walk (entries : provider) (tai : duration) (in_force : Z) : Z :=
  match entries with
  | [] => in_force
  | (ts, delta) :: rest =>
      if dur_geb tai (unit_mul_i64 Second (ts + in_force)) then leap_fwd_walk rest tai delta else in_force
  end.
Definition leap_seconds_at_tai (tai : duration) : Z := leap_fwd_walk builtin_provider tai 0.

Definition opt_or0 (o : option Z) : Z := match o with Some v => v | None => 0 end.

(* ---- Epoch::to_time_scale (mod.rs:179) for the integer scales ---- *)
Definition tt_offset : duration := unit_mul_i64 Millisecond TT_OFFSET_MS.

Definition to_tai_duration_of (e : epoch) : option duration :=
  match scale e with
  | TAI => Some (dur e)
  | TT => Some (dur_sub (dur e) tt_offset)
  | UTC => Some (dur_add (dur e) (unit_mul_i64 Second (opt_or0 (leap_seconds_iers (dur e)))))
  | GPST => Some (dur_add (dur e) gpst_ref_tai)
  | GST => Some (dur_add (dur e) gst_ref_tai)
  | BDT => Some (dur_add (dur e) bdt_ref_tai)
  | QZSST => Some (dur_add (dur e) qzsst_ref_tai)
  | ET | TDB => None
  end.

Definition from_tai_duration_to (tai : duration) (t : timescale) : option duration :=
  match t with
  | TAI => Some tai
  | TT => Some (dur_add tai tt_offset)
  | UTC => Some (dur_sub tai (unit_mul_i64 Second (leap_seconds_at_tai tai)))
  | GPST => Some (dur_sub tai gpst_ref_tai)
  | GST => Some (dur_sub tai gst_ref_tai)
  | BDT => Some (dur_sub tai bdt_ref_tai)
  | QZSST => Some (dur_sub tai qzsst_ref_tai)
  | ET | TDB => None
  end.

Definition to_time_scale (e : epoch) (t : timescale) : option epoch :=
  if ts_eqb t (scale e) then Some e
  else match to_tai_duration_of e with
       | None => None
       | Some tai => match from_tai_duration_to tai t with
                     | None => None
                     | Some d => Some (mkE d t)
                     end
       end.

Definition to_duration_in_time_scale (e : epoch) (t : timescale) : option duration :=
  option_map dur (to_time_scale e t).
Definition to_tai_duration (e : epoch) : option duration := to_duration_in_time_scale e TAI.

(* to_bdt_duration subtracts by hand: self.to_tai_duration() - BDT_REF_EPOCH.to_tai_duration() *)
Definition to_bdt_duration (e : epoch) : option duration :=
  option_map (fun tai => dur_sub tai bdt_ref_tai) (to_tai_duration e).

(* ---- Epoch +/- Duration, Epoch - Epoch (ops.rs) ---- *)
Definition epoch_add (e : epoch) (d : duration) : epoch := mkE (dur_add (dur e) d) (scale e).
Definition epoch_sub (e : epoch) (d : duration) : epoch := mkE (dur_sub (dur e) d) (scale e).
Definition epoch_add_unit (e : epoch) (u : unit_t) : epoch := mkE (dur_add (dur e) (unit_mul_i64 u 1)) (scale e).
Definition epoch_sub_unit (e : epoch) (u : unit_t) : epoch := mkE (dur_sub (dur e) (unit_mul_i64 u 1)) (scale e).
Definition epoch_diff (a b : epoch) : option duration :=
  option_map (fun b' => dur_sub (dur a) (dur b')) (to_time_scale b (scale a)).

(* impl Ord / PartialEq for Epoch (ops.rs) *)
Definition epoch_cmp (a b : epoch) : option comparison :=
  if ts_eqb (scale a) (scale b) then Some (dur_cmp (dur a) (dur b))
  else match to_tai_duration a, to_tai_duration b with
       | Some x, Some y => Some (dur_cmp x y)
       | _, _ => None
       end.
Definition epoch_eqb (a b : epoch) : option bool :=
  option_map (fun c => match c with Eq => true | _ => false end) (epoch_cmp a b).
Definition epoch_min (a b : epoch) : option epoch :=
  option_map (fun c => match c with Lt => a | _ => b end) (epoch_cmp a b).
Definition epoch_max (a b : epoch) : option epoch :=
  option_map (fun c => match c with Gt => a | _ => b end) (epoch_cmp a b).

(* Epoch::floor/ceil/round delegate to the duration *)
Definition epoch_floor (e : epoch) (s : duration) := mkE (dur_floor (dur e) s) (scale e).
Definition epoch_ceil (e : epoch) (s : duration) := mkE (dur_ceil (dur e) s) (scale e).
Definition epoch_round (e : epoch) (s : duration) := mkE (dur_round (dur e) s) (scale e).

(* ---- GNSS week / time of week (initializers.rs:381, ops.rs:137) ---- *)
Definition from_time_of_week (week nanoseconds : Z) (t : timescale) : epoch :=
  let nanos := nanoseconds + week * WEEKDAY_DAYS_PER_WEEK_I128 * NANOSECONDS_PER_DAY in
  mkE (from_total_nanoseconds nanos) t.
Definition to_time_of_week (e : epoch) : Z * Z :=
  let total := total_nanoseconds (dur e) in
  let weeks := tdiv (tdiv total NANOSECONDS_PER_DAY) WEEKDAY_DAYS_PER_WEEK_I128 in
  let nanoseconds := total - weeks * NANOSECONDS_PER_DAY * WEEKDAY_DAYS_PER_WEEK_I128 in
  (wrap_unsigned 32 weeks, wrap_unsigned 64 nanoseconds).

(* from_{gpst,qzsst,gst,bdt}_nanoseconds / to_nanoseconds_in_time_scale *)
Definition from_nanoseconds_in (n : Z) (t : timescale) : epoch := mkE (from_parts 0 n) t.
(* Some (Some n) = Ok(n); Some None = Err(Overflow); None = float scale involved *)
Definition to_nanoseconds_in_time_scale (e : epoch) (t : timescale) : option (option Z) :=
  option_map (fun d => if centuries d =? 0 then Some (nanoseconds d) else None) (to_duration_in_time_scale e t).
