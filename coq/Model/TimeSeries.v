(* Executable model of src/timeseries.rs: the five-field iterator state machine. *)
From Coq Require Import ZArith Bool List.
From HF Require Import MachInt GenConsts Duration Epoch.
Import ListNotations.
Open Scope Z_scope.

Record timeseries := mkTS { ts_start : epoch; ts_duration : duration; ts_step : duration; ts_cur : Z; ts_incl : bool }.

(* TimeSeries::exclusive / inclusive: duration = end - start (Sub for Epoch) *)
Definition ts_new (start end_ : epoch) (step : duration) (incl : bool) : option timeseries :=
  option_map (fun d => mkTS start d step 0 incl) (epoch_diff end_ start).

(* Iterator::next: next_offset = cur * step (Mul<i64> for Duration via i64 * Duration) *)
Definition ts_next (s : timeseries) : option epoch * timeseries :=
  let next_offset := dur_mul_i64 (ts_step s) (ts_cur s) in
  if (negb (ts_incl s) && dur_geb next_offset (ts_duration s)) || (ts_incl s && dur_gtb next_offset (ts_duration s))
  then (None, s)
  else (Some (epoch_add (ts_start s) next_offset), mkTS (ts_start s) (ts_duration s) (ts_step s) (ts_cur s + 1) (ts_incl s)).

(* n calls of next, collecting what they yield *)
Fixpoint ts_run (n : nat) (s : timeseries) : list (option epoch) * timeseries :=
  match n with
  | O => ([], s)
  | S n' => let '(o, s') := ts_next s in let '(l, s'') := ts_run n' s' in (o :: l, s'')
  end.
