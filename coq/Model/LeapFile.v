(* Executable model of LeapSecondsFile::from_path after the file has been read (src/epoch/leap_seconds_file.rs):
   contents.lines(), '#' comment lines, split_whitespace, lexical_core::parse::<u64> / ::<u8>. The result is a provider
   for Epoch.leap_seconds_with. std::fs (open / read_to_string) is outside the model. *)
From Coq Require Import ZArith Bool List.
From HF Require Import MachInt GenUnicode Text Duration Epoch TextFmt TextParse.
Import ListNotations.
Open Scope Z_scope.

(* str::lines(): pieces between '\n', the piece after a final '\n' dropped, one trailing '\r' removed from each *)
Definition strip_cr (l : str) : str := match rev l with 13 :: r => rev r | _ => l end.
Definition lines (s : str) : list str :=
  let pieces := split_on 10 s [] in
  let pieces := match rev pieces with [] :: r => rev r | _ => pieces end in
  map strip_cr pieces.
(* str::split_whitespace(): maximal runs of non-White_Space characters *)
Fixpoint split_ws (s : str) (cur : str) : list str :=
  match s with
  | [] => match cur with [] => [] | _ => [rev cur] end
  | c :: r => if is_whitespace c then (match cur with [] => split_ws r [] | _ => rev cur :: split_ws r [] end)
              else split_ws r (c :: cur)
  end.
Definition lex_u64 := lex_int false 0 U64_MAX.
Definition lex_u8 := lex_int false 0 255.

Inductive file_res := FileOk (p : provider) | FileErr (k : Z).
Fixpoint parse_lines (ls : list str) (acc : provider) : file_res :=
  match ls with
  | [] => FileOk (rev acc)
  | l :: rest =>
      match l with
      | [] => parse_lines rest acc                       (* line.chars().next() is None *)
      | 35 :: _ => parse_lines rest acc                  (* '#' *)
      | _ =>
          match split_ws l [] with
          | f0 :: f1 :: _ =>
              match lex_u64 f0 with
              | None => FileErr E_ValueError
              | Some ts => match lex_u8 f1 with
                           | None => FileErr E_ValueError
                           | Some d => parse_lines rest ((ts, d) :: acc)
                           end
              end
          | _ => FileErr E_UnknownFormat
          end
      end
  end.
Definition parse_leap_file (content : str) : file_res := parse_lines (lines content) [].
