(* Executable model of the ET / TDB arms of Epoch::to_time_scale (src/epoch/mod.rs: delta_et_tai, inner_g, the four
   ET / TDB arms) in IEEE binary64 (Flocq), parametrised by the one operation that is not IEEE-specified: libm's sin.
   `sin64` is a Section variable: nothing is assumed about it in this file; the correspondence run instantiates it with
   the platform's sin (the same libm the Rust code calls) and compares bit for bit. Literals come from Gen/GenEtTdb.v,
   regenerated from the source on every run together with a check of the code around them. *)
From Coq Require Import ZArith Bool List.
From HF Require Import MachInt GenConsts GenEtTdb Duration F64 DurationF64 Epoch.
Import ListNotations.
Open Scope Z_scope.

Section WithSin.
Variable sin64 : f64 -> f64.

Definition c_m0 := f_of_bits NAIF_M0_bits.  Definition c_m1 := f_of_bits NAIF_M1_bits.
Definition c_eb := f_of_bits NAIF_EB_bits.  Definition c_k := f_of_bits NAIF_K_bits.
Definition c_g0 := f_of_bits G0_bits.       Definition c_g1 := f_of_bits G1_bits.
Definition c_gamp := f_of_bits G_AMP_bits.  Definition c_gecc := f_of_bits G_ECC_bits.
Definition tt_offset_dur : duration := unit_mul_i64 Millisecond TT_OFFSET_MS.
Definition tt_offset_s : f64 := to_seconds tt_offset_dur.            (* (TT_OFFSET_MS * Unit::Millisecond).to_seconds() *)

(* fn delta_et_tai(seconds) *)
Definition delta_et_tai (s : f64) : f64 :=
  let m := fadd c_m0 (fmul s c_m1) in
  let e := fadd m (fmul c_eb (sin64 m)) in
  fadd tt_offset_s (fmul c_k (sin64 e)).
(* fn inner_g(seconds) *)
Definition inner_g (s : f64) : f64 :=
  let g := fadd c_g0 (fmul c_g1 s) in
  fmul c_gamp (sin64 (fadd g (fmul c_gecc (sin64 g)))).

(* -NAIF_K * (NAIF_M0 + NAIF_M1 * s + NAIF_EB * (NAIF_M0 + NAIF_M1 * s).sin()).sin() *)
Definition et_step (s : f64) : f64 :=
  let m := fadd c_m0 (fmul c_m1 s) in
  fmul (fneg c_k) (sin64 (fadd m (fmul c_eb (sin64 m)))).
Fixpoint iter_add (n : nat) (s : f64) : f64 := match n with O => s | S k => iter_add k (fadd s (et_step s)) end.
Fixpoint iter_sub (n : nat) (s : f64) : f64 := match n with O => s | S k => iter_sub k (fsub s (et_step s)) end.
(* the TDB loop with its early exit *)
Fixpoint tdb_loop (n : nat) (s delta : f64) : f64 :=
  match n with
  | O => s
  | S k => let next := fsub s (inner_g s) in
           let new_delta := fabs (fsub next s) in
           if flt (fabs (fsub new_delta delta)) (f_of_bits TDB_TOL_bits) then s else tdb_loop k next new_delta
  end.

Definition j2000_offset : duration := prime_epoch_offset ET.

(* first match of to_time_scale: the TAI duration of an ET / TDB epoch *)
Definition et_to_tai (d : duration) : duration :=
  let s := iter_add ITER_FROM_ET (to_seconds d) in
  let delta := delta_et_tai (fsub s tt_offset_s) in
  dur_add (dur_sub d (unit_mul_f64 Second delta)) j2000_offset.
Definition tdb_to_tai (d : duration) : duration :=
  let gamma := inner_g (to_seconds d) in
  let delta := dur_add (unit_mul_f64 Second gamma) tt_offset_dur in
  dur_add (dur_sub d delta) (prime_epoch_offset TDB).
(* second match: from the TAI duration to ET / TDB *)
Definition tai_to_et (tai : duration) : duration :=
  let s := iter_sub ITER_TO_ET (to_seconds (dur_sub tai j2000_offset)) in
  let delta := delta_et_tai (fadd s tt_offset_s) in
  dur_sub (dur_add tai (unit_mul_f64 Second delta)) j2000_offset.
Definition tai_to_tdb (tai : duration) : duration :=
  let s := tdb_loop ITER_TO_TDB (to_seconds (dur_sub tai (prime_epoch_offset TDB))) (f_of_bits TDB_DELTA0_bits) in
  let gamma := inner_g (fadd s tt_offset_s) in
  let delta := dur_add (unit_mul_f64 Second gamma) tt_offset_dur in
  dur_sub (dur_add tai delta) (prime_epoch_offset TDB).

(* Epoch::to_time_scale for all nine scales *)
Definition to_tai_duration_all (e : epoch) : duration :=
  match scale e with
  | ET => et_to_tai (dur e)
  | TDB => tdb_to_tai (dur e)
  | _ => match to_tai_duration_of e with Some d => d | None => dur e end
  end.
Definition from_tai_duration_all (tai : duration) (t : timescale) : duration :=
  match t with
  | ET => tai_to_et tai
  | TDB => tai_to_tdb tai
  | _ => match from_tai_duration_to tai t with Some d => d | None => tai end
  end.
Definition to_time_scale_all (e : epoch) (t : timescale) : epoch :=
  if ts_eqb t (scale e) then e else mkE (from_tai_duration_all (to_tai_duration_all e) t) t.
(* impl Ord for Epoch with an ET / TDB operand: same scale -> the durations, otherwise both on the TAI axis *)
Definition epoch_cmp_all (a b : epoch) : comparison :=
  if ts_eqb (scale a) (scale b) then dur_cmp (dur a) (dur b)
  else dur_cmp (to_tai_duration_all a) (to_tai_duration_all b).
End WithSin.
