(* Specification of UTC <-> TAI from the IERS leap-seconds list shipped with the sources
   (data/leap-seconds.list, regenerated into GenLeap.IERS_FILE): a step function, and the
   reference dates/offsets of the uniform scales written out from the property text. *)
From Coq Require Import ZArith Bool List.
From HF Require Import GenLeap Civil.
Import ListNotations.
Open Scope Z_scope.

(* TAI-UTC in force at UTC count u (ns since 1900-01-01 UTC, leap seconds not counted):
   the delta of the last entry whose threshold is at or before u; 0 before the first *)
Fixpoint delta_at_utc (tbl : list (Z * Z)) (u : Z) (acc : Z) : Z :=
  match tbl with
  | [] => acc
  | (ts, d) :: rest => if ts * NS_PER_S <=? u then delta_at_utc rest u d else acc
  end.
Definition spec_delta_utc (u : Z) : Z := delta_at_utc IERS_FILE u 0.
Definition spec_utc2tai (u : Z) : Z := u + spec_delta_utc u * NS_PER_S.

(* on the TAI axis entry k is in force from ts_k + delta_{k-1} *)
Fixpoint delta_at_tai (tbl : list (Z * Z)) (t : Z) (acc : Z) : Z :=
  match tbl with
  | [] => acc
  | (ts, d) :: rest => if (ts + acc) * NS_PER_S <=? t then delta_at_tai rest t d else acc
  end.
Definition spec_delta_tai (t : Z) : Z := delta_at_tai IERS_FILE t 0.
Definition spec_tai2utc (t : Z) : Z := t - spec_delta_tai t * NS_PER_S.

(* the inserted intervals G_k = [ts_k + delta_{k-1}, ts_k + delta_k) on the TAI axis: TAI instants with
   no UTC count of their own (the code repeats the preceding second there) *)
Fixpoint in_gap_tbl (tbl : list (Z * Z)) (t : Z) (prev : Z) : bool :=
  match tbl with
  | [] => false
  | (ts, d) :: rest => (((ts + prev) * NS_PER_S <=? t) && (t <? (ts + d) * NS_PER_S)) || in_gap_tbl rest t d
  end.
Definition in_gap (t : Z) : bool := in_gap_tbl IERS_FILE t 0.

(* days on which second = 60 is a valid time of day: the day before an entry of the table *)
Definition leap_second_day (y m d : Z) : bool :=
  existsb (fun e => fst e =? (civil_days y m d + 1) * 86400) IERS_FILE.

(* ---- uniform scales (property C05), scale numbering as From<TimeScale> for u8 ----
   offset of the scale's zero from 1900-01-01T00:00:00 TAI, in ns: date of the zero in the scale itself
   plus how far the scale runs behind TAI *)
Definition spec_scale_zero_tai (id : Z) : option Z :=
  match id with
  | 0 => Some 0                                                            (* TAI: 1900-01-01 *)
  | 1 => Some (- 32184000000)                                              (* TT - TAI = 32.184 s *)
  | 5 | 8 => Some (civil_days 1980 1 6 * NS_PER_DAY + 19 * NS_PER_S)       (* GPST, QZSST *)
  | 6 => Some (civil_days 1999 8 22 * NS_PER_DAY + 19 * NS_PER_S)          (* GST *)
  | 7 => Some (civil_days 2006 1 1 * NS_PER_DAY + 33 * NS_PER_S)           (* BDT *)
  | _ => None
  end.
(* the instant (TAI ns since 1900-01-01) an (elapsed ns, scale) pair denotes; UTC through the table *)
Definition spec_instant (id : Z) (v : Z) : option Z :=
  match id with
  | 4 => Some (spec_utc2tai v)
  | _ => option_map (fun z => v + z) (spec_scale_zero_tai id)
  end.
(* where the calendar of each scale starts counting, as ns from 1900-01-01T00:00:00 in the scale itself *)
Definition spec_gregorian_zero (id : Z) : Z :=
  match id with
  | 2 | 3 => civil_days 2000 1 1 * NS_PER_DAY + 12 * 3600 * NS_PER_S       (* ET, TDB: J2000 noon *)
  | 5 | 8 => civil_days 1980 1 6 * NS_PER_DAY
  | 6 => civil_days 1999 8 22 * NS_PER_DAY
  | 7 => civil_days 2006 1 1 * NS_PER_DAY
  | _ => 0
  end.
