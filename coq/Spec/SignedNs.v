(* Specification vocabulary for durations: the signed nanosecond count and its clamp.
   Short on purpose: this is what the properties are stated against. *)
From Coq Require Import ZArith Bool.
From HF Require Import MachInt GenConsts Duration.
Open Scope Z_scope.

(* Spec constants are written out here, independently of the generated ones: a century is 36525 days
   of 86400 s of 10^9 ns.  Proofs/ ties the generated constants to these by closed lemmas. *)
Definition SNPC : Z := 36525 * 86400 * 1000000000.
Definition spec_unit_factor (u : unit_t) : Z :=
  match u with
  | Nanosecond => 1 | Microsecond => 1000 | Millisecond => 1000000 | Second => 1000000000
  | Minute => 60 * 1000000000 | Hour => 3600 * 1000000000 | Day => 86400 * 1000000000
  | Week => 7 * 86400 * 1000000000 | Century => SNPC
  end.

(* the signed nanosecond count a (centuries, nanoseconds) pair denotes *)
Definition val (d : duration) : Z := centuries d * SNPC + nanoseconds d.

Definition MINV : Z := -32768 * SNPC.
Definition MAXV : Z := 32768 * SNPC.
Definition clamp (z : Z) : Z := Z.max MINV (Z.min MAXV z).

(* the one observable form: 0 <= ns < NPC, except that MAX carries a full century *)
Definition canon (d : duration) : Prop :=
  -32768 <= centuries d <= 32767 /\ 0 <= nanoseconds d /\
  (nanoseconds d < SNPC \/ (centuries d = 32767 /\ nanoseconds d = SNPC)).
Definition canonb (d : duration) : bool :=
  (-32768 <=? centuries d) && (centuries d <=? 32767) && (0 <=? nanoseconds d) &&
  ((nanoseconds d <? SNPC) || ((centuries d =? 32767) && (nanoseconds d =? SNPC))).

(* spec-level results of the operations of C01/C02/C14, as counts *)
Definition spec_add (a b : Z) := clamp (a + b).
Definition spec_sub (a b : Z) := clamp (a - b).
Definition spec_neg (a : Z) := clamp (- a).
Definition spec_abs (a : Z) := clamp (Z.abs a).
Definition spec_mul (a k : Z) := clamp (a * k).
Definition spec_div (a k : Z) := clamp (Z.quot a k).
Definition spec_floor (d s : Z) : Z := if s =? 0 then 0 else clamp (d - d mod Z.abs s).
Definition spec_ceil (d s : Z) : Z := if s =? 0 then 0 else clamp (d - d mod Z.abs s + Z.abs s).
Definition spec_round (d s : Z) : Z :=
  if s =? 0 then 0 else
  let fl := d - d mod Z.abs s in
  if 2 * (d - fl) <? Z.abs s then clamp fl else clamp (fl + Z.abs s).
