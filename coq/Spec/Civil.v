(* Specification of the proleptic Gregorian calendar, written independently of the code:
   year and month lengths by the 4/100/400 rule, the day count of a date by summation of those
   lengths, and (for execution) the standard closed form, proved equal to the summation in
   Proofs/CivilP.v.  Day 0 is 1900-01-01. *)
From Coq Require Import ZArith Bool List.
Import ListNotations.
Open Scope Z_scope.

Definition leap (y : Z) : bool := ((y mod 4 =? 0) && negb (y mod 100 =? 0)) || (y mod 400 =? 0).
Definition ylen (y : Z) : Z := if leap y then 366 else 365.
Definition mlen (y m : Z) : Z :=
  match m with
  | 1 => 31 | 2 => if leap y then 29 else 28 | 3 => 31 | 4 => 30 | 5 => 31 | 6 => 30
  | 7 => 31 | 8 => 31 | 9 => 30 | 10 => 31 | 11 => 30 | 12 => 31 | _ => 0
  end.

(* by summation: the definition whose correctness is evident *)
Fixpoint sum_ylen (a : Z) (n : nat) : Z := match n with O => 0 | S n' => ylen a + sum_ylen (a + 1) n' end.
Definition days_before_year (y : Z) : Z :=
  if 1900 <=? y then sum_ylen 1900 (Z.to_nat (y - 1900)) else - sum_ylen y (Z.to_nat (1900 - y)).
Fixpoint sum_mlen (y : Z) (k : nat) : Z := match k with O => 0 | S k' => sum_mlen y k' + mlen y (Z.of_nat k) end.
Definition civil_days_sum (y m d : Z) : Z := days_before_year y + sum_mlen y (Z.to_nat (m - 1)) + (d - 1).

(* closed form (days_from_civil), shifted so that 1900-01-01 is day 0 *)
Definition civil_days (y m d : Z) : Z :=
  let y' := if m <=? 2 then y - 1 else y in
  let era := y' / 400 in
  let yoe := y' mod 400 in
  let doy := (153 * (if 2 <? m then m - 3 else m + 9) + 2) / 5 + d - 1 in
  let doe := yoe * 365 + yoe / 4 - yoe / 100 + doy in
  era * 146097 + doe - 693901.

(* and its inverse (civil_from_days) *)
Definition civil_of_days (n : Z) : Z * Z * Z :=
  let z := n + 693901 in
  let era := z / 146097 in
  let doe := z mod 146097 in
  let yoe := (doe - doe / 1460 + doe / 36524 - doe / 146096) / 365 in
  let doy := doe - (365 * yoe + yoe / 4 - yoe / 100) in
  let mp := (5 * doy + 2) / 153 in
  let d := doy - (153 * mp + 2) / 5 + 1 in
  let m := if mp <? 10 then mp + 3 else mp - 9 in
  ((if m <=? 2 then yoe + era * 400 + 1 else yoe + era * 400), m, d).

Definition valid_date (y m d : Z) : Prop := 1 <= m <= 12 /\ 1 <= d <= mlen y m.
Definition valid_dateb (y m d : Z) : bool := (1 <=? m) && (m <=? 12) && (1 <=? d) && (d <=? mlen y m).

Definition NS_PER_S : Z := 1000000000.
Definition NS_PER_DAY : Z := 86400 * NS_PER_S.
(* nanoseconds from 1900-01-01T00:00:00 to the given civil date-time, no leap seconds *)
Definition civil_ns (y m d h mi s ns : Z) : Z :=
  ((civil_days y m d * 24 + h) * 60 + mi) * 60 * NS_PER_S + s * NS_PER_S + ns.

(* weekday of a day number: 1900-01-01 was a Monday; 0 = Monday .. 6 = Sunday *)
Definition weekday_of_day (n : Z) : Z := n mod 7.
