(* Specification pieces of the text properties that theorems refer to: the format string each predefined Format
   documents (C19) and the rendering of a Duration from its exact count (C11). Written from the property text and the
   documentation, not from the implementation. *)
From Coq Require Import ZArith Bool List.
From HF Require Import GenText Text Duration Epoch TextFmt.
Import ListNotations.
Open Scope Z_scope.

Definition predefined_by_index (k : Z) : format :=
  predefined (match k with 0 => FMT_ISO8601 | 1 => FMT_ISO8601_FLEX | 2 => FMT_RFC3339 | 3 => FMT_RFC3339_FLEX | 4 => FMT_ISO8601_DATE
              | 5 => FMT_ISO8601_ORDINAL | 6 => FMT_RFC2822 | 7 => FMT_RFC2822_LONG | _ => FMT_ISO8601_STD end).
Definition DOC_FORMAT (k : Z) : str :=
  let ymd_hms := [37;89;45;37;109;45;37;100;84;37;72;58;37;77;58;37;83] in   (* %Y-%m-%dT%H:%M:%S *)
  match k with
  | 0 => ymd_hms ++ [46;37;102;32;37;84]            (* .%f %T *)
  | 1 => ymd_hms ++ [46;37;102;63;32;37;84;63]      (* .%f? %T? *)
  | 2 => ymd_hms ++ [46;37;102;37;122]              (* .%f%z *)
  | 3 => ymd_hms ++ [46;37;102;63;37;122]           (* .%f?%z *)
  | 4 => [37;89;45;37;109;45;37;100]                (* %Y-%m-%d *)
  | 5 => [37;89;45;37;106]                          (* %Y-%j *)
  | 6 => [37;97;44;32;37;100;32;37;98;32;37;89;32;37;72;58;37;77;58;37;83]    (* %a, %d %b %Y %H:%M:%S *)
  | 7 => [37;65;44;32;37;100;32;37;66;32;37;89;32;37;72;58;37;77;58;37;83]    (* %A, %d %B %Y %H:%M:%S *)
  | _ => ymd_hms ++ [46;37;102;32]                  (* ISO8601_STD documents no string of its own: "the ISO8601 format without the
                                                       time scale", i.e. ISO8601 with its last token removed: .%f followed by the space *)
  end.
(* spec of Duration's Display *)
Definition spec_display_duration (v : Z) : str :=
  if v =? 0 then [48; 32; 110; 115] else
  let a := Z.abs v in
  let comps := [(a / 86400000000000, if 1 <? a / 86400000000000 then [100;97;121;115] else [100;97;121]);
                (a / 3600000000000 mod 24, [104]); (a / 60000000000 mod 60, [109;105;110]); (a / 1000000000 mod 60, [115]);
                (a / 1000000 mod 1000, [109;115]); (a / 1000 mod 1000, [956;115]); (a mod 1000, [110;115])] in
  let parts := map (fun p => fmt_int 0 (fst p) ++ [32] ++ snd p) (filter (fun p => 0 <? fst p) comps) in
  (if v <? 0 then [45] else []) ++
  match parts with [] => [] | p :: r => p ++ flat_map (fun q => 32 :: q) r end.


(* the text of the property: YYYY-MM-DDTHH:MM:SS, nine fractional digits only when non-zero, then the scale name *)
Definition spec_scale_name (t : timescale) : str :=
  match t with TAI => [84;65;73] | TT => [84;84] | ET => [69;84] | TDB => [84;68;66] | UTC => [85;84;67] | GPST => [71;80;83;84]
             | GST => [71;83;84] | BDT => [66;68;84] | QZSST => [81;90;83;83;84] end.
Definition spec_epoch_text (y m d h mi s ns : Z) (t : timescale) : str :=
  fmt_int 4 y ++ [45] ++ fmt_int 2 m ++ [45] ++ fmt_int 2 d ++ [84] ++ fmt_int 2 h ++ [58] ++ fmt_int 2 mi ++ [58] ++ fmt_int 2 s ++
  (if ns =? 0 then [] else [46] ++ fmt_int 9 ns) ++ [32] ++ spec_scale_name t.

(* ---- C19: what a format prints, item by item ---- *)
(* what one item prints, from the Gregorian fields of the epoch in its own scale: None = the token prints nothing (an optional
   token whose value is zero / UTC), in which case the separators held back before it are dropped as well *)
Definition spec_item_text (e : epoch) (off : duration) (f : Z * Z * Z * Z * Z * Z * Z) (wd : Z) (it : item) : option (option str) :=
  let '(y, mm, dd, hh, mi, s, ns) := f in
  let t := TextFmt.token it in
  if t =? 0 then Some (Some (fmt_int 4 y)) else if t =? 1 then Some (Some (fmt_int 2 y))
  else if t =? 2 then Some (Some (fmt_int 2 mm)) else if t =? 3 then Some (Some (fmt_int 2 dd))
  else if t =? 4 then Some (Some (fmt_int 2 hh)) else if t =? 5 then Some (Some (fmt_int 2 mi)) else if t =? 6 then Some (Some (fmt_int 2 s))
  else if t =? 7 then Some (if negb (optional it) || (0 <? ns) then Some (fmt_int 9 ns) else None)
  else if t =? 8 then Some (Some (render_offset off))
  else if t =? 10 then Some (if negb (optional it) || negb (ts_eqb (scale e) UTC) then Some (ts_name (scale e)) else None)
  else if t =? 13 then Some (Some (weekday_long wd)) else if t =? 14 then Some (Some (weekday_short wd))
  else if t =? 16 then Some (Some (month_long mm)) else if t =? 17 then Some (Some (month_short mm))
  else None.     (* %j, %J, %w, offset minutes: outside this theorem *)

(* the whole output: each item's text preceded by the separators of the item before it, those separators and the text dropped
   together when an optional token prints nothing; the separators of the last item are never printed *)
Fixpoint spec_render_items (e : epoch) (off : duration) (f : Z * Z * Z * Z * Z * Z * Z) (wd : Z) (prev : option item) (items : list item) : option str :=
  match items with
  | [] => Some []
  | it :: rest =>
      match spec_item_text e off f wd it, spec_render_items e off f wd (Some it) rest with
      | Some (Some x), Some r => Some (write_sep prev ++ x ++ r)
      | Some None, Some r => Some r
      | _, _ => None
      end
  end.
