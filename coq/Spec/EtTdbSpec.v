(* Specification of ET and TDB (C07), written from the property text and the NAIF leap-second kernel, not from the code.
   Two forms of the same closed forms:
   - over the reals (for theorems: Lipschitz constants, monotonicity, order preservation within tolerance);
   - an executable evaluator in 10^-36 fixed point (for the correspondence run), whose sine is a range-reduced Taylor
     polynomial. The evaluator's accuracy (about 10^-30 s) is not proved; it is part of the trusted base of the
     correspondence side only (DESIGN.md). *)
From Coq Require Import ZArith Reals.
Open Scope Z_scope.

(* ---------------- executable evaluator ---------------- *)
Definition SC : Z := 10 ^ 36.
Definition PI_SC : Z := 3141592653589793238462643383279502884.     (* pi * 10^36, truncated *)
Definition mulsc (a b : Z) : Z := a * b / SC.
Fixpoint taylor (k : nat) (i : Z) (y2 term acc : Z) : Z :=
  match k with
  | O => acc
  | S k' => let term' := - (mulsc term y2) / ((2 * i) * (2 * i + 1)) in taylor k' (i + 1) y2 term' (acc + term')
  end.
Definition sin_sc (x : Z) : Z :=
  let tw := 2 * PI_SC in
  let r := x mod tw in
  let r := if PI_SC <? r then r - tw else r in                 (* (-pi, pi] *)
  let y := if PI_SC / 2 <? r then PI_SC - r else if r <? - (PI_SC / 2) then - PI_SC - r else r in   (* [-pi/2, pi/2] *)
  taylor 24 1 (mulsc y y) y y.

(* NAIF kernel constants (naif0012.txt DELTET/...) and the ESA TDB constants of the property text, as decimals *)
Definition dec (num : Z) (exp10 : Z) : Z := num * SC / 10 ^ exp10.   (* num * 10^-exp10, scaled *)
Definition DELTA_T_A := dec 32184 3.
Definition K_sc := dec 1657 6.   Definition EB_sc := dec 1671 5.
Definition M0_sc := dec 6239996 6.
Definition M1_num := 199096871.  Definition M1_exp := 15.          (* 1.99096871e-7 *)
Definition G0_sc := 357528 * PI_SC / 180000.                        (* 357.528 deg *)
Definition G1_num := 1990910018065731. Definition G1_exp := 22.     (* 1.990910018065731e-7 rad/s *)
Definition GAMP_sc := dec 1658 6. Definition GECC_sc := dec 167 4.

(* ET - TAI and TDB - TAI at t (scaled seconds past J2000) *)
Definition delta_et_sc (t : Z) : Z :=
  let m := M0_sc + t * M1_num / 10 ^ M1_exp in
  let e := m + mulsc EB_sc (sin_sc m) in
  DELTA_T_A + mulsc K_sc (sin_sc e).
Definition delta_tdb_sc (t : Z) : Z :=
  let g := G0_sc + t * G1_num / 10 ^ G1_exp in
  DELTA_T_A + mulsc GAMP_sc (sin_sc (g + mulsc GECC_sc (sin_sc g))).
(* t is measured in the scale itself: solve t = t_tai + delta(t) (a contraction with factor < 4e-10) *)
Fixpoint fixpoint (delta : Z -> Z) (n : nat) (t0 t : Z) : Z :=
  match n with O => t | S k => fixpoint delta k t0 (t0 + delta t) end.
Definition J2000_NS : Z := 3155716800 * 10 ^ 9.       (* 2000-01-01 12:00:00 = 36 524.5 days after 1900-01-01 00:00:00 *)
Definition NS_SC : Z := 10 ^ 27.                      (* one nanosecond, scaled *)
(* the scaled ET (or TDB) count of the instant whose TAI count since 1900 is tai_ns *)
Definition et_of_tai_sc (delta : Z -> Z) (tai_ns : Z) : Z :=
  let t0 := (tai_ns - J2000_NS) * NS_SC in fixpoint delta 8 t0 (t0 + DELTA_T_A).
Definition tai_of_et_sc (delta : Z -> Z) (et_ns : Z) : Z :=
  let t := et_ns * NS_SC in t - delta t + J2000_NS * NS_SC.
(* [lo, hi] in ns: everything within tol ns of the scaled value x *)
Definition ns_range (x tol : Z) : Z * Z := (x / NS_SC - tol, x / NS_SC + 1 + tol).

(* ---------------- the same closed forms over the reals ---------------- *)
Open Scope R_scope.
Definition K_R := 1657 / 1000000.  Definition EB_R := 1671 / 100000.
Definition M0_R := 6239996 / 1000000.  Definition M1_R := 199096871 / 1000000000000000.
Definition M_R (t : R) := M0_R + M1_R * t.
Definition delta_et_R (t : R) : R := 32184 / 1000 + K_R * sin (M_R t + EB_R * sin (M_R t)).
Definition G1_R := 1990910018065731 / 10000000000000000000000.
Definition g_R (t : R) := 357528 / 1000 * (PI / 180) + G1_R * t.
Definition delta_tdb_R (t : R) : R := 32184 / 1000 + 1658 / 1000000 * sin (g_R t + 167 / 10000 * sin (g_R t)).
