(* Strings as lists of Unicode scalar values; decimal rendering as Rust's integer Display does it. *)
From Coq Require Import ZArith Bool List.
Import ListNotations.
Open Scope Z_scope.

Definition str := list Z.

Fixpoint pos_digits (fuel : nat) (z : Z) (acc : list Z) : list Z :=
  match fuel with
  | O => acc
  | S f => if z <? 10 then z :: acc else pos_digits f (z / 10) (z mod 10 :: acc)
  end.
(* digits of |z|, most significant first; the bit length bounds the number of digits *)
Definition z_digits (z : Z) : list Z := pos_digits (S (Z.to_nat (Z.log2 (Z.abs z + 1)))) (Z.abs z) [].
Definition digit_chars (z : Z) : str := map (fun d => 48 + d) (z_digits z).

(* `{:0w}` on an integer: the sign counts toward the width; `{}` is width 0 *)
Definition fmt_int (width : nat) (z : Z) : str :=
  let ds := digit_chars z in
  if z <? 0 then 45 :: repeat 48 (width - 1 - length ds) ++ ds
  else repeat 48 (width - length ds) ++ ds.

Fixpoint str_eqb (a b : str) : bool :=
  match a, b with
  | [], [] => true
  | x :: a', y :: b' => (x =? y) && str_eqb a' b'
  | _, _ => false
  end.
Definition nth_str (n : Z) (l : list str) : str := nth (Z.to_nat n) l [].
