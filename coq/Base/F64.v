(* binary64 arithmetic as Rust's f64 does it, on top of Flocq's BinarySingleNaN (53, 1024):
   bit patterns <-> floats, + * / with round-to-nearest-even, comparisons (NaN compares false),
   integer <-> float casts with Rust's semantics (`as`: int -> float rounds to nearest even,
   float -> int truncates toward zero, saturates, NaN -> 0). *)
From Coq Require Import ZArith Bool.
From Flocq Require Import Core.Core IEEE754.BinarySingleNaN.
Open Scope Z_scope.

Definition f64 := binary_float 53 1024.
Lemma Hp : FLX.Prec_gt_0 53. Proof. reflexivity. Qed.
Lemma Hpe : Prec_lt_emax 53 1024. Proof. reflexivity. Qed.

Definition f_of_Z (z : Z) : f64 := binary_normalize 53 1024 Hp Hpe mode_NE z 0 false.
Definition fmul (a b : f64) : f64 := Bmult (prec_gt_0_ := Hp) (prec_lt_emax_ := Hpe) mode_NE a b.
Definition fadd (a b : f64) : f64 := Bplus (prec_gt_0_ := Hp) (prec_lt_emax_ := Hpe) mode_NE a b.
Definition fsub (a b : f64) : f64 := Bminus (prec_gt_0_ := Hp) (prec_lt_emax_ := Hpe) mode_NE a b.
Definition fdiv (a b : f64) : f64 := Bdiv (prec_gt_0_ := Hp) (prec_lt_emax_ := Hpe) mode_NE a b.
Definition fneg (a : f64) : f64 := Bopp a.
Definition fabs (a : f64) : f64 := Babs a.
Definition f_is_nan (a : f64) : bool := match a with B754_nan => true | _ => false end.
Definition f_is_inf (a : f64) : bool := match a with B754_infinity _ => true | _ => false end.
Definition f_sign (a : f64) : bool := match a with B754_zero s | B754_infinity s | B754_finite s _ _ _ => s | B754_nan => false end.
Definition flt (a b : f64) : bool := match Bcompare a b with Some Lt => true | _ => false end.
Definition fle (a b : f64) : bool := match Bcompare a b with Some Lt | Some Eq => true | _ => false end.
Definition fgt (a b : f64) : bool := match Bcompare a b with Some Gt => true | _ => false end.
Definition fge (a b : f64) : bool := match Bcompare a b with Some Gt | Some Eq => true | _ => false end.

(* float -> integer `as` cast into [lo, hi]: truncate toward zero, saturate, NaN -> 0 *)
Definition f_to_int (lo hi : Z) (a : f64) : Z :=
  match a with
  | B754_nan => 0
  | B754_infinity s => if s then lo else hi
  | _ => let t := Btrunc a in if t <? lo then lo else if hi <? t then hi else t
  end.

(* bit patterns *)
Definition f_of_bits (b : Z) : f64 :=
  let s := negb (b / 2 ^ 63 =? 0) in
  let e := (b / 2 ^ 52) mod 2 ^ 11 in
  let m := b mod 2 ^ 52 in
  if e =? 2047 then (if m =? 0 then B754_infinity s else B754_nan)
  else if e =? 0 then binary_normalize 53 1024 Hp Hpe mode_NE (if s then - m else m) (-1074) s
  else binary_normalize 53 1024 Hp Hpe mode_NE (if s then - (m + 2 ^ 52) else m + 2 ^ 52) (e - 1075) s.
Definition f_to_bits (a : f64) : Z :=
  match a with
  | B754_zero s => if s then 2 ^ 63 else 0
  | B754_infinity s => (if s then 2 ^ 63 else 0) + 2047 * 2 ^ 52
  | B754_nan => 2047 * 2 ^ 52 + 2 ^ 51
  | B754_finite s m e _ =>
      (if s then 2 ^ 63 else 0) +
      (if Z.pos m <? 2 ^ 52 then Z.pos m else (e + 1075) * 2 ^ 52 + (Z.pos m - 2 ^ 52))
  end.
