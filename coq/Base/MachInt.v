(* Machine-integer vocabulary: Rust integer semantics over Z. *)
From Coq Require Import ZArith Bool Lia.
Open Scope Z_scope.

Definition I8_MIN := -128.            Definition I8_MAX := 127.
Definition U8_MAX := 255.
Definition I16_MIN := -32768.         Definition I16_MAX := 32767.
Definition U16_MAX := 65535.
Definition I32_MIN := -2147483648.    Definition I32_MAX := 2147483647.
Definition U32_MAX := 4294967295.
Definition I64_MIN := -9223372036854775808.
Definition I64_MAX := 9223372036854775807.
Definition U64_MAX := 18446744073709551615.
Definition I128_MIN := -170141183460469231731687303715884105728.
Definition I128_MAX := 170141183460469231731687303715884105727.

Definition in_range (lo hi x : Z) : Prop := lo <= x <= hi.
Definition in_rangeb (lo hi x : Z) : bool := (lo <=? x) && (x <=? hi).
Definition in_i8 x := in_range I8_MIN I8_MAX x.
Definition in_u8 x := in_range 0 U8_MAX x.
Definition in_i16 x := in_range I16_MIN I16_MAX x.
Definition in_i32 x := in_range I32_MIN I32_MAX x.
Definition in_u32 x := in_range 0 U32_MAX x.
Definition in_i64 x := in_range I64_MIN I64_MAX x.
Definition in_u64 x := in_range 0 U64_MAX x.
Definition in_i128 x := in_range I128_MIN I128_MAX x.

(* checked_* : None on overflow *)
Definition checked (lo hi x : Z) : option Z := if in_rangeb lo hi x then Some x else None.
(* saturating_* *)
Definition saturate (lo hi x : Z) : Z := if x <? lo then lo else if hi <? x then hi else x.
(* `as` casts between integer types: two's-complement wrap *)
Definition wrap_signed (bits x : Z) : Z :=
  let m := 2 ^ bits in let r := x mod m in if r <? 2 ^ (bits - 1) then r else r - m.
Definition wrap_unsigned (bits x : Z) : Z := x mod 2 ^ bits.

(* Rust `/` and `%` on integers truncate toward zero *)
Definition tdiv (a b : Z) : Z := Z.quot a b.
Definition trem (a b : Z) : Z := Z.rem a b.
(* div_euclid / rem_euclid: remainder in [0, |b|) *)
Definition rem_euclid (a b : Z) : Z := a mod Z.abs b.
Definition div_euclid (a b : Z) : Z := (a - rem_euclid a b) / b.

Lemma rem_euclid_pos a b : 0 < b -> rem_euclid a b = a mod b.
Proof. intros H. unfold rem_euclid. rewrite Z.abs_eq by lia. reflexivity. Qed.
Lemma div_euclid_pos a b : 0 < b -> div_euclid a b = a / b.
Proof.
  intros H. unfold div_euclid. rewrite rem_euclid_pos by assumption.
  pose proof (Z.div_mod a b ltac:(lia)) as E.
  replace (a - a mod b) with (a / b * b) by lia. apply Z.div_mul. lia.
Qed.
Lemma rem_euclid_bound a b : b <> 0 -> 0 <= rem_euclid a b < Z.abs b.
Proof. intros H. unfold rem_euclid. apply Z.mod_pos_bound. lia. Qed.
Lemma div_rem_euclid a b : b <> 0 -> a = b * div_euclid a b + rem_euclid a b.
Proof.
  intros H. unfold div_euclid.
  assert (D : (b | a - rem_euclid a b)).
  { unfold rem_euclid. destruct (Z.abs_spec b) as [[_ ->]|[_ ->]].
    - exists (a / b). pose proof (Z.div_mod a b H). lia.
    - exists (- (a / - b)). pose proof (Z.div_mod a (-b) ltac:(lia)). lia. }
  destruct D as [k Hk]. rewrite Hk. rewrite Z.div_mul by assumption. lia.
Qed.
