(* Outcome of a Rust call that may panic; Result/Option stay ordinary sums inside Ok. *)
Inductive panic_kind := POverflow | PSlice | PIndex | PUnwrap | PTodo | PAssert | PDivZero | PFuel.
Inductive res (A : Type) := Ok (a : A) | Panic (k : panic_kind).
Arguments Ok {A}. Arguments Panic {A}.
Definition rbind {A B} (x : res A) (f : A -> res B) : res B :=
  match x with Ok a => f a | Panic k => Panic k end.
Definition rmap {A B} (f : A -> B) (x : res A) : res B :=
  match x with Ok a => Ok (f a) | Panic k => Panic k end.
Notation "'let!' x ':=' e 'in' k" := (rbind e (fun x => k)) (at level 200, x pattern, right associativity).
Definition is_ok {A} (x : res A) : bool := match x with Ok _ => true | Panic _ => false end.
