(* Real-analysis facts about the closed forms of C07 (Spec/EtTdbSpec.v): the periodic terms are Lipschitz with a constant
   below 4e-10, so instant -> ET (TDB) count is strictly increasing, its inverse is unique, evaluating the periodic term
   at a time that is off by up to 10 ms changes it by at most 0.004 ns, and any computed conversion that stays within
   30 ns of the closed form preserves the order of instants more than 100 ns apart. *)
From Coq Require Import Reals Lra.
From HF Require Import EtTdbSpec.
Open Scope R_scope.

Lemma Rabs_le_inv x y : Rabs x <= y -> - y <= x <= y.
Proof. intros H. unfold Rabs in H. destruct (Rcase_abs x); lra. Qed.

Lemma sin_lip_lt a b : a < b -> Rabs (sin b - sin a) <= Rabs (b - a).
Proof.
  intros Hab.
  destruct (MVT_cor2 sin cos a b Hab) as [c [Heq Hc]].
  - intros; apply derivable_pt_lim_sin.
  - rewrite Heq, Rabs_mult. rewrite <- (Rmult_1_l (Rabs (b - a))) at 2.
    apply Rmult_le_compat_r; [apply Rabs_pos|]. apply Rabs_le. pose proof (COS_bound c). lra.
Qed.
Lemma sin_lip a b : Rabs (sin a - sin b) <= Rabs (a - b).
Proof.
  destruct (Rtotal_order a b) as [H|[->|H]].
  - rewrite (Rabs_minus_sym (sin a)), (Rabs_minus_sym a). now apply sin_lip_lt.
  - rewrite !Rminus_eq_0, Rabs_R0; lra.
  - now apply sin_lip_lt.
Qed.

(* amp * sin (p t + ecc * sin (p t)) with p affine of slope w is Lipschitz with constant amp * (1 + ecc) * w *)
Section Periodic.
Variables amp ecc w p0 : R.
Hypothesis Hamp : 0 <= amp.  Hypothesis Hecc : 0 <= ecc.  Hypothesis Hw : 0 <= w.
Let p (t : R) := p0 + w * t.
Let term (t : R) := amp * sin (p t + ecc * sin (p t)).
Lemma term_lip a b : Rabs (term a - term b) <= amp * (1 + ecc) * w * Rabs (a - b).
Proof.
  unfold term.
  replace (amp * sin (p a + ecc * sin (p a)) - amp * sin (p b + ecc * sin (p b)))
    with (amp * (sin (p a + ecc * sin (p a)) - sin (p b + ecc * sin (p b)))) by ring.
  rewrite Rabs_mult, (Rabs_pos_eq amp Hamp).
  assert (Hp : Rabs (p a - p b) = w * Rabs (a - b)).
  { unfold p. replace (p0 + w * a - (p0 + w * b)) with (w * (a - b)) by ring. rewrite Rabs_mult, (Rabs_pos_eq w Hw). reflexivity. }
  pose proof (sin_lip (p a + ecc * sin (p a)) (p b + ecc * sin (p b))) as H1.
  pose proof (sin_lip (p a) (p b)) as H2.
  assert (H3 : Rabs (p a + ecc * sin (p a) - (p b + ecc * sin (p b))) <= Rabs (p a - p b) + ecc * Rabs (sin (p a) - sin (p b))).
  { replace (p a + ecc * sin (p a) - (p b + ecc * sin (p b))) with ((p a - p b) + ecc * (sin (p a) - sin (p b))) by ring.
    eapply Rle_trans; [apply Rabs_triang|]. rewrite Rabs_mult, (Rabs_pos_eq ecc Hecc). lra. }
  assert (H4 : ecc * Rabs (sin (p a) - sin (p b)) <= ecc * Rabs (p a - p b)) by (apply Rmult_le_compat_l; assumption).
  assert (H5 : Rabs (sin (p a + ecc * sin (p a)) - sin (p b + ecc * sin (p b))) <= (1 + ecc) * (w * Rabs (a - b))) by (rewrite <- Hp; lra).
  replace (amp * (1 + ecc) * w * Rabs (a - b)) with (amp * ((1 + ecc) * (w * Rabs (a - b)))) by ring.
  apply Rmult_le_compat_l; assumption.
Qed.
End Periodic.

Definition L_ET : R := K_R * (1 + EB_R) * M1_R.
Definition L_TDB : R := 1658 / 1000000 * (1 + 167 / 10000) * G1_R.
Lemma L_ET_small : 0 <= L_ET < 4 / 10000000000.
Proof. unfold L_ET, K_R, EB_R, M1_R. lra. Qed.
Lemma L_TDB_small : 0 <= L_TDB < 4 / 10000000000.
Proof. unfold L_TDB, G1_R. lra. Qed.

Theorem delta_et_lipschitz a b : Rabs (delta_et_R a - delta_et_R b) <= L_ET * Rabs (a - b).
Proof.
  unfold delta_et_R, M_R, L_ET.
  match goal with |- Rabs ?x <= _ => replace x with (K_R * sin (M0_R + M1_R * a + EB_R * sin (M0_R + M1_R * a)) - K_R * sin (M0_R + M1_R * b + EB_R * sin (M0_R + M1_R * b))) by ring end.
  apply (term_lip K_R EB_R M1_R M0_R); unfold K_R, EB_R, M1_R; lra.
Qed.
Theorem delta_tdb_lipschitz a b : Rabs (delta_tdb_R a - delta_tdb_R b) <= L_TDB * Rabs (a - b).
Proof.
  unfold delta_tdb_R, g_R, L_TDB.
  set (p0 := 357528 / 1000 * (PI / 180)).
  match goal with |- Rabs ?x <= _ => replace x with (1658 / 1000000 * sin (p0 + G1_R * a + 167 / 10000 * sin (p0 + G1_R * a)) - 1658 / 1000000 * sin (p0 + G1_R * b + 167 / 10000 * sin (p0 + G1_R * b))) by ring end.
  apply (term_lip (1658 / 1000000) (167 / 10000) G1_R p0); unfold G1_R; lra.
Qed.

(* generic consequences for any delta that is Lipschitz with constant L < 4e-10 *)
Section Consequences.
Variable delta : R -> R.  Variable L : R.
Hypothesis HL : 0 <= L < 4 / 10000000000.
Hypothesis Hlip : forall a b, Rabs (delta a - delta b) <= L * Rabs (a - b).
Let F (t : R) := t + delta t.      (* reading in the scale of the instant whose scale-time is t ... as a function of t *)

Lemma F_increasing a b : a < b -> F a < F b.
Proof.
  intros H. unfold F. pose proof (Hlip b a) as H1. rewrite (Rabs_pos_eq (b - a)) in H1 by lra.
  assert (H2 : - (L * (b - a)) <= delta b - delta a) by (apply Rabs_le_inv in H1; lra).
  assert (L * (b - a) < 1 * (b - a)) by (apply Rmult_lt_compat_r; lra). lra.
Qed.
Lemma F_injective a b : F a = F b -> a = b.
Proof.
  intros H. destruct (Rtotal_order a b) as [Hlt|[Heq|Hgt]]; [|exact Heq|].
  - pose proof (F_increasing a b Hlt). lra.
  - pose proof (F_increasing b a Hgt). lra.
Qed.
(* the gap between two images is at least (1 - L) times the gap between the arguments *)
Lemma F_gap a b : a <= b -> (1 - L) * (b - a) <= F b - F a.
Proof.
  intros H. unfold F. pose proof (Hlip b a) as H1. rewrite (Rabs_pos_eq (b - a)) in H1 by lra.
  apply Rabs_le_inv in H1. lra.
Qed.
(* any computed conversion within tol of F preserves the order of arguments more than 100 ns apart when tol <= 30 ns *)
Lemma order_preserved (ca cb a b : R) :
  Rabs (ca - F a) <= 30 / 1000000000 -> Rabs (cb - F b) <= 30 / 1000000000 -> 100 / 1000000000 < b - a -> ca < cb.
Proof.
  intros Ha Hb Hgap. pose proof (F_gap a b ltac:(lra)) as G.
  apply Rabs_le_inv in Ha. apply Rabs_le_inv in Hb.
  assert ((1 - L) * (b - a) > (1 - 4 / 10000000000) * (100 / 1000000000)).
  { apply Rlt_gt. apply Rle_lt_trans with ((1 - L) * (100 / 1000000000)).
    - apply Rmult_le_compat_r; lra.
    - apply Rmult_lt_compat_l; lra. }
  lra.
Qed.
(* evaluating the periodic term at a time off by up to 10 ms (TT versus ET / TDB seconds differ by < 2 ms) moves it by at most 0.004 ns;
   a whole second moves it by at most 0.4 ns: `t` has to be the scale's own seconds past J2000, TAI seconds (32 s off) would not do *)
Lemma delta_insensitive a b : Rabs (a - b) <= 1 / 100 -> Rabs (delta a - delta b) <= 4 / 1000000000000.
Proof.
  intros H. eapply Rle_trans; [apply Hlip|].
  apply Rle_trans with (L * (1 / 100)); [apply Rmult_le_compat_l; lra|]. lra.
Qed.
(* F reflects the order as well, and stretches a gap by at most 1 + L *)
Lemma F_reflects a b : F a < F b -> a < b.
Proof.
  intros H. destruct (Rtotal_order a b) as [Hlt|[Heq|Hgt]]; [exact Hlt| |].
  - subst b. lra.
  - pose proof (F_increasing b a Hgt). lra.
Qed.
Lemma F_gap_upper a b : a <= b -> F b - F a <= (1 + L) * (b - a).
Proof.
  intros H. unfold F. pose proof (Hlip b a) as H1. rewrite (Rabs_pos_eq (b - a)) in H1 by lra.
  apply Rabs_le_inv in H1. lra.
Qed.
End Consequences.

(* an epoch given in one of the two scales and read in the other: the instants a, b are those whose readings in the source scale are
   F1 a, F1 b; conversions computed within 30 ns of the target readings F2 a, F2 b keep the order of source readings more than 100 ns apart *)
Section Chain.
Variable d1 d2 : R -> R.  Variable L1 L2 : R.
Hypothesis HL1 : 0 <= L1 < 4 / 10000000000.  Hypothesis HL2 : 0 <= L2 < 4 / 10000000000.
Hypothesis Hlip1 : forall a b, Rabs (d1 a - d1 b) <= L1 * Rabs (a - b).
Hypothesis Hlip2 : forall a b, Rabs (d2 a - d2 b) <= L2 * Rabs (a - b).
Lemma chain_same_order a b : a + d1 a < b + d1 b <-> a + d2 a < b + d2 b.
Proof.
  split; intros H.
  - apply (F_increasing d2 L2 HL2 Hlip2). apply (F_reflects d1 L1 HL1 Hlip1). exact H.
  - apply (F_increasing d1 L1 HL1 Hlip1). apply (F_reflects d2 L2 HL2 Hlip2). exact H.
Qed.
Lemma chain_order_preserved (ca cb a b : R) :
  Rabs (ca - (a + d2 a)) <= 30 / 1000000000 -> Rabs (cb - (b + d2 b)) <= 30 / 1000000000 ->
  100 / 1000000000 < (b + d1 b) - (a + d1 a) -> ca < cb.
Proof.
  intros Ha Hb Hgap.
  assert (Hab : a < b) by (apply (F_reflects d1 L1 HL1 Hlip1); lra).
  pose proof (F_gap_upper d1 L1 Hlip1 a b ltac:(lra)) as U. cbv beta in U.
  pose proof (F_gap d2 L2 Hlip2 a b ltac:(lra)) as G. cbv beta in G.
  apply Rabs_le_inv in Ha. apply Rabs_le_inv in Hb.
  assert (H1 : L1 * (b - a) <= 4 / 10000000000 * (b - a)) by (apply Rmult_le_compat_r; lra).
  assert (H2 : L2 * (b - a) <= 4 / 10000000000 * (b - a)) by (apply Rmult_le_compat_r; lra).
  lra.
Qed.
End Chain.
