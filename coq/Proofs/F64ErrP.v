(* Rounding-error bounds for the float accessors (C18): Duration::to_seconds is within 2^-53 relative of the exact value
   plus 2^-51 s, for every canonical duration -- Flocq, error of each binary64 operation composed. *)
From Coq Require Import ZArith Bool Lia ZifyBool List Reals Lra.
From Flocq Require Import Core.Core IEEE754.BinarySingleNaN.
From Flocq Require Import Relative.
From HF Require Import MachInt MachIntP GenConsts GenUnits Duration Epoch F64 DurationF64 SignedNs DurationP F64P F64ExactP.
Import ListNotations.
Open Scope Z_scope.

Lemma bpow_neg k : 0 <= k -> bpow radix2 (- k) = (/ IZR (2 ^ k))%R.
Proof. intros H. rewrite bpow_opp. f_equal. symmetry. apply (IZR_Zpower radix2 k H). Qed.
Definition u53 : R := bpow radix2 (-53).
Definition tiny : R := bpow radix2 (-1075).
Lemma rnd_err x : (Rabs (round radix2 fexp64 (round_mode mode_NE) x - x) <= u53 * Rabs x + tiny)%R.
Proof.
  destruct (error_N_FLT radix2 (-1074) 53 ltac:(lia) (fun x => negb (Z.even x)) x) as (eps & eta & He & Ht & _ & Hr).
  change (round radix2 fexp64 (round_mode mode_NE) x) with (round radix2 (FLT_exp (-1074) 53) (Znearest (fun x => negb (Z.even x))) x).
  rewrite Hr. replace (x * (1 + eps) + eta - x)%R with (x * eps + eta)%R by ring.
  eapply Rle_trans; [apply Rabs_triang|]. rewrite Rabs_mult.
  change (/ 2 * bpow radix2 (- (53) + 1))%R with (/ 2 * bpow radix2 (-52))%R in He.
  assert (E1 : (/ 2 * bpow radix2 (-52) = u53)%R).
  { unfold u53. change (-52) with (1 + -53). rewrite bpow_plus. simpl bpow at 1. lra. }
  assert (E2 : (/ 2 * bpow radix2 (-1074) = tiny)%R).
  { unfold tiny. change (-1074) with (1 + -1075). rewrite bpow_plus. simpl bpow at 1. lra. }
  rewrite E1 in He. rewrite E2 in Ht.
  apply Rplus_le_compat; [|exact Ht]. rewrite Rmult_comm. apply Rmult_le_compat_r; [apply Rabs_pos|exact He].
Qed.

(* exact integer arithmetic on doubles *)
Lemma round_lt_emax z : (Rabs z <= IZR (2 ^ 60))%R -> (Rabs (round radix2 fexp64 (round_mode mode_NE) z) < bpow radix2 1024)%R.
Proof.
  intros H. pose proof (rnd_err z) as E.
  assert (B : (Rabs (round radix2 fexp64 (round_mode mode_NE) z) <= Rabs z + (u53 * Rabs z + tiny))%R).
  { replace (round radix2 fexp64 (round_mode mode_NE) z) with (z + (round radix2 fexp64 (round_mode mode_NE) z - z))%R by ring.
    eapply Rle_trans; [apply Rabs_triang|]. apply Rplus_le_compat_l. exact E. }
  assert (U : (u53 <= 1)%R) by (unfold u53; change 1%R with (bpow radix2 0); apply bpow_le; lia).
  assert (T : (tiny <= 1)%R) by (unfold tiny; change 1%R with (bpow radix2 0); apply bpow_le; lia).
  assert (P := Rabs_pos z).
  apply Rle_lt_trans with (IZR (2 ^ 62)).
  - apply Rle_trans with (Rabs z + (1 * Rabs z + 1))%R; [eapply Rle_trans; [exact B|]; apply Rplus_le_compat_l; apply Rplus_le_compat; [apply Rmult_le_compat_r; assumption|assumption]|].
    change (2 ^ 62) with (2 ^ 60 * 4). rewrite mult_IZR.
    assert (1 <= IZR (2 ^ 60))%R by (apply IZR_le; vm_compute; discriminate). lra.
  - change (bpow radix2 1024) with (IZR (2 ^ 1024)). apply IZR_lt. reflexivity.
Qed.
Lemma fmul_exact_int x y a b : is_finite x = true -> B2R x = IZR a -> is_finite y = true -> B2R y = IZR b ->
  Z.abs (a * b) <= 2 ^ 53 -> is_finite (fmul x y) = true /\ B2R (fmul x y) = IZR (a * b).
Proof.
  intros Fx Rx Fy Ry H. pose proof (Bmult_correct 53 1024 Hp Hpe mode_NE x y) as M.
  rewrite Rx, Ry, <- mult_IZR in M. rewrite (round_int _ H) in M.
  rewrite Rlt_bool_true in M.
  - destruct M as (M1 & M2 & _). split; [unfold fmul; rewrite M2, Fx, Fy; reflexivity|exact M1].
  - rewrite <- abs_IZR. apply Rle_lt_trans with (IZR (2 ^ 53)); [apply IZR_le; exact H|].
    change (bpow radix2 1024) with (IZR (2 ^ 1024)). apply IZR_lt. reflexivity.
Qed.
Lemma fadd_exact_int x y a b : is_finite x = true -> B2R x = IZR a -> is_finite y = true -> B2R y = IZR b ->
  Z.abs (a + b) <= 2 ^ 53 -> is_finite (fadd x y) = true /\ B2R (fadd x y) = IZR (a + b).
Proof.
  intros Fx Rx Fy Ry H. pose proof (Bplus_correct 53 1024 Hp Hpe mode_NE x y Fx Fy) as M.
  rewrite Rx, Ry, <- plus_IZR in M. rewrite (round_int _ H) in M.
  rewrite Rlt_bool_true in M.
  - destruct M as (M1 & M2 & _). split; [exact M2|exact M1].
  - rewrite <- abs_IZR. apply Rle_lt_trans with (IZR (2 ^ 53)); [apply IZR_le; exact H|].
    change (bpow radix2 1024) with (IZR (2 ^ 1024)). apply IZR_lt. reflexivity.
Qed.

(* the sub-second scale 1e-9 as a double: 4835703278458517 * 2^-82 *)
Definition scale_r : f64 := f_of_bits TO_SECONDS_SUBSEC_SCALE_BITS.
Definition is_pos_float (x : f64) (m : positive) (e : Z) : bool :=
  match x with B754_finite false m' e' _ => Pos.eqb m' m && (e' =? e) | _ => false end.
Lemma is_pos_float_sound x m e : is_pos_float x m e = true -> is_finite x = true /\ B2R x = (IZR (Zpos m) * bpow radix2 e)%R.
Proof.
  destruct x as [s|s| |s m' e' B]; try discriminate. destruct s; try discriminate. cbn [is_pos_float].
  intros H. apply andb_true_iff in H. destruct H as [H1 H2]. apply Pos.eqb_eq in H1. subst m'. assert (e' = e) by lia. subst e'.
  split; reflexivity.
Qed.
Lemma scale_real : is_finite scale_r = true /\ B2R scale_r = (IZR 4835703278458517 * bpow radix2 (-82))%R.
Proof. apply (is_pos_float_sound scale_r 4835703278458517 (-82)). vm_compute. reflexivity. Qed.
Lemma spc_int : is_int_float (f_of_bits SECONDS_PER_CENTURY_bits) 3155760000 = true. Proof. vm_compute. reflexivity. Qed.

(* the sub-second part: sub * 1e-9 computed as one product, within 2^-52 of the exact value *)
Lemma subsec_err sub : 0 <= sub < 1000000000 ->
  let subf := fmul (f_of_Z sub) scale_r in
  is_finite subf = true /\ (Rabs (B2R subf - IZR sub / 1000000000) <= bpow radix2 (-52))%R /\ (Rabs (B2R subf) <= 2)%R.
Proof.
  intros Hs subf.
  destruct (f_of_Z_exact sub) as [Rs Fs]; [change (2 ^ 53) with 9007199254740992; lia|].
  destruct scale_real as [Fr Rr].
  pose proof (Bmult_correct 53 1024 Hp Hpe mode_NE (f_of_Z sub) scale_r) as M.
  rewrite Rs, Rr in M.
  set (y := (IZR sub * (IZR 4835703278458517 * bpow radix2 (-82)))%R) in *.
  assert (S0 : (0 <= IZR sub <= 999999999)%R) by (split; apply IZR_le; lia).
  assert (B82 : (bpow radix2 (-82) = / IZR (2 ^ 82))%R).
  { change (-82) with (- (82)). apply (bpow_neg 82). lia. }
  assert (P82 : (IZR (2 ^ 82) = 4835703278458516698824704)%R) by (change (2 ^ 82) with 4835703278458516698824704; reflexivity).
  (* r is within 7e-26 of 1e-9 *)
  assert (Rr2 : (Rabs (IZR 4835703278458517 * bpow radix2 (-82) - / 1000000000) <= 7 / 100000000000000000000000000)%R).
  { rewrite B82, P82. apply Rabs_le. split; lra. }
  assert (Hy : (Rabs (y - IZR sub / 1000000000) <= 7 / 100000000000000000)%R).
  { unfold y. replace (IZR sub * (IZR 4835703278458517 * bpow radix2 (-82)) - IZR sub / 1000000000)%R
      with (IZR sub * (IZR 4835703278458517 * bpow radix2 (-82) - / 1000000000))%R by (unfold Rdiv; ring).
    rewrite Rabs_mult, (Rabs_pos_eq (IZR sub)) by lra.
    apply Rle_trans with (999999999 * (7 / 100000000000000000000000000))%R; [|lra].
    apply Rmult_le_compat; [lra|apply Rabs_pos|lra|exact Rr2]. }
  assert (Yb : (Rabs y <= 1 + 7 / 100000000000000000)%R).
  { replace y with ((y - IZR sub / 1000000000) + IZR sub / 1000000000)%R by ring.
    eapply Rle_trans; [apply Rabs_triang|]. rewrite (Rabs_pos_eq (IZR sub / 1000000000)) by (unfold Rdiv; apply Rmult_le_pos; lra). lra. }
  pose proof (rnd_err y) as E.
  assert (U : (u53 = / 9007199254740992)%R).
  { unfold u53. change (-53) with (- (53)). rewrite (bpow_neg 53) by lia. reflexivity. }
  assert (T : (tiny <= / 9007199254740992 / 1000)%R).
  { unfold tiny. apply Rle_trans with (bpow radix2 (-63)); [apply bpow_le; lia|].
    change (-63) with (- (63)). rewrite (bpow_neg 63) by lia. change (2 ^ 63) with 9223372036854775808.
    apply Rle_trans with (/ 9223372036854775808)%R; [right; reflexivity|].
    unfold Rdiv. rewrite <- Rinv_mult. apply Rinv_le_contravar; lra. }
  rewrite Rlt_bool_true in M.
  2:{ apply round_lt_emax. apply Rle_trans with 2%R; [lra|]. apply IZR_le. vm_compute. discriminate. }
  destruct M as (M1 & M2 & _).
  split; [unfold subf, fmul; rewrite M2, Fs, Fr; reflexivity|].
  fold (fmul (f_of_Z sub) scale_r) in M1. fold subf in M1. rewrite M1.
  assert (B52 : (bpow radix2 (-52) = 2 * / 9007199254740992)%R).
  { change (-52) with (1 + - (53)). rewrite bpow_plus, (bpow_neg 53) by lia. simpl bpow at 1. change (2 ^ 53) with 9007199254740992. reflexivity. }
  split.
  - replace (round radix2 fexp64 (round_mode mode_NE) y - IZR sub / 1000000000)%R
      with ((round radix2 fexp64 (round_mode mode_NE) y - y) + (y - IZR sub / 1000000000))%R by ring.
    eapply Rle_trans; [apply Rabs_triang|]. rewrite B52. rewrite U in E.
    assert (/ 9007199254740992 * Rabs y <= / 9007199254740992 * (1 + 7 / 100000000000000000))%R by (apply Rmult_le_compat_l; lra).
    lra.
  - replace (round radix2 fexp64 (round_mode mode_NE) y) with (y + (round radix2 fexp64 (round_mode mode_NE) y - y))%R by ring.
    eapply Rle_trans; [apply Rabs_triang|]. rewrite U in E.
    assert (/ 9007199254740992 * Rabs y <= / 9007199254740992 * (1 + 7 / 100000000000000000))%R by (apply Rmult_le_compat_l; lra).
    lra.
Qed.

(* Duration::to_seconds: within 2^-53 relative of the exact value, plus 2^-51 s *)
Theorem to_seconds_err d : canon d ->
  let X := (IZR (val d) / 1000000000)%R in
  is_finite (to_seconds d) = true /\ (Rabs (B2R (to_seconds d) - X) <= u53 * Rabs X + bpow radix2 (-51))%R.
Proof.
  destruct d as [c n]. unfold canon, val. cbn [centuries nanoseconds]. rewrite SNPC_lit. intros (Hc & Hn0 & Hn). cbv zeta. rewrite ?SNPC_lit.
  set (X := (IZR (c * 3155760000000000000 + n) / 1000000000)%R).
  assert (Hn' : 0 <= n <= 3155760000000000000) by lia.
  unfold to_seconds. cbn [centuries nanoseconds].
  change NANOSECONDS_PER_SECOND with 1000000000.
  rewrite div_euclid_pos, rem_euclid_pos by reflexivity.
  pose proof (Z.div_mod n 1000000000 ltac:(lia)) as DM. pose proof (Z.mod_pos_bound n 1000000000 ltac:(lia)) as MB.
  set (secs := n / 1000000000) in *. set (sub := n mod 1000000000) in *.
  assert (Hsecs : 0 <= secs <= 3155760000) by (unfold secs; split; [apply Z.div_pos; lia|apply Z.div_le_upper_bound; lia]).
  fold scale_r.
  destruct (subsec_err sub MB) as (Fsub & Esub & Bsub). set (subf := fmul (f_of_Z sub) scale_r) in *.
  destruct (f_of_Z_exact secs) as [Rsecs Fsecs]; [change (2 ^ 53) with 9007199254740992; lia|].
  (* the integer part, exact in both branches *)
  set (I := c * 3155760000 + secs).
  assert (HI : Z.abs I <= 2 ^ 53) by (unfold I; change (2 ^ 53) with 9007199254740992; lia).
  assert (IP : exists ip : f64, is_finite ip = true /\ B2R ip = IZR I /\
               (if c =? 0 then fadd (f_of_Z secs) subf
                else fadd (fadd (fmul (f_of_Z c) (f_of_bits SECONDS_PER_CENTURY_bits)) (f_of_Z secs)) subf) = fadd ip subf).
  { destruct (c =? 0) eqn:C0.
    - exists (f_of_Z secs). assert (c = 0) by lia. subst c. unfold I. rewrite Z.mul_0_l, Z.add_0_l. repeat split; assumption.
    - destruct (f_of_Z_exact c) as [Rc Fc]; [change (2 ^ 53) with 9007199254740992; lia|].
      destruct (is_int_float_sound _ _ spc_int) as [Fspc Rspc].
      destruct (fmul_exact_int _ _ c 3155760000 Fc Rc Fspc Rspc) as [Fp Rp]; [change (2 ^ 53) with 9007199254740992; lia|].
      destruct (fadd_exact_int _ _ (c * 3155760000) secs Fp Rp Fsecs Rsecs) as [Fq Rq]; [exact HI|].
      eexists. repeat split; [exact Fq|exact Rq]. }
  destruct IP as (ip & Fip & Rip & ->).
  assert (XE : X = (IZR I + IZR sub / 1000000000)%R).
  { unfold X, I. rewrite DM. rewrite !plus_IZR, !mult_IZR. field. }
  pose proof (Bplus_correct 53 1024 Hp Hpe mode_NE ip subf Fip Fsub) as M.
  rewrite Rip in M. set (z := (IZR I + B2R subf)%R) in *.
  assert (ZI : (Rabs (IZR I) <= IZR (2 ^ 53))%R) by (rewrite <- abs_IZR; apply IZR_le; exact HI).
  assert (Zb : (Rabs z <= IZR (2 ^ 60))%R).
  { unfold z. eapply Rle_trans; [apply Rabs_triang|]. apply Rle_trans with (IZR (2 ^ 53) + 2)%R; [lra|].
    change (2 ^ 60) with (2 ^ 53 * 128). rewrite mult_IZR. assert (1 <= IZR (2 ^ 53))%R by (apply IZR_le; vm_compute; discriminate). lra. }
  rewrite Rlt_bool_true in M by (apply round_lt_emax; exact Zb).
  destruct M as (M1 & M2 & _). split; [exact M2|].
  fold (fadd ip subf) in M1. rewrite M1.
  pose proof (rnd_err z) as E.
  assert (ZX : (Rabs (z - X) <= bpow radix2 (-52))%R).
  { unfold z. rewrite XE. replace (IZR I + B2R subf - (IZR I + IZR sub / 1000000000))%R with (B2R subf - IZR sub / 1000000000)%R by ring. exact Esub. }
  assert (U : (u53 = / 9007199254740992)%R).
  { unfold u53. change (-53) with (- (53)). rewrite (bpow_neg 53) by lia. reflexivity. }
  assert (B52 : (bpow radix2 (-52) = 2 * / 9007199254740992)%R).
  { change (-52) with (1 + - (53)). rewrite bpow_plus, (bpow_neg 53) by lia. simpl bpow at 1. change (2 ^ 53) with 9007199254740992. reflexivity. }
  assert (B51 : (bpow radix2 (-51) = 4 * / 9007199254740992)%R).
  { change (-51) with (2 + - (53)). rewrite bpow_plus, (bpow_neg 53) by lia. simpl bpow at 1. change (2 ^ 53) with 9007199254740992. lra. }
  assert (T : (tiny <= / 9007199254740992 / 1000)%R).
  { unfold tiny. apply Rle_trans with (bpow radix2 (-63)); [apply bpow_le; lia|].
    change (-63) with (- (63)). rewrite (bpow_neg 63) by lia. change (2 ^ 63) with 9223372036854775808.
    apply Rle_trans with (/ 9223372036854775808)%R; [right; reflexivity|].
    unfold Rdiv. rewrite <- Rinv_mult. apply Rinv_le_contravar; lra. }
  replace (round radix2 fexp64 (round_mode mode_NE) z - X)%R with ((round radix2 fexp64 (round_mode mode_NE) z - z) + (z - X))%R by ring.
  eapply Rle_trans; [apply Rabs_triang|].
  assert (ZA : (Rabs z <= Rabs X + bpow radix2 (-52))%R).
  { replace z with (X + (z - X))%R by ring. eapply Rle_trans; [apply Rabs_triang|]. lra. }
  rewrite U in *. rewrite B52 in *. rewrite B51.
  assert (/ 9007199254740992 * Rabs z <= / 9007199254740992 * (Rabs X + 2 * / 9007199254740992))%R by (apply Rmult_le_compat_l; lra).
  assert (P := Rabs_pos X). nra.
Qed.

(* 1 / in_seconds(u) as the code forms it (one division), as mantissa * 2^exponent *)
Definition from_seconds_me (u : unit_t) : positive * Z :=
  match u with
  | Nanosecond => (8388607999999999%positive, -23) | Microsecond => (8589934592000000%positive, -33) | Millisecond => (8796093022208000%positive, -43)
  | Second => (4503599627370496%positive, -52) | Minute => (4803839602528529%positive, -58) | Hour => (5124095576030431%positive, -64)
  | Day => (6832127434707241%positive, -69) | Week => (7808145639665419%positive, -72) | Century => (6129367605215247%positive, -84)
  end.
Lemma from_seconds_float u : is_pos_float (unit_from_seconds u) (fst (from_seconds_me u)) (snd (from_seconds_me u)) = true.
Proof. destruct u; vm_compute; reflexivity. Qed.
(* it is within 2^-52 (relative) of the true reciprocal 10^9 / factor(u): checked on integers *)
Lemma from_seconds_close u :
  let '(m, e) := from_seconds_me u in
  Z.abs (Z.pos m * spec_unit_factor u - 2 ^ (- e) * 1000000000) * 2 ^ 52 <= 2 ^ (- e) * 1000000000.
Proof. destruct u; vm_compute; discriminate. Qed.

Lemma round_lt_emax' z : (Rabs z <= IZR (2 ^ 100))%R -> (Rabs (round radix2 fexp64 (round_mode mode_NE) z) < bpow radix2 1024)%R.
Proof.
  intros H. pose proof (rnd_err z) as E.
  assert (B : (Rabs (round radix2 fexp64 (round_mode mode_NE) z) <= Rabs z + (u53 * Rabs z + tiny))%R).
  { replace (round radix2 fexp64 (round_mode mode_NE) z) with (z + (round radix2 fexp64 (round_mode mode_NE) z - z))%R by ring.
    eapply Rle_trans; [apply Rabs_triang|]. apply Rplus_le_compat_l. exact E. }
  assert (U : (u53 <= 1)%R) by (unfold u53; change 1%R with (bpow radix2 0); apply bpow_le; lia).
  assert (T : (tiny <= 1)%R) by (unfold tiny; change 1%R with (bpow radix2 0); apply bpow_le; lia).
  assert (P := Rabs_pos z).
  apply Rle_lt_trans with (IZR (2 ^ 102)).
  - apply Rle_trans with (Rabs z + (1 * Rabs z + 1))%R; [eapply Rle_trans; [exact B|]; apply Rplus_le_compat_l; apply Rplus_le_compat; [apply Rmult_le_compat_r; assumption|assumption]|].
    change (2 ^ 102) with (2 ^ 100 * 4). rewrite mult_IZR.
    assert (1 <= IZR (2 ^ 100))%R by (apply IZR_le; vm_compute; discriminate). lra.
  - change (bpow radix2 1024) with (IZR (2 ^ 1024)). apply IZR_lt. reflexivity.
Qed.

(* Duration::to_unit: the exact value in that unit within 5 * 2^-53 relative, plus 2^-49 of one second's worth *)
Theorem to_unit_err d u : canon d ->
  let s := (IZR (spec_unit_factor u) / 1000000000)%R in            (* seconds per unit *)
  let Xu := (IZR (val d) / IZR (spec_unit_factor u))%R in
  is_finite (to_unit d u) = true /\ (Rabs (B2R (to_unit d u) - Xu) <= 5 * u53 * Rabs Xu + bpow radix2 (-49) / s)%R.
Proof.
  intros Hd s Xu.
  destruct (to_seconds_err d Hd) as [FT ET]. cbv zeta in ET.
  set (X := (IZR (val d) / 1000000000)%R) in *.
  set (T := B2R (to_seconds d)) in *.
  pose proof (from_seconds_float u) as FF. pose proof (from_seconds_close u) as FC.
  destruct (from_seconds_me u) as [m e] eqn:ME. cbn [fst snd] in FF.
  destruct (is_pos_float_sound _ _ _ FF) as [Ff Rf].
  pose proof (factor_pos u) as F1. set (fz := spec_unit_factor u) in *.
  assert (Fp : (1 <= IZR fz)%R) by (apply IZR_le; exact F1).
  assert (sp : (0 < s)%R) by (unfold s; apply Rdiv_lt_0_compat; lra).
  assert (XuX : Xu = (X / s)%R) by (unfold Xu, X, s; field; lra).
  (* the reciprocal factor F is within 2^-52 relative of 1/s *)
  set (F := (IZR (Z.pos m) * bpow radix2 e)%R) in *.
  assert (Eneg : e < 0) by (destruct u; inversion ME; lia).
  assert (Fclose : (Rabs (F * s - 1) <= bpow radix2 (-52))%R).
  { unfold F, s. replace e with (- (- e)) by lia. rewrite (bpow_neg (- e)) by lia.
    set (K := 2 ^ (- e)) in *. assert (Kp : 0 < K) by (unfold K; apply Z.pow_pos_nonneg; lia).
    assert (KR : (0 < IZR K)%R) by (apply IZR_lt; exact Kp).
    replace (IZR (Z.pos m) * / IZR K * (IZR fz / 1000000000) - 1)%R
      with (IZR (Z.pos m * fz - K * 1000000000) / (IZR K * 1000000000))%R
      by (rewrite minus_IZR, !mult_IZR; field; lra).
    unfold Rdiv. rewrite Rabs_mult, Rabs_inv, <- abs_IZR.
    rewrite (Rabs_pos_eq (IZR K * 1000000000)) by (apply Rmult_le_pos; lra).
    change (-52) with (- (52)). rewrite (bpow_neg 52) by lia.
    apply IZR_le in FC. rewrite !mult_IZR in FC.
    assert (P52 : (0 < IZR (2 ^ 52))%R) by (apply IZR_lt; reflexivity).
    apply Rmult_le_reg_r with (IZR (2 ^ 52)); [exact P52|].
    rewrite Rinv_l by lra.
    apply Rmult_le_reg_r with (IZR K * 1000000000)%R; [apply Rmult_lt_0_compat; lra|].
    replace (IZR (Z.abs (Z.pos m * fz - K * 1000000000)) * / (IZR K * 1000000000) * IZR (2 ^ 52) * (IZR K * 1000000000))%R
      with (IZR (Z.abs (Z.pos m * fz - K * 1000000000)) * IZR (2 ^ 52))%R by (field; lra).
    change (IZR 1000000000) with 1000000000%R in FC. lra. }
  (* the product *)
  unfold to_unit. pose proof (Bmult_correct 53 1024 Hp Hpe mode_NE (to_seconds d) (unit_from_seconds u)) as M.
  fold T in M. rewrite Rf in M. fold F in M.
  pose proof (canon_val_range d Hd) as VR. rewrite MINV_lit, MAXV_lit in VR.
  assert (Xb : (Rabs X <= 103407943680000)%R).
  { unfold X. unfold Rdiv. rewrite Rabs_mult, <- abs_IZR, (Rabs_pos_eq (/ 1000000000)) by lra.
    apply Rle_trans with (IZR 103407943680000000000000 * / 1000000000)%R; [apply Rmult_le_compat_r; [lra|apply IZR_le; lia]|]. lra. }
  assert (U : (u53 = / 9007199254740992)%R) by (unfold u53; change (-53) with (- (53)); rewrite (bpow_neg 53) by lia; reflexivity).
  assert (B51 : (bpow radix2 (-51) = 4 * / 9007199254740992)%R)
    by (change (-51) with (2 + - (53)); rewrite bpow_plus, (bpow_neg 53) by lia; simpl bpow at 1; change (2 ^ 53) with 9007199254740992; lra).
  assert (B52 : (bpow radix2 (-52) = 2 * / 9007199254740992)%R)
    by (change (-52) with (1 + - (53)); rewrite bpow_plus, (bpow_neg 53) by lia; simpl bpow at 1; change (2 ^ 53) with 9007199254740992; reflexivity).
  assert (B50 : (bpow radix2 (-50) = 8 * / 9007199254740992)%R)
    by (change (-50) with (3 + - (53)); rewrite bpow_plus, (bpow_neg 53) by lia; simpl bpow at 1; change (2 ^ 53) with 9007199254740992; lra).
  rewrite U, B51 in ET. rewrite B52 in Fclose.
  assert (Tb : (Rabs T <= 103407943680001)%R).
  { replace T with (X + (T - X))%R by ring. eapply Rle_trans; [apply Rabs_triang|].
    assert (/ 9007199254740992 * Rabs X <= / 9007199254740992 * 103407943680000)%R by (apply Rmult_le_compat_l; lra). lra. }
  (* F <= (1 + 2^-52) / s <= 2 * 10^9 *)
  assert (Fs : (Rabs (F * s) <= 1 + 2 * / 9007199254740992)%R).
  { replace (F * s)%R with (1 + (F * s - 1))%R by ring. eapply Rle_trans; [apply Rabs_triang|]. rewrite Rabs_R1. lra. }
  assert (Fpos : (0 <= F)%R) by (unfold F; apply Rmult_le_pos; [apply IZR_le; lia|apply bpow_ge_0]).
  assert (sinv : (/ s <= 1000000000)%R).
  { unfold s. rewrite Rinv_div. unfold Rdiv. rewrite <- (Rmult_1_r 1000000000) at 2. apply Rmult_le_compat_l; [lra|].
    rewrite <- Rinv_1. apply Rinv_le_contravar; lra. }
  assert (Fb : (F <= 2 * / s)%R).
  { rewrite Rabs_mult, (Rabs_pos_eq F), (Rabs_pos_eq s) in Fs by lra.
    apply Rmult_le_reg_r with s; [exact sp|]. rewrite Rmult_assoc, Rinv_l by lra. lra. }
  set (z := (T * F)%R) in *.
  assert (zb : (Rabs z <= IZR (2 ^ 100))%R).
  { unfold z. rewrite Rabs_mult, (Rabs_pos_eq F) by exact Fpos.
    apply Rle_trans with (103407943680001 * (2 * 1000000000))%R.
    - apply Rmult_le_compat; [apply Rabs_pos|exact Fpos|exact Tb|]. apply Rle_trans with (2 * / s)%R; [exact Fb|]. lra.
    - change (2 ^ 100) with 1267650600228229401496703205376. lra. }
  rewrite Rlt_bool_true in M by (apply round_lt_emax'; exact zb).
  destruct M as (M1 & M2 & _). split; [unfold fmul; rewrite M2, FT, Ff; reflexivity|].
  fold (fmul (to_seconds d) (unit_from_seconds u)) in M1. rewrite M1.
  pose proof (rnd_err z) as E. rewrite U in E.
  assert (Tn : (tiny <= / 9007199254740992 / 1000000000000)%R).
  { unfold tiny. apply Rle_trans with (bpow radix2 (-100)); [apply bpow_le; lia|].
    change (-100) with (- (100)). rewrite (bpow_neg 100) by lia. change (2 ^ 100) with 1267650600228229401496703205376.
    unfold Rdiv. rewrite <- Rinv_mult. apply Rinv_le_contravar; lra. }
  (* z against Xu = X / s *)
  assert (zX : (Rabs (z - Xu) <= Rabs Xu * (/ 9007199254740992 * (1 + 2 * / 9007199254740992) + 2 * / 9007199254740992) + 4 * / 9007199254740992 * (2 * / s))%R).
  { unfold z. rewrite XuX. replace (T * F - X / s)%R with ((T - X) * F + X / s * (F * s - 1))%R by (field; lra).
    eapply Rle_trans; [apply Rabs_triang|]. rewrite !Rabs_mult, (Rabs_pos_eq F) by exact Fpos.
    assert (A1 : (Rabs (T - X) * F <= (/ 9007199254740992 * Rabs X + 4 * / 9007199254740992) * F)%R) by (apply Rmult_le_compat_r; [exact Fpos|exact ET]).
    assert (A2 : (Rabs (X / s) * Rabs (F * s - 1) <= Rabs (X / s) * (2 * / 9007199254740992))%R) by (apply Rmult_le_compat_l; [apply Rabs_pos|exact Fclose]).
    assert (XS : (Rabs X * F <= Rabs (X / s) * (1 + 2 * / 9007199254740992))%R).
    { unfold Rdiv. rewrite Rabs_mult, (Rabs_pos_eq (/ s)) by (apply Rlt_le, Rinv_0_lt_compat; exact sp).
      rewrite Rmult_assoc. apply Rmult_le_compat_l; [apply Rabs_pos|].
      rewrite Rabs_mult, (Rabs_pos_eq F), (Rabs_pos_eq s) in Fs by lra.
      apply Rmult_le_reg_r with s; [exact sp|]. rewrite (Rmult_comm (/ s)), Rmult_assoc, Rinv_l by lra. lra. }
    assert (P0 := Rabs_pos (X / s)). assert (P1 := Rabs_pos X).
    assert (A3 : (4 * / 9007199254740992 * F <= 4 * / 9007199254740992 * (2 * / s))%R) by (apply Rmult_le_compat_l; lra).
    nra. }
  replace (round radix2 fexp64 (round_mode mode_NE) z - Xu)%R with ((round radix2 fexp64 (round_mode mode_NE) z - z) + (z - Xu))%R by ring.
  eapply Rle_trans; [apply Rabs_triang|].
  assert (zA : (Rabs z <= Rabs Xu + Rabs (z - Xu))%R) by (replace z with (Xu + (z - Xu))%R at 1 by ring; apply Rabs_triang).
  assert (B49 : (bpow radix2 (-49) = 16 * / 9007199254740992)%R)
    by (change (-49) with (4 + - (53)); rewrite bpow_plus, (bpow_neg 53) by lia; simpl bpow at 1; change (2 ^ 53) with 9007199254740992; lra).
  rewrite U, B49. unfold Rdiv.
  assert (sle : (s <= 3155760000)%R).
  { unfold s. apply Rmult_le_reg_r with 1000000000%R; [lra|]. unfold Rdiv. rewrite Rmult_assoc, Rinv_l by lra. rewrite Rmult_1_r.
    apply Rle_trans with (IZR 3155760000000000000); [apply IZR_le; unfold fz; destruct u; vm_compute; discriminate|]. lra. }
  assert (qlo : (/ 3155760000 <= / s)%R) by (apply Rinv_le_contravar; lra).
  set (q := (/ s)%R) in *.
  set (c := (/ 9007199254740992)%R) in *.
  assert (cb : (0 < c <= / 1000000000000000)%R) by (unfold c; split; [apply Rinv_0_lt_compat; lra|apply Rinv_le_contravar; lra]).
  assert (tq : (tiny <= c * q)%R).
  { apply Rle_trans with (c / 1000000000000)%R; [exact Tn|]. unfold Rdiv. apply Rmult_le_compat_l; lra. }
  set (a := Rabs Xu) in *. set (b := Rabs (z - Xu)) in *. set (r := Rabs (round radix2 fexp64 (round_mode mode_NE) z - z)) in *. set (w := Rabs z) in *.
  assert (Pa : (0 <= a)%R) by apply Rabs_pos. assert (Pb : (0 <= b)%R) by apply Rabs_pos.
  assert (Pq : (0 < q)%R) by (unfold q; apply Rinv_0_lt_compat; exact sp).
  assert (H1 : (r <= c * (a + b) + c * q)%R).
  { apply Rle_trans with (c * w + tiny)%R; [exact E|]. apply Rplus_le_compat; [apply Rmult_le_compat_l; lra|exact tq]. }
  assert (H2 : (b <= a * (3 * c + 2 * (c * c)) + 8 * c * q)%R).
  { eapply Rle_trans; [exact zX|]. right. unfold q. ring. }
  assert (cc : (c * c <= c / 1000)%R).
  { unfold Rdiv. apply Rmult_le_compat_l; lra. }
  clearbody a b r w q c. clear - Pa Pb Pq cb H1 H2 cc.
  unfold Rdiv in *.
  assert (K1 : (c * b <= c * (a * (3 * c + 2 * (c * c)) + 8 * c * q))%R) by (apply Rmult_le_compat_l; lra).
  assert (K2 : (a * (c * c) <= a * (c * / 1000))%R) by (apply Rmult_le_compat_l; lra).
  assert (K3 : (q * (c * c) <= q * (c * / 1000))%R) by (apply Rmult_le_compat_l; lra).
  assert (K4 : (0 <= a * c)%R) by (apply Rmult_le_pos; lra).
  assert (K5 : (0 <= q * c)%R) by (apply Rmult_le_pos; lra).
  assert (K6 : (a * (c * (c * c)) <= a * (c * / 1000))%R).
  { apply Rmult_le_compat_l; [lra|]. nra. }
  assert (H1' : (r <= a * c + c * b + q * c)%R) by (eapply Rle_trans; [exact H1|right; ring]).
  assert (K1' : (c * b <= 3 * (a * (c * c)) + 2 * (a * (c * (c * c))) + 8 * (q * (c * c)))%R) by (eapply Rle_trans; [exact K1|right; ring]).
  assert (H2' : (b <= 3 * (a * c) + 2 * (a * (c * c)) + 8 * (q * c))%R) by (eapply Rle_trans; [exact H2|right; ring]).
  assert (K2' : (a * (c * c) <= a * c * / 1000)%R) by (eapply Rle_trans; [exact K2|right; ring]).
  assert (K3' : (q * (c * c) <= q * c * / 1000)%R) by (eapply Rle_trans; [exact K3|right; ring]).
  assert (K6' : (a * (c * (c * c)) <= a * c * / 1000)%R) by (eapply Rle_trans; [exact K6|right; ring]).
  replace (5 * c * a + 16 * c * q)%R with (5 * (a * c) + 16 * (q * c))%R by ring.
  set (ac := (a * c)%R) in *. set (qc := (q * c)%R) in *. set (acc := (a * (c * c))%R) in *. set (accc := (a * (c * (c * c)))%R) in *.
  set (qcc := (q * (c * c))%R) in *. set (cb_ := (c * b)%R) in *.
  clearbody ac qc acc accc qcc cb_. lra.
Qed.
