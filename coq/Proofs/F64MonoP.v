(* Monotonicity of Duration::to_seconds (C18): a longer duration never reads as fewer seconds. The whole seconds of every
   canonical duration are below 2^53, hence exact in binary64; the sub-second product lies in [0, 1]; rounding is monotone. *)
From Coq Require Import ZArith Bool Lia ZifyBool List Reals Lra.
From Flocq Require Import Core.Core IEEE754.BinarySingleNaN.
From HF Require Import MachInt MachIntP GenConsts GenUnits Duration Epoch F64 DurationF64 SignedNs DurationP F64P F64ExactP F64ErrP.
Import ListNotations.
Open Scope Z_scope.

Notation rnd64 := (round radix2 fexp64 (round_mode mode_NE)).
Definition whole_secs (d : duration) : Z := centuries d * 3155760000 + nanoseconds d / 1000000000.
Definition sub_ns (d : duration) : Z := nanoseconds d mod 1000000000.
Definition subf (s : Z) : f64 := fmul (f_of_Z s) scale_r.

(* the value to_seconds returns, as one rounding of (exact whole seconds + rounded sub-second product) *)
Lemma to_seconds_real d : canon d ->
  B2R (to_seconds d) = rnd64 (IZR (whole_secs d) + B2R (subf (sub_ns d)))%R.
Proof.
  destruct d as [c n]. unfold canon, val, whole_secs, sub_ns, subf. cbn [centuries nanoseconds]. rewrite SNPC_lit. intros (Hc & Hn0 & Hn).
  assert (Hn' : 0 <= n <= 3155760000000000000) by lia.
  unfold to_seconds. cbn [centuries nanoseconds].
  change NANOSECONDS_PER_SECOND with 1000000000.
  rewrite div_euclid_pos, rem_euclid_pos by reflexivity.
  pose proof (Z.mod_pos_bound n 1000000000 ltac:(lia)) as MB.
  set (secs := n / 1000000000) in *. set (sub := n mod 1000000000) in *.
  assert (Hsecs : 0 <= secs <= 3155760000) by (unfold secs; split; [apply Z.div_pos; lia|apply Z.div_le_upper_bound; lia]).
  fold scale_r.
  destruct (subsec_err sub MB) as (Fsub & Esub & Bsub). set (sf := fmul (f_of_Z sub) scale_r) in *.
  destruct (f_of_Z_exact secs) as [Rsecs Fsecs]; [change (2 ^ 53) with 9007199254740992; lia|].
  set (I := c * 3155760000 + secs).
  assert (HI : Z.abs I <= 2 ^ 53) by (unfold I; change (2 ^ 53) with 9007199254740992; lia).
  assert (IP : exists ip : f64, is_finite ip = true /\ B2R ip = IZR I /\
               (if c =? 0 then fadd (f_of_Z secs) sf
                else fadd (fadd (fmul (f_of_Z c) (f_of_bits SECONDS_PER_CENTURY_bits)) (f_of_Z secs)) sf) = fadd ip sf).
  { destruct (c =? 0) eqn:C0.
    - exists (f_of_Z secs). assert (c = 0) by lia. subst c. unfold I. rewrite Z.mul_0_l, Z.add_0_l. repeat split; assumption.
    - destruct (f_of_Z_exact c) as [Rc Fc]; [change (2 ^ 53) with 9007199254740992; lia|].
      destruct (is_int_float_sound _ _ spc_int) as [Fspc Rspc].
      destruct (fmul_exact_int _ _ c 3155760000 Fc Rc Fspc Rspc) as [Fp Rp]; [change (2 ^ 53) with 9007199254740992; lia|].
      destruct (fadd_exact_int _ _ (c * 3155760000) secs Fp Rp Fsecs Rsecs) as [Fq Rq]; [exact HI|].
      eexists. repeat split; [exact Fq|exact Rq]. }
  destruct IP as (ip & Fip & Rip & ->).
  pose proof (Bplus_correct 53 1024 Hp Hpe mode_NE ip sf Fip Fsub) as M.
  rewrite Rip in M. set (z := (IZR I + B2R sf)%R) in *.
  assert (ZI : (Rabs (IZR I) <= IZR (2 ^ 53))%R) by (rewrite <- abs_IZR; apply IZR_le; exact HI).
  assert (Zb : (Rabs z <= IZR (2 ^ 60))%R).
  { unfold z. eapply Rle_trans; [apply Rabs_triang|]. apply Rle_trans with (IZR (2 ^ 53) + 2)%R; [lra|].
    change (2 ^ 60) with (2 ^ 53 * 128). rewrite mult_IZR. assert (1 <= IZR (2 ^ 53))%R by (apply IZR_le; vm_compute; discriminate). lra. }
  rewrite Rlt_bool_true in M by (apply round_lt_emax; exact Zb).
  destruct M as (M1 & _). exact M1.
Qed.

(* the sub-second product, rounded, lies in [0, 1] and is monotone in the nanosecond count *)
Lemma subf_real s : 0 <= s < 1000000000 -> B2R (subf s) = rnd64 (IZR s * (IZR 4835703278458517 * bpow radix2 (-82)))%R.
Proof.
  intros Hs. unfold subf.
  destruct (f_of_Z_exact s) as [Rs Fs]; [change (2 ^ 53) with 9007199254740992; lia|].
  destruct scale_real as [Fr Rr].
  pose proof (Bmult_correct 53 1024 Hp Hpe mode_NE (f_of_Z s) scale_r) as M.
  rewrite Rs, Rr in M.
  destruct (subsec_err s Hs) as (_ & _ & B2). fold (subf s) in B2.
  rewrite Rlt_bool_true in M.
  - destruct M as (M1 & _). exact M1.
  - apply round_lt_emax.
    assert (S0 : (0 <= IZR s <= 999999999)%R) by (split; apply IZR_le; lia).
    assert (B82 : (bpow radix2 (-82) = / IZR (2 ^ 82))%R) by (change (-82) with (- (82)); apply (bpow_neg 82); lia).
    assert (P82 : (IZR (2 ^ 82) = 4835703278458516698824704)%R) by (change (2 ^ 82) with 4835703278458516698824704; reflexivity).
    rewrite B82, P82. rewrite Rabs_pos_eq.
    + apply Rle_trans with 2%R; [|apply IZR_le; vm_compute; discriminate].
      apply Rle_trans with (999999999 * (4835703278458517 * / 4835703278458516698824704))%R; [|lra].
      apply Rmult_le_compat_r; lra.
    + apply Rmult_le_pos; lra.
Qed.
Lemma scale_pos : (0 < IZR 4835703278458517 * bpow radix2 (-82))%R.
Proof. apply Rmult_lt_0_compat; [apply IZR_lt; lia|apply bpow_gt_0]. Qed.
Lemma subf_range s : 0 <= s < 1000000000 -> (0 <= B2R (subf s) <= 1)%R.
Proof.
  intros Hs. rewrite (subf_real s Hs).
  assert (S0 : (0 <= IZR s <= 999999999)%R) by (split; apply IZR_le; lia).
  pose proof scale_pos as SP.
  split.
  - rewrite <- (round_int 0) by (vm_compute; discriminate). apply round_le; [apply fexp_correct; reflexivity|apply valid_rnd_round_mode|].
    apply Rmult_le_pos; lra.
  - rewrite <- (round_int 1) by (vm_compute; discriminate). apply round_le; [apply fexp_correct; reflexivity|apply valid_rnd_round_mode|].
    assert (B82 : (bpow radix2 (-82) = / IZR (2 ^ 82))%R) by (change (-82) with (- (82)); apply (bpow_neg 82); lia).
    assert (P82 : (IZR (2 ^ 82) = 4835703278458516698824704)%R) by (change (2 ^ 82) with 4835703278458516698824704; reflexivity).
    rewrite B82, P82 in *.
    apply Rle_trans with (999999999 * (4835703278458517 * / 4835703278458516698824704))%R; [|lra].
    apply Rmult_le_compat_r; lra.
Qed.
Lemma subf_mono s1 s2 : 0 <= s1 <= s2 -> s2 < 1000000000 -> (B2R (subf s1) <= B2R (subf s2))%R.
Proof.
  intros H1 H2. rewrite (subf_real s1), (subf_real s2) by lia.
  apply round_le; [apply fexp_correct; reflexivity|apply valid_rnd_round_mode|].
  apply Rmult_le_compat_r; [left; exact scale_pos|apply IZR_le; lia].
Qed.

Lemma val_split d : canon d -> val d = whole_secs d * 1000000000 + sub_ns d /\ 0 <= sub_ns d < 1000000000.
Proof.
  destruct d as [c n]. unfold canon, val, whole_secs, sub_ns. cbn [centuries nanoseconds]. rewrite SNPC_lit. intros (Hc & Hn0 & Hn).
  pose proof (Z.div_mod n 1000000000 ltac:(lia)) as DM. pose proof (Z.mod_pos_bound n 1000000000 ltac:(lia)) as MB. lia.
Qed.

Theorem to_seconds_monotone a b : canon a -> canon b -> val a <= val b -> (B2R (to_seconds a) <= B2R (to_seconds b))%R.
Proof.
  intros Ca Cb H. rewrite (to_seconds_real a Ca), (to_seconds_real b Cb).
  destruct (val_split a Ca) as [Va Sa]. destruct (val_split b Cb) as [Vb Sb].
  apply round_le; [apply fexp_correct; reflexivity|apply valid_rnd_round_mode|].
  pose proof (subf_range _ Sa) as Ra. pose proof (subf_range _ Sb) as Rb.
  destruct (Z.eq_dec (whole_secs a) (whole_secs b)) as [E|NE].
  - rewrite E. apply Rplus_le_compat_l. apply subf_mono; lia.
  - assert (L : whole_secs a + 1 <= whole_secs b) by lia.
    apply IZR_le in L. rewrite plus_IZR in L. lra.
Qed.
(* strictly more whole seconds read as a strictly larger value?  No: not claimed -- two durations one nanosecond apart can read the same. *)

(* a finite product is the rounding of the real product (no overflow happened) *)
Lemma fmul_real x y : is_finite (fmul x y) = true -> B2R (fmul x y) = rnd64 (B2R x * B2R y)%R.
Proof.
  intros F. pose proof (Bmult_correct 53 1024 Hp Hpe mode_NE x y) as M. fold (fmul x y) in M.
  destruct (Rlt_bool (Rabs (rnd64 (B2R x * B2R y))) (bpow radix2 1024)).
  - destruct M as (M1 & _). exact M1.
  - exfalso. assert (E : is_finite_SF (B2SF (fmul x y)) = true) by (rewrite is_finite_SF_B2SF; exact F).
    rewrite M in E. unfold binary_overflow in E. cbn in E. discriminate E.
Qed.

(* Duration::to_unit is monotone as well: a product with the positive constant 1 / in_seconds(u), rounded once *)
Theorem to_unit_monotone a b u : canon a -> canon b -> val a <= val b -> (B2R (to_unit a u) <= B2R (to_unit b u))%R.
Proof.
  intros Ca Cb H.
  destruct (to_unit_err a u Ca) as [Fa _]. destruct (to_unit_err b u Cb) as [Fb _].
  unfold to_unit in *. rewrite (fmul_real _ _ Fa), (fmul_real _ _ Fb).
  apply round_le; [apply fexp_correct; reflexivity|apply valid_rnd_round_mode|].
  pose proof (from_seconds_float u) as FF.
  destruct (is_pos_float_sound _ _ _ FF) as [_ Rf]. rewrite Rf.
  apply Rmult_le_compat_r.
  - apply Rmult_le_pos; [apply IZR_le; lia|apply bpow_ge_0].
  - apply to_seconds_monotone; assumption.
Qed.
