(* The float-valued JD / MJD / UNIX / TT-centuries views (C17): each is Duration::to_unit of the Duration-valued view, so it is within
   5 * 2^-53 (relative) of the exact count in that unit, plus 2^-49 of one second's worth, and monotone in the instant's count. *)
From Coq Require Import ZArith Bool Lia ZifyBool List Reals Lra.
From Flocq Require Import Core.Core IEEE754.BinarySingleNaN.
From HF Require Import MachInt MachIntP GenConsts GenUnits Duration Epoch F64 DurationF64 Views SignedNs DurationP EpochP F64P F64ExactP F64ErrP F64MonoP ViewsP.
Open Scope Z_scope.

Local Notation D := 86400000000000 (only parsing).

(* the bound of to_unit_err, as a predicate on the float r read for an exact count of v nanoseconds in unit u *)
Definition within_unit_err (r : f64) (v : Z) (u : unit_t) : Prop :=
  is_finite r = true /\
  (Rabs (B2R r - IZR v / IZR (spec_unit_factor u))
   <= 5 * bpow radix2 (-53) * Rabs (IZR v / IZR (spec_unit_factor u)) + bpow radix2 (-49) / (IZR (spec_unit_factor u) / 1000000000))%R.

Lemma float_of_view (o : option duration) (u : unit_t) d : o = Some d -> canon d ->
  exists r, omap (fun x => to_unit x u) o = Some r /\ r = to_unit d u /\ within_unit_err r (val d) u.
Proof.
  intros -> C. exists (to_unit d u). split; [reflexivity|]. split; [reflexivity|].
  destruct (to_unit_err d u C) as [F E]. split; [exact F|exact E].
Qed.

Theorem jde_utc_days_err e x : to_utc_duration e = Some x -> canon x ->
  exists r, to_jde_utc_days e = Some r /\ within_unit_err r (clamp (val x + (2415020 * D + D / 2))) Day.
Proof.
  intros H C. destruct (jde_utc_duration_spec e x H C) as (d & Hd & Cd & Vd).
  destruct (float_of_view _ Day d Hd Cd) as (r & Hr & _ & W). exists r. split; [exact Hr|]. rewrite <- Vd. exact W.
Qed.
Theorem jde_tai_err e tai u : to_tai_duration e = Some tai -> canon tai ->
  exists r, to_jde_tai e u = Some r /\ within_unit_err r (clamp (clamp (val tai + 15020 * D) + (2400000 * D + D / 2))) u.
Proof.
  intros H C. destruct (jde_tai_duration_spec e tai H C) as (d & Hd & Cd & Vd).
  destruct (float_of_view _ u d Hd Cd) as (r & Hr & _ & W). exists r. split; [exact Hr|]. rewrite <- Vd. exact W.
Qed.
Theorem unix_err e x u : to_utc_duration e = Some x -> canon x ->
  exists r, to_unix e u = Some r /\ within_unit_err r (clamp (val x - 25567 * D)) u.
Proof.
  intros H C. destruct (unix_duration_spec e x H C) as (d & Hd & Cd & Vd).
  destruct (float_of_view _ u d Hd Cd) as (r & Hr & _ & W). exists r. split; [exact Hr|]. rewrite <- Vd. exact W.
Qed.
Theorem tt_centuries_j2k_err e x : to_tt_duration e = Some x -> canon x ->
  exists r, to_tt_centuries_j2k e = Some r /\ within_unit_err r (clamp (val x - 3155716800 * 1000000000)) Century.
Proof.
  intros H C. destruct (tt_since_j2k_spec e x H C) as (d & Hd & Cd & Vd).
  destruct (float_of_view _ Century d Hd Cd) as (r & Hr & _ & W). exists r. split; [exact Hr|]. rewrite <- Vd. exact W.
Qed.

Lemma clamp_mono a b : a <= b -> clamp a <= clamp b.
Proof. unfold clamp. lits. lia. Qed.

(* a later UTC count never reads as an earlier Julian date or UNIX time *)
Theorem jde_utc_days_monotone e1 e2 x1 x2 r1 r2 :
  to_utc_duration e1 = Some x1 -> to_utc_duration e2 = Some x2 -> canon x1 -> canon x2 -> val x1 <= val x2 ->
  to_jde_utc_days e1 = Some r1 -> to_jde_utc_days e2 = Some r2 -> (B2R r1 <= B2R r2)%R.
Proof.
  intros H1 H2 C1 C2 L R1 R2.
  destruct (jde_utc_duration_spec e1 x1 H1 C1) as (d1 & Hd1 & Cd1 & Vd1).
  destruct (jde_utc_duration_spec e2 x2 H2 C2) as (d2 & Hd2 & Cd2 & Vd2).
  unfold to_jde_utc_days, omap in R1, R2. rewrite Hd1 in R1. rewrite Hd2 in R2. cbn [option_map] in R1, R2.
  injection R1 as <-. injection R2 as <-.
  apply to_unit_monotone; [exact Cd1|exact Cd2|]. rewrite Vd1, Vd2. apply clamp_mono. lia.
Qed.
Theorem unix_monotone e1 e2 x1 x2 u r1 r2 :
  to_utc_duration e1 = Some x1 -> to_utc_duration e2 = Some x2 -> canon x1 -> canon x2 -> val x1 <= val x2 ->
  to_unix e1 u = Some r1 -> to_unix e2 u = Some r2 -> (B2R r1 <= B2R r2)%R.
Proof.
  intros H1 H2 C1 C2 L R1 R2.
  destruct (unix_duration_spec e1 x1 H1 C1) as (d1 & Hd1 & Cd1 & Vd1).
  destruct (unix_duration_spec e2 x2 H2 C2) as (d2 & Hd2 & Cd2 & Vd2).
  unfold to_unix, omap in R1, R2. rewrite Hd1 in R1. rewrite Hd2 in R2. cbn [option_map] in R1, R2.
  injection R1 as <-. injection R2 as <-.
  apply to_unit_monotone; [exact Cd1|exact Cd2|]. rewrite Vd1, Vd2. apply clamp_mono. lia.
Qed.
