(* The float-valued JD / MJD / UNIX / TT-centuries views (C17): each is Duration::to_unit of the Duration-valued view, so it is within
   5 * 2^-53 (relative) of the exact count in that unit, plus 2^-49 of one second's worth, and monotone in the instant's count. *)
From Coq Require Import ZArith Bool Lia ZifyBool List Reals Lra.
From Flocq Require Import Core.Core IEEE754.BinarySingleNaN.
From HF Require Import MachInt MachIntP GenConsts GenUnits Duration Epoch F64 DurationF64 Gregorian Views SignedNs DurationP EpochP F64P F64ExactP F64ErrP F64MonoP ViewsP.
Open Scope Z_scope.

Local Notation D := 86400000000000 (only parsing).

(* the bound of to_unit_err, as a predicate on the float r read for an exact count of v nanoseconds in unit u *)
Definition within_unit_err (r : f64) (v : Z) (u : unit_t) : Prop :=
  is_finite r = true /\
  (Rabs (B2R r - IZR v / IZR (spec_unit_factor u))
   <= 5 * bpow radix2 (-53) * Rabs (IZR v / IZR (spec_unit_factor u)) + bpow radix2 (-49) / (IZR (spec_unit_factor u) / 1000000000))%R.

Lemma float_of_view (o : option duration) (u : unit_t) d : o = Some d -> canon d ->
  exists r, omap (fun x => to_unit x u) o = Some r /\ r = to_unit d u /\ within_unit_err r (val d) u.
Proof.
  intros -> C. exists (to_unit d u). split; [reflexivity|]. split; [reflexivity|].
  destruct (to_unit_err d u C) as [F E]. split; [exact F|exact E].
Qed.

Theorem jde_utc_days_err e x : to_utc_duration e = Some x -> canon x ->
  exists r, to_jde_utc_days e = Some r /\ within_unit_err r (clamp (val x + (2415020 * D + D / 2))) Day.
Proof.
  intros H C. destruct (jde_utc_duration_spec e x H C) as (d & Hd & Cd & Vd).
  destruct (float_of_view _ Day d Hd Cd) as (r & Hr & _ & W). exists r. split; [exact Hr|]. rewrite <- Vd. exact W.
Qed.
Theorem jde_tai_err e tai u : to_tai_duration e = Some tai -> canon tai ->
  exists r, to_jde_tai e u = Some r /\ within_unit_err r (clamp (clamp (val tai + 15020 * D) + (2400000 * D + D / 2))) u.
Proof.
  intros H C. destruct (jde_tai_duration_spec e tai H C) as (d & Hd & Cd & Vd).
  destruct (float_of_view _ u d Hd Cd) as (r & Hr & _ & W). exists r. split; [exact Hr|]. rewrite <- Vd. exact W.
Qed.
Theorem unix_err e x u : to_utc_duration e = Some x -> canon x ->
  exists r, to_unix e u = Some r /\ within_unit_err r (clamp (val x - 25567 * D)) u.
Proof.
  intros H C. destruct (unix_duration_spec e x H C) as (d & Hd & Cd & Vd).
  destruct (float_of_view _ u d Hd Cd) as (r & Hr & _ & W). exists r. split; [exact Hr|]. rewrite <- Vd. exact W.
Qed.
Theorem tt_centuries_j2k_err e x : to_tt_duration e = Some x -> canon x ->
  exists r, to_tt_centuries_j2k e = Some r /\ within_unit_err r (clamp (val x - 3155716800 * 1000000000)) Century.
Proof.
  intros H C. destruct (tt_since_j2k_spec e x H C) as (d & Hd & Cd & Vd).
  destruct (float_of_view _ Century d Hd Cd) as (r & Hr & _ & W). exists r. split; [exact Hr|]. rewrite <- Vd. exact W.
Qed.

Lemma clamp_mono a b : a <= b -> clamp a <= clamp b.
Proof. unfold clamp. lits. lia. Qed.

(* a later UTC count never reads as an earlier Julian date or UNIX time *)
Theorem jde_utc_days_monotone e1 e2 x1 x2 r1 r2 :
  to_utc_duration e1 = Some x1 -> to_utc_duration e2 = Some x2 -> canon x1 -> canon x2 -> val x1 <= val x2 ->
  to_jde_utc_days e1 = Some r1 -> to_jde_utc_days e2 = Some r2 -> (B2R r1 <= B2R r2)%R.
Proof.
  intros H1 H2 C1 C2 L R1 R2.
  destruct (jde_utc_duration_spec e1 x1 H1 C1) as (d1 & Hd1 & Cd1 & Vd1).
  destruct (jde_utc_duration_spec e2 x2 H2 C2) as (d2 & Hd2 & Cd2 & Vd2).
  unfold to_jde_utc_days, omap in R1, R2. rewrite Hd1 in R1. rewrite Hd2 in R2. cbn [option_map] in R1, R2.
  injection R1 as <-. injection R2 as <-.
  apply to_unit_monotone; [exact Cd1|exact Cd2|]. rewrite Vd1, Vd2. apply clamp_mono. lia.
Qed.
Theorem unix_monotone e1 e2 x1 x2 u r1 r2 :
  to_utc_duration e1 = Some x1 -> to_utc_duration e2 = Some x2 -> canon x1 -> canon x2 -> val x1 <= val x2 ->
  to_unix e1 u = Some r1 -> to_unix e2 u = Some r2 -> (B2R r1 <= B2R r2)%R.
Proof.
  intros H1 H2 C1 C2 L R1 R2.
  destruct (unix_duration_spec e1 x1 H1 C1) as (d1 & Hd1 & Cd1 & Vd1).
  destruct (unix_duration_spec e2 x2 H2 C2) as (d2 & Hd2 & Cd2 & Vd2).
  unfold to_unix, omap in R1, R2. rewrite Hd1 in R1. rewrite Hd2 in R2. cbn [option_map] in R1, R2.
  injection R1 as <-. injection R2 as <-.
  apply to_unit_monotone; [exact Cd1|exact Cd2|]. rewrite Vd1, Vd2. apply clamp_mono. lia.
Qed.

(* Epoch::day_of_year: the days elapsed in the year, plus one, within 2^-40 day (a tenth of a nanosecond) *)
Theorem day_of_year_err e d : duration_in_year_fast e = Some d -> canon d -> 0 <= val d < 367 * D ->
  exists r, day_of_year e = Some r /\ is_finite r = true /\
            (Rabs (B2R r - (IZR (val d) / IZR D + 1)) <= bpow radix2 (-40))%R.
Proof.
  intros H C V. unfold day_of_year, omap. rewrite H. cbn [option_map].
  eexists. split; [reflexivity|].
  destruct (to_unit_err d Day C) as [FT ET]. cbv zeta in ET.
  change (spec_unit_factor Day) with D in ET.
  set (X := (IZR (val d) / IZR D)%R) in *. set (T := to_unit d Day) in *.
  assert (X0 : (0 <= X < 367)%R).
  { unfold X. assert (0 <= IZR (val d))%R by (apply IZR_le; lia).
    assert (IZR (val d) < 367 * 86400000000000)%R by (replace (367 * 86400000000000)%R with (IZR (367 * D)) by (rewrite mult_IZR; reflexivity); apply IZR_lt; lia).
    split; [apply Rmult_le_pos; [assumption|lra]|]. apply Rmult_lt_reg_r with 86400000000000%R; [lra|]. unfold Rdiv. rewrite Rmult_assoc, Rinv_l by lra. lra. }
  assert (U : (bpow radix2 (-53) = / 9007199254740992)%R) by (change (-53) with (- (53)); rewrite (bpow_neg 53) by lia; reflexivity).
  assert (B49 : (bpow radix2 (-49) = 16 * / 9007199254740992)%R)
    by (change (-49) with (4 + - (53)); rewrite bpow_plus, (bpow_neg 53) by lia; simpl bpow at 1; change (2 ^ 53) with 9007199254740992; lra).
  assert (B40 : (bpow radix2 (-40) = 8192 * / 9007199254740992)%R)
    by (change (-40) with (13 + - (53)); rewrite bpow_plus, (bpow_neg 53) by lia; simpl bpow at 1; change (2 ^ 53) with 9007199254740992; lra).
  unfold u53 in ET. rewrite U, B49 in ET. rewrite (Rabs_pos_eq X) in ET by lra.
  assert (ET' : (Rabs (B2R T - X) <= 1900 * / 9007199254740992)%R).
  { eapply Rle_trans; [exact ET|].
    assert (5 * / 9007199254740992 * X <= 5 * / 9007199254740992 * 367)%R by (apply Rmult_le_compat_l; lra).
    assert (16 * / 9007199254740992 / (86400000000000 / 1000000000) <= 16 * / 9007199254740992)%R.
    { unfold Rdiv. rewrite <- (Rmult_1_r (16 * / 9007199254740992)) at 2. apply Rmult_le_compat_l; [lra|].
      rewrite <- Rinv_1. apply Rinv_le_contravar; lra. }
    lra. }
  destruct (f_of_Z_exact 1) as [R1 F1]; [vm_compute; discriminate|].
  pose proof (Bplus_correct 53 1024 Hp Hpe mode_NE T (f_of_Z 1) FT F1) as M. rewrite R1 in M.
  set (z := (B2R T + 1)%R) in *.
  assert (TB : (Rabs (B2R T) <= 368)%R).
  { replace (B2R T) with (X + (B2R T - X))%R by ring. eapply Rle_trans; [apply Rabs_triang|]. rewrite (Rabs_pos_eq X) by lra. lra. }
  assert (zb : (Rabs z <= 369)%R) by (unfold z; eapply Rle_trans; [apply Rabs_triang|]; rewrite Rabs_R1; lra).
  rewrite Rlt_bool_true in M.
  2:{ apply round_lt_emax. apply Rle_trans with 369%R; [exact zb|]. apply IZR_le. vm_compute. discriminate. }
  destruct M as (M1 & M2 & _). split; [exact M2|].
  fold (fadd T (f_of_Z 1)) in M1. rewrite M1.
  pose proof (rnd_err z) as E. unfold u53 in E. rewrite U in E.
  assert (TN : (tiny <= / 9007199254740992)%R).
  { unfold tiny. apply Rle_trans with (bpow radix2 (-53)); [apply bpow_le; lia|]. rewrite U. lra. }
  replace (round radix2 fexp64 (round_mode mode_NE) z - (X + 1))%R with ((round radix2 fexp64 (round_mode mode_NE) z - z) + (B2R T - X))%R by (unfold z; ring).
  eapply Rle_trans; [apply Rabs_triang|]. rewrite B40.
  assert (/ 9007199254740992 * Rabs z <= / 9007199254740992 * 369)%R by (apply Rmult_le_compat_l; lra).
  lra.
Qed.
