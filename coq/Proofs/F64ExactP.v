(* Unit * f64 is exactly the product whenever the product is a whole number of nanoseconds below 2^53 (C18), hence
   Epoch + f64 integer seconds is exact (C04) -- Flocq reasoning over the reals. *)
From Coq Require Import ZArith Bool Lia ZifyBool List Reals Lra.
From Flocq Require Import Core.Core IEEE754.BinarySingleNaN.
From HF Require Import MachInt MachIntP GenConsts GenUnits Duration Epoch F64 DurationF64 SignedNs DurationP F64P.
Import ListNotations.
Open Scope Z_scope.

Notation fexp64 := (SpecFloat.fexp 53 1024).
Lemma int_in_format z : Z.abs z <= 2 ^ 53 -> generic_format radix2 fexp64 (IZR z).
Proof.
  intros Hz. change (2 ^ 53) with 9007199254740992 in Hz.
  apply generic_format_FLT.
  destruct (Z.eq_dec (Z.abs z) 9007199254740992) as [E|NE].
  - exists (Float radix2 (z / 2) 1); unfold F2R; simpl.
    + assert (z = 2 * (z / 2)) as H by (destruct (Z.abs_spec z) as [[? ?]|[? ?]]; [assert (z = 9007199254740992) by lia|assert (z = -9007199254740992) by lia]; subst; reflexivity).
      rewrite H at 1. rewrite mult_IZR. lra.
    + destruct (Z.abs_spec z) as [[? ?]|[? ?]]; [assert (z = 9007199254740992) by lia|assert (z = -9007199254740992) by lia]; subst; vm_compute; reflexivity.
    + vm_compute; discriminate.
  - exists (Float radix2 z 0); unfold F2R; simpl; [lra | change (Z.pow_pos 2 53) with 9007199254740992; lia | vm_compute; discriminate].
Qed.

(* the real value of a float given by its bit pattern, when it is an integer: decided on the float itself *)
Definition is_int_float (x : f64) (n : Z) : bool :=
  match x with
  | B754_zero _ => n =? 0
  | B754_finite s m e _ => (0 <=? e) && (n =? (if s then - (Z.pos m * 2 ^ e) else Z.pos m * 2 ^ e))
                           || ((e <? 0) && (Z.pos m mod 2 ^ (- e) =? 0) && (n =? (if s then - (Z.pos m / 2 ^ (- e)) else Z.pos m / 2 ^ (- e))))
  | _ => false
  end.
Lemma is_int_float_sound x n : is_int_float x n = true -> is_finite x = true /\ B2R x = IZR n.
Proof.
  destruct x as [s|s| |s m e B]; cbn [is_int_float is_finite B2R]; try discriminate.
  - intros H. split; [reflexivity|]. assert (n = 0) by lia. subst. reflexivity.
  - intros H. split; [reflexivity|]. unfold F2R, cond_Zopp. cbn [Fnum Fexp].
    apply orb_true_iff in H. destruct H as [H|H].
    + apply andb_true_iff in H. destruct H as [He Hn]. assert (0 <= e) by lia.
      rewrite <- (IZR_Zpower radix2 e) by lia. change (Z.pow (radix_val radix2) e) with (2 ^ e).
      assert (n = if s then - (Z.pos m * 2 ^ e) else Z.pos m * 2 ^ e) by lia. subst n.
      destruct s; cbn [cond_Zopp]; rewrite <- mult_IZR; f_equal; lia.
    + apply andb_true_iff in H. destruct H as [H Hn]. apply andb_true_iff in H. destruct H as [He Hm].
      assert (e < 0) by lia. assert (Hdiv : Z.pos m = (Z.pos m / 2 ^ (- e)) * 2 ^ (- e)).
      { pose proof (Z.div_mod (Z.pos m) (2 ^ (- e)) ltac:(apply Z.pow_nonzero; lia)). lia. }
      assert (n = if s then - (Z.pos m / 2 ^ (- e)) else Z.pos m / 2 ^ (- e)) by lia. subst n.
      set (k := Z.pos m / 2 ^ (- e)) in *.
      replace (bpow radix2 e) with (/ IZR (2 ^ (- e)))%R.
      2:{ change (2 ^ (- e)) with (Z.pow (radix_val radix2) (- e)). rewrite (IZR_Zpower radix2 (- e)) by lia. rewrite <- bpow_opp. f_equal. lia. }
      assert (P : (0 < IZR (2 ^ (- e)))%R) by (apply IZR_lt; apply Z.pow_pos_nonneg; lia).
      destruct s; cbn [cond_Zopp]; [change (Z.neg m) with (- Z.pos m); rewrite !opp_IZR|]; rewrite Hdiv at 1; rewrite mult_IZR; field; lra.
Qed.

(* closed facts about the constants of Unit * f64, decided on the floats themselves *)
Lemma factor_is_int u : is_int_float (unit_factor_f64 u) (spec_unit_factor u) = true.
Proof. destruct u; vm_compute; reflexivity. Qed.
Definition sat_hi (u : unit_t) : f64 := fdiv (f_of_bits F64_MAX_BITS) (unit_factor_f64 u).
Definition sat_lo (u : unit_t) : f64 := fdiv (fneg (f_of_bits F64_MAX_BITS)) (unit_factor_f64 u).
Definition two53 : f64 := f_of_Z (2 ^ 53).
Definition two63 : f64 := f_of_bits I64_MAX_AS_F64_BITS.
Lemma sat_bounds u : is_finite (sat_hi u) = true /\ is_finite (sat_lo u) = true /\
  Bcompare two53 (sat_hi u) = Some Lt /\ Bcompare (sat_lo u) (Bopp two53) = Some Lt.
Proof. destruct u; repeat split; vm_compute; reflexivity. Qed.
Lemma two53_int : is_int_float two53 (2 ^ 53) = true. Proof. vm_compute. reflexivity. Qed.
Lemma two63_int : is_int_float two63 (2 ^ 63) = true. Proof. vm_compute. reflexivity. Qed.
Lemma factor_pos u : 1 <= spec_unit_factor u. Proof. destruct u; vm_compute; discriminate. Qed.

Lemma round_int n : Z.abs n <= 2 ^ 53 -> round radix2 fexp64 (round_mode mode_NE) (IZR n) = IZR n.
Proof. intros H. apply round_generic; [apply valid_rnd_N|apply int_in_format; exact H]. Qed.
Lemma trunc_int n : round radix2 (FIX_exp 0) Ztrunc (IZR n) = IZR n.
Proof.
  apply round_generic; [apply valid_rnd_ZR|]. apply generic_format_FIX. exists (Float radix2 n 0); [unfold F2R; simpl; lra|reflexivity].
Qed.

Lemma opt_inj {A} (a b : A) : Some a = Some b -> a = b. Proof. congruence. Qed.

Theorem unit_mul_f64_exact_whole u q n :
  is_finite q = true -> (B2R q * IZR (spec_unit_factor u) = IZR n)%R -> Z.abs n < 2 ^ 53 ->
  canon (unit_mul_f64 u q) /\ val (unit_mul_f64 u q) = n.
Proof.
  intros Fq Hprod Hn.
  destruct (is_int_float_sound _ _ (factor_is_int u)) as [Ff Rf].
  destruct (is_int_float_sound _ _ two53_int) as [F53 R53].
  destruct (is_int_float_sound _ _ two63_int) as [F63 R63].
  destruct (sat_bounds u) as (Fhi & Flo & Chi & Clo).
  pose proof (factor_pos u) as Hf1. apply IZR_le in Hf1.
  set (f := IZR (spec_unit_factor u)) in *.
  assert (Habs : (Rabs (B2R q) <= Rabs (IZR n))%R).
  { rewrite <- Hprod, Rabs_mult. rewrite (Rabs_pos_eq f) by lra.
    rewrite <- (Rmult_1_r (Rabs (B2R q))) at 1. apply Rmult_le_compat_l; [apply Rabs_pos|lra]. }
  assert (Hn53 : (Rabs (IZR n) < IZR (2 ^ 53))%R) by (rewrite <- abs_IZR; apply IZR_lt; exact Hn).
  assert (Hq : (- IZR (2 ^ 53) < B2R q < IZR (2 ^ 53))%R).
  { assert (Rabs (B2R q) < IZR (2 ^ 53))%R by lra. apply Rabs_def2 in H. lra. }
  (* the two saturation tests are false *)
  rewrite (Bcompare_correct _ _ two53 (sat_hi u) F53 Fhi) in Chi. apply opt_inj in Chi. apply Rcompare_Lt_inv in Chi. rewrite R53 in Chi.
  assert (FO : is_finite (Bopp two53) = true) by (rewrite is_finite_Bopp; exact F53).
  rewrite (Bcompare_correct _ _ (sat_lo u) (Bopp two53) Flo FO) in Clo. apply opt_inj in Clo. apply Rcompare_Lt_inv in Clo.
  rewrite B2R_Bopp, R53 in Clo.
  unfold unit_mul_f64. fold (sat_hi u). fold (sat_lo u).
  assert (G1 : fge q (sat_hi u) = false).
  { unfold fge. rewrite (Bcompare_correct _ _ q (sat_hi u) Fq Fhi). rewrite Rcompare_Lt by lra. reflexivity. }
  assert (G2 : fle q (sat_lo u) = false).
  { unfold fle. rewrite (Bcompare_correct _ _ q (sat_lo u) Fq Flo). rewrite Rcompare_Gt by lra. reflexivity. }
  rewrite G1, G2.
  (* the product is exact *)
  set (total := fmul q (unit_factor_f64 u)).
  assert (HT : B2R total = IZR n /\ is_finite total = true).
  { pose proof (Bmult_correct 53 1024 Hp Hpe mode_NE q (unit_factor_f64 u)) as M.
    rewrite Rf in M. fold f in M. rewrite Hprod in M. rewrite round_int in M by lia.
    rewrite Rlt_bool_true in M.
    - destruct M as (M1 & M2 & _). split; [exact M1|]. unfold total, fmul. rewrite M2, Fq, Ff. reflexivity.
    - apply Rlt_trans with (IZR (2 ^ 53)); [exact Hn53|]. change (bpow radix2 1024) with (IZR (2 ^ 1024)). apply IZR_lt. reflexivity. }
  destruct HT as [RT FT].
  assert (G3 : flt (fabs total) two63 = true).
  { unfold flt, fabs. rewrite (Bcompare_correct _ _ (Babs total) two63); [|rewrite is_finite_Babs; exact FT|exact F63].
    rewrite B2R_Babs, RT, R63. rewrite Rcompare_Lt; [reflexivity|].
    apply Rlt_trans with (IZR (2 ^ 53)); [exact Hn53|]. apply IZR_lt. reflexivity. }
  fold two63. rewrite G3.
  clearbody total.
  assert (G4 : f_to_int I64_MIN I64_MAX total = n).
  { assert (BT : Btrunc total = n).
    { apply eq_IZR. rewrite (Btrunc_correct 53 1024 Hpe total), RT. apply trunc_int. }
    clear - Hn BT FT. unfold f_to_int. destruct total as [s|s| |s m e B]; try discriminate FT; cbv zeta; rewrite BT;
      unfold I64_MIN, I64_MAX; change (2 ^ 53) with 9007199254740992 in Hn;
      (destruct (n <? -9223372036854775808) eqn:A; [lia|]); (destruct (9223372036854775807 <? n) eqn:C; [lia|]); reflexivity. }
  rewrite G4. apply from_truncated_spec. clear - Hn. unfold in_i64, in_range, I64_MIN, I64_MAX. change (2 ^ 53) with 9007199254740992 in Hn. lia.
Qed.

(* integers up to 2^53 convert exactly *)
Lemma f_of_Z_exact z : Z.abs z <= 2 ^ 53 -> B2R (f_of_Z z) = IZR z /\ is_finite (f_of_Z z) = true.
Proof.
  intros Hz. unfold f_of_Z.
  pose proof (binary_normalize_correct 53 1024 Hp Hpe mode_NE z 0 false) as H.
  cbv zeta in H. replace (F2R (Float radix2 z 0)) with (IZR z) in H by (unfold F2R; simpl; lra).
  rewrite round_int in H by exact Hz.
  rewrite Rlt_bool_true in H.
  - destruct H as [H1 [H2 _]]. split; assumption.
  - rewrite <- abs_IZR. apply Rle_lt_trans with (IZR (2 ^ 53)); [apply IZR_le; exact Hz|].
    change (bpow radix2 1024) with (IZR (2 ^ 1024)). apply IZR_lt. reflexivity.
Qed.
(* a whole number of units whose nanosecond count is below 2^53: Unit * f64 is Unit * i64 *)
Theorem unit_mul_f64_of_int u k : Z.abs (k * spec_unit_factor u) < 2 ^ 53 ->
  unit_mul_f64 u (f_of_Z k) = unit_mul_i64 u k.
Proof.
  intros H. pose proof (factor_pos u) as F1.
  assert (Hk : Z.abs k <= 2 ^ 53) by (change (2 ^ 53) with 9007199254740992 in *; nia).
  destruct (f_of_Z_exact k Hk) as [R F].
  destruct (unit_mul_f64_exact_whole u (f_of_Z k) (k * spec_unit_factor u) F) as [C V]; [rewrite R, mult_IZR; reflexivity|exact H|].
  assert (I64 : in_i64 k) by (unfold in_i64, in_range, I64_MIN, I64_MAX; change (2 ^ 53) with 9007199254740992 in *; lia).
  destruct (unit_mul_spec u k I64) as [C2 V2].
  apply canon_unique; [exact C|exact C2|]. rewrite V, V2. symmetry. apply clamp_id.
  change (2 ^ 53) with 9007199254740992 in H. unfold MINV, MAXV. lits. lia.
Qed.

(* ---- the general form ---- *)
Definition two126 : f64 := f_of_bits 5174635971848699904.   (* 2^126 *)
Lemma two126_int : is_int_float two126 (2 ^ 126) = true. Proof. vm_compute. reflexivity. Qed.
Lemma sat_bounds126 u : Bcompare two126 (sat_hi u) = Some Lt /\ Bcompare (sat_lo u) (Bopp two126) = Some Lt.
Proof. destruct u; split; vm_compute; reflexivity. Qed.

(* the general form: whenever the real product is an integer that is itself a double (and below 2^126), Unit * f64 returns it, clamped *)
Theorem unit_mul_f64_exact_repr u q n :
  is_finite q = true -> (B2R q * IZR (spec_unit_factor u) = IZR n)%R ->
  generic_format radix2 fexp64 (IZR n) -> Z.abs n < 2 ^ 126 ->
  canon (unit_mul_f64 u q) /\ val (unit_mul_f64 u q) = clamp n.
Proof.
  intros Fq Hprod Hfmt Hn.
  destruct (is_int_float_sound _ _ (factor_is_int u)) as [Ff Rf].
  destruct (is_int_float_sound _ _ two126_int) as [F126 R126].
  destruct (is_int_float_sound _ _ two63_int) as [F63 R63].
  destruct (sat_bounds u) as (Fhi & Flo & _ & _). destruct (sat_bounds126 u) as (Chi & Clo).
  pose proof (factor_pos u) as Hf1. apply IZR_le in Hf1.
  set (f := IZR (spec_unit_factor u)) in *.
  assert (Habs : (Rabs (B2R q) <= Rabs (IZR n))%R).
  { rewrite <- Hprod, Rabs_mult. rewrite (Rabs_pos_eq f) by lra.
    rewrite <- (Rmult_1_r (Rabs (B2R q))) at 1. apply Rmult_le_compat_l; [apply Rabs_pos|lra]. }
  assert (Hnb : (Rabs (IZR n) < IZR (2 ^ 126))%R) by (rewrite <- abs_IZR; apply IZR_lt; exact Hn).
  assert (Hq : (- IZR (2 ^ 126) < B2R q < IZR (2 ^ 126))%R).
  { assert (Rabs (B2R q) < IZR (2 ^ 126))%R by lra. apply Rabs_def2 in H. lra. }
  rewrite (Bcompare_correct _ _ two126 (sat_hi u) F126 Fhi) in Chi. apply opt_inj in Chi. apply Rcompare_Lt_inv in Chi. rewrite R126 in Chi.
  assert (FO : is_finite (Bopp two126) = true) by (rewrite is_finite_Bopp; exact F126).
  rewrite (Bcompare_correct _ _ (sat_lo u) (Bopp two126) Flo FO) in Clo. apply opt_inj in Clo. apply Rcompare_Lt_inv in Clo.
  rewrite B2R_Bopp, R126 in Clo.
  unfold unit_mul_f64. fold (sat_hi u). fold (sat_lo u).
  assert (G1 : fge q (sat_hi u) = false).
  { unfold fge. rewrite (Bcompare_correct _ _ q (sat_hi u) Fq Fhi). rewrite Rcompare_Lt by lra. reflexivity. }
  assert (G2 : fle q (sat_lo u) = false).
  { unfold fle. rewrite (Bcompare_correct _ _ q (sat_lo u) Fq Flo). rewrite Rcompare_Gt by lra. reflexivity. }
  rewrite G1, G2.
  set (total := fmul q (unit_factor_f64 u)).
  assert (HT : B2R total = IZR n /\ is_finite total = true).
  { pose proof (Bmult_correct 53 1024 Hp Hpe mode_NE q (unit_factor_f64 u)) as M.
    rewrite Rf in M. fold f in M. rewrite Hprod in M.
    rewrite (round_generic radix2 fexp64 (round_mode mode_NE) (IZR n) Hfmt) in M.
    rewrite Rlt_bool_true in M.
    - destruct M as (M1 & M2 & _). split; [exact M1|]. unfold total, fmul. rewrite M2, Fq, Ff. reflexivity.
    - apply Rlt_trans with (IZR (2 ^ 126)); [exact Hnb|]. change (bpow radix2 1024) with (IZR (2 ^ 1024)). apply IZR_lt. reflexivity. }
  destruct HT as [RT FT].
  assert (BT : Btrunc total = n).
  { apply eq_IZR. rewrite (Btrunc_correct 53 1024 Hpe total), RT. apply trunc_int. }
  assert (CMP : flt (fabs total) two63 = (Z.abs n <? 2 ^ 63)).
  { unfold flt, fabs. rewrite (Bcompare_correct _ _ (Babs total) two63); [|rewrite is_finite_Babs; exact FT|exact F63].
    rewrite B2R_Babs, RT, R63, <- abs_IZR.
    destruct (Z.abs n <? 2 ^ 63) eqn:E.
    - rewrite Rcompare_Lt; [reflexivity|apply IZR_lt; lia].
    - destruct (Z.eq_dec (Z.abs n) (2 ^ 63)) as [Q|Q].
      + rewrite Q, Rcompare_Eq; reflexivity.
      + rewrite Rcompare_Gt; [reflexivity|apply IZR_lt; lia]. }
  fold two63. rewrite CMP. clearbody total.
  change (2 ^ 126) with 85070591730234615865843651857942052864 in Hn.
  destruct (Z.abs n <? 2 ^ 63) eqn:E.
  - assert (G4 : f_to_int I64_MIN I64_MAX total = n).
    { clear - Hn E BT FT. unfold f_to_int. destruct total as [s|s| |s m e B]; try discriminate FT; cbv zeta; rewrite BT;
        unfold I64_MIN, I64_MAX; change (2 ^ 63) with 9223372036854775808 in E;
        (destruct (n <? -9223372036854775808) eqn:A; [lia|]); (destruct (9223372036854775807 <? n) eqn:C; [lia|]); reflexivity. }
    rewrite G4. change (2 ^ 63) with 9223372036854775808 in E.
    destruct (from_truncated_spec n) as [C V]; [clear - E; unfold in_i64, in_range, I64_MIN, I64_MAX; lia|].
    split; [exact C|]. rewrite V. symmetry. apply clamp_id. clear - E. unfold MINV, MAXV. lits. lia.
  - assert (G4 : f_to_int I128_MIN I128_MAX total = n).
    { clear - Hn E BT FT. unfold f_to_int. destruct total as [s|s| |s m e B]; try discriminate FT; cbv zeta; rewrite BT;
        unfold I128_MIN, I128_MAX;
        (destruct (n <? -170141183460469231731687303715884105728) eqn:A; [lia|]); (destruct (170141183460469231731687303715884105727 <? n) eqn:C; [lia|]); reflexivity. }
    rewrite G4. apply from_total_spec.
Qed.

(* C04: adding integer-valued float seconds to an epoch is adding that many whole seconds, in the epoch's own scale *)
From HF Require Import Gregorian Views.
Theorem epoch_add_f64_integer e k : Z.abs (k * 1000000000) < 2 ^ 53 ->
  epoch_add_f64 e (f_of_Z k) = epoch_add e (unit_mul_i64 Second k).
Proof.
  intros H. unfold epoch_add_f64, epoch_add. rewrite (unit_mul_f64_of_int Second k H). reflexivity.
Qed.

(* whole days: d days is d * 1318359375 * 2^16 ns, a double for |d| <= 6 800 000 (18 600 years) *)
Lemma whole_days_in_format d : Z.abs d <= 6800000 -> generic_format radix2 fexp64 (IZR (d * 86400000000000)).
Proof.
  intros H. apply generic_format_FLT. exists (Float radix2 (d * 1318359375) 16).
  - unfold F2R. cbn [Fnum Fexp]. change (bpow radix2 16) with (IZR 65536). rewrite <- mult_IZR. f_equal. lia.
  - cbn [Fnum]. change (Z.abs (d * 1318359375) < 9007199254740992). lia.
  - cbn [Fexp]. vm_compute. discriminate.
Qed.
Theorem unit_mul_f64_whole_days q d : is_finite q = true -> B2R q = IZR d -> Z.abs d <= 6800000 ->
  unit_mul_f64 Day q = unit_mul_i64 Day d.
Proof.
  intros Fq Rq Hd.
  destruct (unit_mul_f64_exact_repr Day q (d * 86400000000000) Fq) as [C V].
  - rewrite Rq. change (spec_unit_factor Day) with 86400000000000. rewrite mult_IZR. reflexivity.
  - apply whole_days_in_format. exact Hd.
  - change (2 ^ 126) with 85070591730234615865843651857942052864. lia.
  - assert (I64 : in_i64 d) by (unfold in_i64, in_range, I64_MIN, I64_MAX; lia).
    destruct (unit_mul_spec Day d I64) as [C2 V2].
    apply canon_unique; [exact C|exact C2|]. rewrite V, V2. reflexivity.
Qed.
(* an integer Modified Julian Date, in any time scale: exactly (k - 15020) days minus the scale's calendar offset *)
Lemma fsub_int_exact a b : Z.abs a <= 2 ^ 52 -> Z.abs b <= 2 ^ 52 ->
  is_finite (fsub (f_of_Z a) (f_of_Z b)) = true /\ B2R (fsub (f_of_Z a) (f_of_Z b)) = IZR (a - b).
Proof.
  intros Ha Hb. change (2 ^ 52) with 4503599627370496 in *.
  destruct (f_of_Z_exact a) as [Ra Fa]; [change (2 ^ 53) with 9007199254740992; lia|].
  destruct (f_of_Z_exact b) as [Rb Fb]; [change (2 ^ 53) with 9007199254740992; lia|].
  pose proof (Bminus_correct 53 1024 Hp Hpe mode_NE (f_of_Z a) (f_of_Z b) Fa Fb) as M.
  assert (X : Z.abs (a - b) <= 2 ^ 53) by (clear - Ha Hb; change (2 ^ 53) with 9007199254740992; lia).
  rewrite Ra, Rb, <- minus_IZR in M. rewrite (round_int _ X) in M.
  rewrite Rlt_bool_true in M.
  - destruct M as (M1 & M2 & _). split; [exact M2|exact M1].
  - rewrite <- abs_IZR. apply Rle_lt_trans with (IZR (2 ^ 53)); [apply IZR_le; exact X|].
    change (bpow radix2 1024) with (IZR (2 ^ 1024)). apply IZR_lt. reflexivity.
Qed.
Lemma mjd_j1900_eq : mjd_j1900 = f_of_Z 15020.
Proof.
  destruct (is_int_float_sound mjd_j1900 15020 ltac:(vm_compute; reflexivity)) as [F R].
  destruct (f_of_Z_exact 15020 ltac:(vm_compute; discriminate)) as [R2 F2].
  apply B2R_Bsign_inj; [exact F|exact F2|rewrite R, R2; reflexivity|vm_compute; reflexivity].
Qed.
(* C17: an integer Modified Julian Date in any time scale is exactly (k - 15020) days minus the scale's calendar offset *)
Theorem from_mjd_integer k t : Z.abs k <= 2 ^ 52 -> Z.abs (k - 15020) <= 6800000 ->
  from_mjd_in_time_scale (f_of_Z k) t = mkE (dur_sub (unit_mul_i64 Day (k - 15020)) (gregorian_epoch_offset t)) t.
Proof.
  intros Hk Hd. unfold from_mjd_in_time_scale. rewrite mjd_j1900_eq.
  destruct (fsub_int_exact k 15020 Hk ltac:(vm_compute; discriminate)) as [F R].
  rewrite (unit_mul_f64_whole_days _ (k - 15020) F R Hd). reflexivity.
Qed.
