(* Totality of the parsers (C13): the models never answer PPanic, for every input string. *)
From Coq Require Import ZArith Bool Lia ZifyBool List.
From Flocq Require Import IEEE754.BinarySingleNaN.
From HF Require Import MachInt MachIntP GenConsts GenText GenUnicode Text Duration Epoch Gregorian F64 DurationF64 Views TextFmt TextParse.
Import ListNotations.
Open Scope Z_scope.

(* ---- the field array: what value_ok admits fits the u8 / u32 conversions ---- *)
Definition dec_ok (d : list Z) : Prop :=
  (9 <= length d)%nat /\ 0 <= dec_nth d 1 <= 13 /\ 0 <= dec_nth d 2 <= 31 /\ 0 <= dec_nth d 3 <= 23 /\
  0 <= dec_nth d 4 <= 59 /\ 0 <= dec_nth d 5 <= 60 /\ 0 <= dec_nth d 6.

Lemma set_nth_length {A} (l : list A) : forall n x, length (set_nth n x l) = length l.
Proof. induction l as [|h t IH]; intros [|n] x; cbn; try reflexivity. rewrite IH. reflexivity. Qed.
Lemma nth_set_nth (l : list Z) : forall n k x, (n < length l)%nat -> nth k (set_nth n x l) 0 = if (k =? n)%nat then x else nth k l 0.
Proof.
  induction l as [|h t IH]; intros [|n] [|k] x H; cbn in *; try lia; try reflexivity.
  apply IH. lia.
Qed.
Lemma dec_ok_init9 : dec_ok (repeat 0 9). Proof. unfold dec_ok, dec_nth; cbn. lia. Qed.
Lemma dec_ok_init16 : dec_ok (repeat 0 16). Proof. unfold dec_ok, dec_nth; cbn. lia. Qed.

Lemma dec_ok_set d t v v' p : dec_ok d -> value_ok t v = true -> gregorian_position t = Some p ->
  (t = T_Subsecond -> 0 <= v') -> (t <> T_Subsecond -> v' = v) -> dec_ok (set_nth p v' d).
Proof.
  intros (L & D1 & D2 & D3 & D4 & D5 & D6) V P S NS.
  unfold gregorian_position, value_ok, T_Year, T_YearShort, T_Month, T_Day, T_Hour, T_Minute, T_Second, T_Subsecond,
         T_OffsetHours, T_OffsetMinutes, T_Timescale, T_WeekdayDecimal, T_DayOfYearInteger, in_incl in *.
  unfold dec_ok, dec_nth in *. rewrite set_nth_length. split; [exact L|].
  destruct ((t =? 0) || (t =? 1)) eqn:E0.
  { injection P as <-. rewrite !nth_set_nth by lia. cbn. lia. }
  destruct (t =? 2) eqn:E2. { injection P as <-. rewrite !nth_set_nth by lia. cbn. assert (t = 2) by lia. subst t. cbn in V. specialize (NS ltac:(lia)). lia. }
  destruct (t =? 3) eqn:E3. { injection P as <-. rewrite !nth_set_nth by lia. cbn. assert (t = 3) by lia. subst t. cbn in V. specialize (NS ltac:(lia)). lia. }
  destruct (t =? 4) eqn:E4. { injection P as <-. rewrite !nth_set_nth by lia. cbn. assert (t = 4) by lia. subst t. cbn in V. specialize (NS ltac:(lia)). lia. }
  destruct (t =? 5) eqn:E5. { injection P as <-. rewrite !nth_set_nth by lia. cbn. assert (t = 5) by lia. subst t. cbn in V. specialize (NS ltac:(lia)). lia. }
  destruct (t =? 6) eqn:E6. { injection P as <-. rewrite !nth_set_nth by lia. cbn. assert (t = 6) by lia. subst t. cbn in V. specialize (NS ltac:(lia)). lia. }
  destruct (t =? 7) eqn:E7. { injection P as <-. rewrite !nth_set_nth by lia. cbn. assert (t = 7) by lia. subst t. specialize (S eq_refl). lia. }
  destruct (t =? 8) eqn:E8. { injection P as <-. rewrite !nth_set_nth by lia. cbn. lia. }
  destruct (t =? 9) eqn:E9. { injection P as <-. rewrite !nth_set_nth by lia. cbn. lia. }
  discriminate.
Qed.

Lemma pow10_nonneg k : 0 <= 10 ^ k. Proof. apply Z.pow_nonneg. lia. Qed.

(* ---- Epoch::from_gregorian_str ---- *)
Definition gtok_ok (t : Z) : Prop := t = T_Year \/ t = T_Month \/ t = T_Day \/ t = T_Hour \/ t = T_Minute \/ t = T_Second \/
  t = T_Subsecond \/ t = T_OffsetHours \/ t = T_OffsetMinutes \/ t = T_Timescale.
Definition ginv (st : gstate) : Prop := gtok_ok (g_tok st) /\ dec_ok (g_dec st).

Lemma advance_with_ok t c t' : gtok_ok t -> advance_with t c = Some t' -> gtok_ok t'.
Proof.
  unfold gtok_ok, advance_with, T_Year, T_YearShort, T_Month, T_Day, T_Hour, T_Minute, T_Second, T_Subsecond, T_OffsetHours, T_OffsetMinutes, T_Timescale.
  intros H A. destruct H as [->|[->|[->|[->|[->|[->|[->|[->|[->| ->]]]]]]]]]; cbn in A;
    repeat match type of A with (if ?b then _ else _) = _ => destruct b end; inversion A; subst; lia.
Qed.
Lemma gtok_position t : gtok_ok t -> t <> T_Timescale -> exists p, gregorian_position t = Some p.
Proof.
  unfold gtok_ok, T_Year, T_Month, T_Day, T_Hour, T_Minute, T_Second, T_Subsecond, T_OffsetHours, T_OffsetMinutes, T_Timescale.
  intros H N. destruct H as [->|[->|[->|[->|[->|[->|[->|[->|[->| ->]]]]]]]]]; try (eexists; reflexivity). contradiction.
Qed.

Lemma greg_step_inv s n st pos c : ginv st ->
  match greg_step s n st pos c with GCont st' | GBreak st' => ginv st' | GErr _ => True | GPanic => False end.
Proof.
  intros [T D]. unfold greg_step.
  destruct (negb (is_numeric c) || (S pos =? n)%nat); [|split; assumption].
  destruct (g_tok st =? T_Timescale) eqn:ET.
  - destruct (negb (S pos =? n)%nat); [|split; assumption].
    destruct (ts_from_str (skipn pos s)); [split; assumption|exact I].
  - destruct (gtok_position _ T ltac:(lia)) as [p Hp]. rewrite Hp.
    set (advance := negb (S pos =? n)%nat || negb (is_numeric c)).
    destruct (if advance then advance_with (g_tok st) c else Some (g_tok st)) as [tok'|] eqn:A; [|exact I].
    assert (T' : gtok_ok tok') by (destruct advance; [eapply advance_with_ok; eassumption|injection A as <-; exact T]).
    destruct ((if advance then pos else S pos) <? g_prev st)%nat; [exact I|].
    destruct (lex_i32 _) as [v|]; [|exact I].
    destruct (negb (value_ok (g_tok st) v)) eqn:V; [exact I|].
    destruct ((g_tok st =? T_Subsecond) && (9 <? _)) eqn:S9; [exact I|].
    cbn [g_tok g_dec]. split; [exact T'|].
    apply (dec_ok_set _ (g_tok st) v _ p D); [destruct (value_ok (g_tok st) v); [reflexivity|discriminate]|exact Hp| |].
    + intros E. rewrite E. change (T_Subsecond =? T_Subsecond) with true. cbv iota.
      assert (0 <= v) by (rewrite E in V; unfold value_ok, T_Subsecond, T_Year, T_YearShort, T_Timescale, T_WeekdayDecimal, T_Month, T_Day, T_Hour, T_OffsetHours, T_Minute, T_OffsetMinutes, T_Second in V; cbn in V; lia).
      pose proof (pow10_nonneg (9 - blen (slice_pos s (g_prev st) (if advance then pos else S pos)))). nia.
    + intros NE. destruct (g_tok st =? T_Subsecond) eqn:X; [lia|reflexivity].
Qed.
Lemma greg_loop_inv s n : forall rest st pos, ginv st ->
  match greg_loop s n st pos rest with inl st' => ginv st' | inr (inl _) => True | inr (inr _) => False end.
Proof.
  induction rest as [|c t IH]; intros st pos I; cbn [greg_loop]; [exact I|].
  pose proof (greg_step_inv s n st pos c I) as H. destruct (greg_step s n st pos c); try exact H; try contradiction.
  apply IH. exact H.
Qed.
Lemma pbind_no_panic {A B} (x : pres A) (f : A -> pres B) : x <> PPanic -> (forall a, f a <> PPanic) -> pbind x f <> PPanic.
Proof. intros Hx Hf. destruct x; cbn; try discriminate; try apply Hf. contradiction. Qed.
Lemma greg_result_no_panic r : greg_result r <> PPanic.
Proof. destruct r as [e|[| |]]; discriminate. Qed.

Theorem from_gregorian_str_total s : from_gregorian_str s <> PPanic.
Proof.
  unfold from_gregorian_str. set (t := trim s).
  pose proof (greg_loop_inv t (length t) t (mkG (repeat 0 9) UTC 1 0%nat T_Year) 0%nat) as H.
  specialize (H (conj (or_introl eq_refl) dec_ok_init9)).
  destruct (greg_loop t (length t) _ 0%nat t) as [st|[k|u]]; [|discriminate|contradiction].
  destruct H as [_ (L & D1 & D2 & D3 & D4 & D5 & D6)].
  unfold u8_of, in_incl.
  destruct ((0 <=? dec_nth (g_dec st) 1) && (dec_nth (g_dec st) 1 <=? 255)) eqn:E1; [|lia].
  destruct ((0 <=? dec_nth (g_dec st) 2) && (dec_nth (g_dec st) 2 <=? 255)) eqn:E2; [|lia].
  destruct ((0 <=? dec_nth (g_dec st) 3) && (dec_nth (g_dec st) 3 <=? 255)) eqn:E3; [|lia].
  destruct ((0 <=? dec_nth (g_dec st) 4) && (dec_nth (g_dec st) 4 <=? 255)) eqn:E4; [|lia].
  destruct ((0 <=? dec_nth (g_dec st) 5) && (dec_nth (g_dec st) 5 <=? 255)) eqn:E5; [|lia].
  destruct (dec_nth (g_dec st) 6 <? 0) eqn:E6; [lia|].
  apply pbind_no_panic; [apply greg_result_no_panic|discriminate].
Qed.

(* ---- Epoch::from_str ---- *)
Theorem epoch_from_str_total s : epoch_from_str s <> PPanic.
Proof.
  unfold epoch_from_str. destruct (blen (trim s) <? 7); [discriminate|].
  match goal with |- context[if ?b =? 0 then _ else _] => destruct (b =? 0) eqn:F end; [apply from_gregorian_str_total|].
  destruct (ts_from_str _) as [t|]; [|discriminate].
  destruct (_ <? _)%nat; [discriminate|].
  destruct (lex_f64 _) as [|x|]; try discriminate.
  destruct (f_is_nan x || f_is_inf x); [discriminate|].
  repeat match goal with |- context[if ?b then _ else _] => destruct b end; try discriminate; destruct t; discriminate.
Qed.

(* ---- Duration::from_str: parse_offset / parse_duration have no panicking operation left ---- *)
Lemma parse_offset_total s : parse_offset s <> PPanic.
Proof.
  unfold parse_offset.
  repeat match goal with
         | |- context[match ?x with _ => _ end] => destruct x eqn:?; try discriminate
         end.
Qed.
Lemma parse_duration_total s : parse_duration s <> PPanic.
Proof.
  unfold parse_duration. destruct (dur_loop s _ 0%nat s) as [st|[k|]]; try discriminate.
  destruct (negb (d_seeking st)); [destruct (unit_at s (d_prev st)); discriminate|].
  destruct (_ <? _)%nat; discriminate.
Qed.
Theorem duration_from_str_total s : duration_from_str s <> PPanic.
Proof.
  unfold duration_from_str. destruct (trim s) as [|c0 r]; [discriminate|].
  assert (H : forall sign skip, pbind (parse_duration (skipn skip (c0 :: r))) (fun d => POk (if sign =? -1 then dur_neg d else d)) <> PPanic)
    by (intros; apply pbind_no_panic; [apply parse_duration_total|discriminate]).
  destruct (c0 =? 45); [|destruct (c0 =? 43)]; cbv iota beta;
    try (destruct (parse_offset (c0 :: r)); try discriminate; apply H); apply H.
Qed.

(* ---- TimeScale / Weekday / MonthName FromStr are total by construction: an option ---- *)
Theorem name_parsers_total s :
  (exists r, ts_from_str s = r) /\ (exists r, weekday_from_str s = r) /\ (exists r, month_from_str s = r).
Proof. repeat split; eexists; reflexivity. Qed.
(* Format::from_str is total: a format or an error *)
Theorem format_from_str_total s : exists r, format_from_str s = r.
Proof. eexists. reflexivity. Qed.

(* ---- Format::parse / Epoch::from_format_str ---- *)
Definition tok17 (t : Z) : Prop := 0 <= t <= 17.
Definition fmt_wf (fmt : format) : Prop := Forall (fun it => tok17 (TextFmt.token it)) fmt.
Definition finv (st : fstate) : Prop := dec_ok (f_dec st) /\ tok17 (TextFmt.token (f_cur st)).

Lemma lookup_str_in tbl s v : lookup_str tbl s = Some v -> In v (map snd tbl).
Proof.
  unfold lookup_str. destruct (find _ tbl) as [e|] eqn:F; [|discriminate]. cbn. intros [= <-].
  apply find_some in F. apply in_map. exact (proj1 F).
Qed.
Lemma month_table_range : forallb (fun v => (1 <=? v) && (v <=? 12)) (map snd MONTH_PARSE) = true.
Proof. vm_compute. reflexivity. Qed.
Lemma month_from_str_range s m : month_from_str s = Some m -> 1 <= m <= 12.
Proof.
  intros H. apply lookup_str_in in H. pose proof month_table_range as R. rewrite forallb_forall in R.
  specialize (R _ H). lia.
Qed.
Lemma dec_ok_set0 d v : dec_ok d -> dec_ok (set_nth 0 v d).
Proof.
  intros (L & D). unfold dec_ok, dec_nth in *. rewrite set_nth_length. split; [exact L|].
  rewrite !nth_set_nth by lia. cbn. exact D.
Qed.
Lemma dec_ok_set1 d v : dec_ok d -> 1 <= v <= 12 -> dec_ok (set_nth 1 v d).
Proof.
  intros (L & D) V. unfold dec_ok, dec_nth in *. rewrite set_nth_length. split; [exact L|].
  rewrite !nth_set_nth by lia. cbn. lia.
Qed.

Lemma fparse_step_inv fmt s n st pos c : fmt_wf fmt -> finv st ->
  match fparse_step fmt s n st pos c with FCont st' | FBreak st' => finv st' | FPanic => False | _ => True end.
Proof.
  intros W [D T]. unfold fparse_step. cbv zeta.
  set (cur := f_cur st) in *. set (ct := TextFmt.token cur) in *.
  destruct (_ && _ && _ && _ && _); [split; assumption|].
  destruct (_ || _); [|split; assumption].
  destruct (_ && _); [split; assumption|].
  destruct (ct =? TextFmt.T_Timescale) eqn:ETS.
  { destruct (negb (S pos =? n)%nat); [destruct (ts_from_str _); [split; assumption|exact I]|split; assumption]. }
  destruct (c =? 90); [split; assumption|].
  set (advance := negb (S pos =? n)%nat || negb (is_numeric c)).
  match goal with |- match (match ?a with _ => _ end) with _ => _ end => destruct a as [[cur' idx']|[k|]] eqn:ADV end;
    [|exact I|split; assumption].
  assert (T' : tok17 (TextFmt.token cur')).
  { destruct advance.
    - destruct (_ && _) in ADV; [discriminate|]. destruct (_ =? _)%nat in ADV; [discriminate|].
      destruct (nth_error fmt (S (f_idx st))) as [it|] eqn:N; [|discriminate]. injection ADV as <- <-.
      unfold fmt_wf in W. rewrite Forall_forall in W. apply W. eapply nth_error_In; eassumption.
    - injection ADV as <- <-. exact T. }
  destruct (_ <? f_prev st)%nat; [exact I|].
  destruct (ct =? TextFmt.T_YearShort) eqn:EYS.
  { destruct (lex_i32 _); [|exact I]. destruct (_ <=? I32_MAX); [|exact I]. split; [apply dec_ok_set0; exact D|exact T']. }
  destruct (ct =? TextFmt.T_DayOfYear) eqn:EDY.
  { destruct (lex_f64 _); try exact I. split; assumption. }
  destruct ((ct =? TextFmt.T_Weekday) || (ct =? TextFmt.T_WeekdayShort)) eqn:EWD.
  { destruct (weekday_from_str _); [split; assumption|exact I]. }
  destruct (ct =? TextFmt.T_WeekdayDecimal) eqn:EWX; [exact I|].
  destruct ((ct =? TextFmt.T_MonthName) || (ct =? TextFmt.T_MonthNameShort)) eqn:EMN.
  { destruct (month_from_str _) as [m|] eqn:M; [|exact I]. split; [apply dec_ok_set1; [exact D|eapply month_from_str_range; eassumption]|exact T']. }
  destruct (lex_i32 _) as [v|]; [|exact I].
  destruct (negb (value_ok ct v)) eqn:V; [exact I|].
  destruct (gregorian_position ct) as [p|] eqn:P.
  - destruct ((ct =? TextFmt.T_Subsecond) && (9 <? _)) eqn:S9; [exact I|].
    split; [|exact T'].
    apply (dec_ok_set _ ct v _ p D); [destruct (value_ok ct v); [reflexivity|discriminate]|exact P| |].
    + intros E. assert (X : (ct =? TextFmt.T_Subsecond) = true) by (rewrite E; reflexivity). rewrite X.
      assert (0 <= v) by (rewrite E in V; unfold value_ok, TextParse.T_Subsecond, TextParse.T_Year, TextParse.T_YearShort, TextParse.T_Timescale, TextParse.T_WeekdayDecimal, TextParse.T_Month, TextParse.T_Day, TextParse.T_Hour, TextParse.T_OffsetHours, TextParse.T_Minute, TextParse.T_OffsetMinutes, TextParse.T_Second in V; cbn in V; lia).
      match goal with |- 0 <= v * 10 ^ ?k => pose proof (pow10_nonneg k) end. nia.
    + intros NE. destruct (ct =? TextFmt.T_Subsecond) eqn:X; [unfold TextFmt.T_Subsecond, TextParse.T_Subsecond in *; lia|reflexivity].
  - destruct (ct =? TextFmt.T_DayOfYearInteger) eqn:EDI; [split; assumption|].
    unfold gregorian_position, tok17, TextFmt.T_Year, TextFmt.T_YearShort, TextFmt.T_Month, TextFmt.T_Day, TextFmt.T_Hour, TextFmt.T_Minute,
      TextFmt.T_Second, TextFmt.T_Subsecond, TextFmt.T_OffsetHours, TextFmt.T_OffsetMinutes, TextFmt.T_Timescale, TextFmt.T_DayOfYearInteger,
      TextFmt.T_DayOfYear, TextFmt.T_Weekday, TextFmt.T_WeekdayShort, TextFmt.T_WeekdayDecimal, TextFmt.T_MonthName, TextFmt.T_MonthNameShort, TextParse.T_Year, TextParse.T_YearShort, TextParse.T_Month, TextParse.T_Day, TextParse.T_Hour, TextParse.T_Minute,
      TextParse.T_Second, TextParse.T_Subsecond, TextParse.T_OffsetHours, TextParse.T_OffsetMinutes, TextParse.T_Timescale, TextParse.T_DayOfYearInteger,
      TextParse.T_DayOfYear, TextParse.T_Weekday, TextParse.T_WeekdayShort, TextParse.T_WeekdayDecimal, TextParse.T_MonthName, TextParse.T_MonthNameShort in *.
    repeat match type of P with (if ?b then _ else _) = _ => destruct b eqn:?; [discriminate|] end. lia.
Qed.
Lemma fparse_loop_inv fmt s n : fmt_wf fmt -> forall rest st pos, finv st ->
  match fparse_loop fmt s n st pos rest with inl st' => finv st' | inr (Some None) => False | _ => True end.
Proof.
  intros W. induction rest as [|c t IH]; intros st pos I0; cbn [fparse_loop]; [exact I0|].
  pose proof (fparse_step_inv fmt s n st pos c W I0) as H. destruct (fparse_step fmt s n st pos c); try exact H; try exact I.
  apply IH. exact H.
Qed.

Theorem format_parse_total fmt s : fmt_wf fmt -> format_parse fmt s <> PPanic.
Proof.
  intros W. unfold format_parse. destruct fmt as [|it0 fr]; [discriminate|]. set (fmt := it0 :: fr) in *.
  set (t := trim s).
  assert (I0 : finv (mkF (repeat 0 16) UTC 1 None None 0%nat 0%nat it0 it0)).
  { split; [exact dec_ok_init16|]. cbn. unfold fmt_wf in W. inversion W; assumption. }
  pose proof (fparse_loop_inv fmt t (length t) W t _ 0%nat I0) as H.
  destruct (fparse_loop fmt t (length t) _ 0%nat t) as [st|[[k|]|]]; [|discriminate|contradiction|discriminate].
  destruct H as [(L & D1 & D2 & D3 & D4 & D5 & D6) _].
  apply pbind_no_panic.
  - destruct (f_doy st).
    + apply pbind_no_panic; [apply greg_result_no_panic|discriminate].
    + unfold u8_of, in_incl.
      destruct ((0 <=? dec_nth (f_dec st) 1) && (dec_nth (f_dec st) 1 <=? 255)) eqn:E1; [|lia].
      destruct ((0 <=? dec_nth (f_dec st) 2) && (dec_nth (f_dec st) 2 <=? 255)) eqn:E2; [|lia].
      destruct ((0 <=? dec_nth (f_dec st) 3) && (dec_nth (f_dec st) 3 <=? 255)) eqn:E3; [|lia].
      destruct ((0 <=? dec_nth (f_dec st) 4) && (dec_nth (f_dec st) 4 <=? 255)) eqn:E4; [|lia].
      destruct ((0 <=? dec_nth (f_dec st) 5) && (dec_nth (f_dec st) 5 <=? 255)) eqn:E5; [|lia].
      destruct (dec_nth (f_dec st) 6 <? 0) eqn:E6; [lia|]. apply greg_result_no_panic.
  - intros e. destruct (f_wd st); [destruct (weekday e); [destruct (_ =? _)|]|]; discriminate.
Qed.

(* every Format that Format::from_str builds holds tokens of the enum only *)
Lemma item_new_token tok s1 s2 : TextFmt.token (item_new tok s1 s2) = tok.
Proof.
  unfold item_new.
  repeat match goal with |- context[match ?x with pair _ _ => _ end] => destruct x end. reflexivity.
Qed.
Lemma letter_token_range : forallb (fun e => (0 <=? snd e) && (snd e <=? 17)) TOKEN_LETTERS = true.
Proof. vm_compute. reflexivity. Qed.
Lemma letter_token_tok17 c t : letter_token c = Some t -> tok17 t.
Proof.
  unfold letter_token. destruct (find _ TOKEN_LETTERS) as [e|] eqn:F; [|discriminate]. cbn. intros [= <-].
  apply find_some in F. pose proof letter_token_range as R. rewrite forallb_forall in R. specialize (R _ (proj1 F)). unfold tok17. lia.
Qed.
Lemma format_from_pieces_wf : forall pieces acc f, fmt_wf acc -> format_from_pieces pieces acc = inl f -> fmt_wf f.
Proof.
  induction pieces as [|p rest IH]; intros acc f A H; cbn [format_from_pieces] in H.
  - injection H as <-. unfold fmt_wf in *. apply Forall_rev. exact A.
  - destruct p as [|c tl]; [eapply IH; eassumption|].
    destruct (_ =? MAX_TOKENS); [discriminate|].
    destruct (letter_token c) as [t|] eqn:L; [|discriminate].
    eapply IH; [|exact H]. constructor; [|exact A]. rewrite item_new_token. eapply letter_token_tok17; eassumption.
Qed.
Theorem format_from_str_wf s f : format_from_str s = inl f -> fmt_wf f.
Proof. apply format_from_pieces_wf. constructor. Qed.

Theorem from_format_str_total s fs : from_format_str s fs <> PPanic.
Proof.
  unfold from_format_str. destruct (format_from_str fs) as [f|[|c]] eqn:F; try discriminate.
  apply format_parse_total. eapply format_from_str_wf; eassumption.
Qed.

(* ---- C19: each predefined format is the format string it documents; MAX_TOKENS bound ---- *)
From HF Require Import SignedNs TextSpec DurationP.
Theorem predefined_is_documented k : 0 <= k <= 8 -> format_from_str (DOC_FORMAT k) = inl (predefined_by_index k).
Proof.
  intros H. assert (C : k = 0 \/ k = 1 \/ k = 2 \/ k = 3 \/ k = 4 \/ k = 5 \/ k = 6 \/ k = 7 \/ k = 8) by lia.
  destruct C as [->|[->|[->|[->|[->|[->|[->|[->| ->]]]]]]]]; vm_compute; reflexivity.
Qed.
Lemma format_from_pieces_len : forall pieces acc f, Z.of_nat (length acc) <= MAX_TOKENS ->
  format_from_pieces pieces acc = inl f -> Z.of_nat (length f) <= MAX_TOKENS.
Proof.
  induction pieces as [|p rest IH]; intros acc f A H; cbn [format_from_pieces] in H.
  - injection H as <-. rewrite rev_length. exact A.
  - destruct p as [|c tl]; [eapply IH; eassumption|].
    destruct (_ =? MAX_TOKENS) eqn:E; [discriminate|].
    destruct (letter_token c) as [t|]; [|discriminate].
    eapply IH; [|exact H]. cbn [length]. lia.
Qed.
Theorem predefined_wf k : fmt_wf (predefined_by_index k).
Proof.
  assert (H : forall l, forallb (fun it => (0 <=? TextFmt.token it) && (TextFmt.token it <=? 17)) (predefined l) = true -> fmt_wf (predefined l)).
  { intros l F. unfold fmt_wf. rewrite Forall_forall. rewrite forallb_forall in F. intros it I0. specialize (F it I0). unfold tok17. lia. }
  unfold predefined_by_index.
  apply H. repeat match goal with |- context[match ?x with _ => _ end] => destruct x end; vm_compute; reflexivity.
Qed.
Theorem format_from_str_len s f : format_from_str s = inl f -> Z.of_nat (length f) <= 16.
Proof. intros H. apply format_from_pieces_len in H; [exact H|]. cbn. unfold MAX_TOKENS. lia. Qed.

(* ---- C11: Display of a Duration, from its exact count ---- *)
Lemma join_components_spec : forall vals units sp,
  join_components vals units sp =
  let parts := map (fun p => fmt_int 0 (fst p) ++ [32] ++ snd p) (filter (fun p => 0 <? fst p) (combine vals units)) in
  if sp then flat_map (fun q => 32 :: q) parts
  else match parts with [] => [] | p :: r => p ++ flat_map (fun q => 32 :: q) r end.
Proof.
  induction vals as [|v vs IH]; intros [|u us] sp; cbn [join_components combine filter map flat_map]; try (destruct sp; reflexivity).
  cbn [fst snd]. destruct (0 <? v) eqn:P.
  - rewrite IH. cbv zeta. cbn [map flat_map]. destruct sp; cbn [app]; rewrite <- ?app_assoc; reflexivity.
  - apply IH.
Qed.

Lemma decompose_sign d : fst (decompose d) = Z.sgn (centuries d).
Proof. reflexivity. Qed.

Ltac Zify.zify_post_hook ::= Z.div_mod_to_equations.
Theorem display_duration_spec d : canon d -> display_duration d = spec_display_duration (val d).
Proof.
  intros Hd. unfold display_duration, spec_display_duration. rewrite (total_canon d Hd).
  destruct (val d =? 0) eqn:Z0; [reflexivity|].
  pose proof (decompose_sign d) as SG.
  destruct (decompose d) as [sg [[[[[[D h] mi] s] ms] us] ns]] eqn:E. cbn [fst] in SG.
  pose proof (decompose_spec d sg D h mi s ms us ns Hd E) as (B0 & B1 & B2 & B3 & B4 & B5 & B6 & EQ & SN & _).
  set (a := Z.abs (val d)) in *. clearbody a.
  assert (H0 : a / 86400000000000 = D) by lia.
  assert (H1 : a / 3600000000000 mod 24 = h) by lia.
  assert (H2 : a / 60000000000 mod 60 = mi) by lia.
  assert (H3 : a / 1000000000 mod 60 = s) by lia.
  assert (H4 : a / 1000000 mod 1000 = ms) by lia.
  assert (H5 : a / 1000 mod 1000 = us) by lia.
  assert (H6 : a mod 1000 = ns) by lia.
  rewrite H0, H1, H2, H3, H4, H5, H6.
  assert (S1 : (sg =? -1) = (val d <? 0)) by (subst sg; lia). rewrite S1.
  f_equal. rewrite join_components_spec. cbv zeta.
  change DISPLAY_UNITS with [[104]; [109; 105; 110]; [115]; [109; 115]; [956; 115]; [110; 115]].
  change DISPLAY_DAYS with [100;97;121;115]. change DISPLAY_DAY with [100;97;121].
  reflexivity.
Qed.

(* ---- names print and parse back (finite domains, exhaustive) ---- *)
Theorem ts_name_roundtrip t : ts_from_str (ts_name t) = Some t.
Proof. destruct t; vm_compute; reflexivity. Qed.
Theorem weekday_name_roundtrip w : 0 <= w <= 6 ->
  weekday_from_str (weekday_long w) = Some w /\ weekday_from_str (weekday_short w) = Some w.
Proof.
  intros H. assert (C : w = 0 \/ w = 1 \/ w = 2 \/ w = 3 \/ w = 4 \/ w = 5 \/ w = 6) by lia.
  destruct C as [->|[->|[->|[->|[->|[->| ->]]]]]]; vm_compute; split; reflexivity.
Qed.
Theorem month_name_roundtrip m : 1 <= m <= 12 ->
  month_from_str (month_long m) = Some m /\ month_from_str (month_short m) = Some m.
Proof.
  intros H. assert (C : m = 1 \/ m = 2 \/ m = 3 \/ m = 4 \/ m = 5 \/ m = 6 \/ m = 7 \/ m = 8 \/ m = 9 \/ m = 10 \/ m = 11 \/ m = 12) by lia.
  destruct C as [->|[->|[->|[->|[->|[->|[->|[->|[->|[->|[->| ->]]]]]]]]]]]; vm_compute; split; reflexivity.
Qed.

(* ---- C19: the ISO 8601 formatter against the default display ---- *)
Lemma render_token_num e off y mm dd hh mi s ns it sep wd : weekday e = Some wd -> 0 <= TextFmt.token it <= 10 ->
  render_token e off (Some (y, mm, dd, hh, mi, s, ns)) it sep =
    if TextFmt.token it =? 0 then ROk (sep ++ fmt_int 4 y)
    else if TextFmt.token it =? 1 then ROk (sep ++ fmt_int 2 y)
    else if TextFmt.token it =? 2 then ROk (sep ++ fmt_int 2 mm)
    else if TextFmt.token it =? 3 then ROk (sep ++ fmt_int 2 dd)
    else if TextFmt.token it =? 4 then ROk (sep ++ fmt_int 2 hh)
    else if TextFmt.token it =? 5 then ROk (sep ++ fmt_int 2 mi)
    else if TextFmt.token it =? 6 then ROk (sep ++ fmt_int 2 s)
    else if TextFmt.token it =? 7 then (if negb (optional it) || (0 <? ns) then ROk (sep ++ fmt_int 9 ns) else ROk [])
    else if TextFmt.token it =? 8 then ROk (sep ++ render_offset off)
    else if TextFmt.token it =? 9 then RFmtError
    else if TextFmt.token it =? 10 then (if negb (optional it) || negb (ts_eqb (scale e) UTC) then ROk (sep ++ ts_name (scale e)) else ROk [])
    else RUnreachable.
Proof.
  intros W R. unfold render_token. rewrite W.
  unfold TextFmt.T_Year, TextFmt.T_YearShort, TextFmt.T_Month, TextFmt.T_Day, TextFmt.T_Hour, TextFmt.T_Minute, TextFmt.T_Second,
         TextFmt.T_Subsecond, TextFmt.T_OffsetHours, TextFmt.T_OffsetMinutes, TextFmt.T_Timescale.
  set (t := TextFmt.token it) in *.
  destruct (t =? 0) eqn:E0; [reflexivity|]. destruct (t =? 1) eqn:E1; [reflexivity|].
  destruct (t =? 2) eqn:E2; [reflexivity|]. destruct (t =? 3) eqn:E3; [reflexivity|]. destruct (t =? 4) eqn:E4; [reflexivity|].
  destruct (t =? 5) eqn:E5; [reflexivity|]. destruct (t =? 6) eqn:E6; [reflexivity|]. destruct (t =? 7) eqn:E7; [reflexivity|].
  destruct (t =? 8) eqn:E8; [reflexivity|]. destruct (t =? 9) eqn:E9; [reflexivity|]. destruct (t =? 10) eqn:E10; [reflexivity|lia].
Qed.
Lemma iso8601_items : predefined_by_index 0 =
  [mkItem 0 (Some 45) None false; mkItem 2 (Some 45) None false; mkItem 3 (Some 84) None false; mkItem 4 (Some 58) None false;
   mkItem 5 (Some 58) None false; mkItem 6 (Some 46) None false; mkItem 7 (Some 32) None false; mkItem 10 None None false].
Proof. vm_compute. reflexivity. Qed.
(* whenever the sub-second part is non-zero the ISO 8601 formatter prints exactly what Display prints *)
Lemma iso8601_is_display_when_subsecond e : weekday e <> None -> nanos_of (compute_gregorian (dur e) (scale e)) <> 0 ->
  formatter_new e (predefined_by_index 0) = ROk (display_epoch e).
Proof.
  intros W N. unfold formatter_new, formatter_render, display_epoch, gregorian_str.
  assert (NG : need_gregorian (predefined_by_index 0) = true) by (vm_compute; reflexivity). rewrite NG.
  rewrite iso8601_items.
  destruct (compute_gregorian (dur e) (scale e)) as [[[[[[y mm] dd] hh] mi] s] ns] eqn:G.
  cbn [nanos_of] in *.
  destruct (weekday e) as [wd|] eqn:WD; [|contradiction].
  assert (Z0 : (ns =? 0) = false) by lia.
  unfold render_fields. rewrite Z0. cbn [negb].
  cbn [render_items]. rewrite !(render_token_num e _ _ _ _ _ _ _ _ _ _ wd WD) by (cbn [TextFmt.token]; lia).
  cbn [TextFmt.token optional Z.eqb Pos.eqb negb orb write_sep sep_char second_sep_char rbind app].
  f_equal. rewrite ?app_nil_r. repeat (rewrite <- !app_assoc; cbn [app]). reflexivity.
Qed.
(* known finding C19 iso8601-vs-display-whole-seconds: for whole seconds the formatter prints .000000000 (its documented
   %f is not optional) and Display omits the fraction; witness 1900-01-01T00:00:00 TAI *)
Lemma iso8601_display_whole_second_witness :
  exists e, weekday e <> None /\ nanos_of (compute_gregorian (dur e) (scale e)) = 0 /\
            formatter_new e (predefined_by_index 0) <> ROk (display_epoch e).
Proof. exists (mkE (mkD 0 0) TAI). repeat split; vm_compute; discriminate. Qed.

(* ---- C09: the default text form prints exactly the civil fields of the spec ---- *)
From HF Require Import Civil LeapSpec GregorianP.
Local Notation D := 86400000000000 (only parsing).
Lemma ts_name_spec t : ts_name t = spec_scale_name t.
Proof. destruct t; vm_compute; reflexivity. Qed.
Theorem display_epoch_text d t : canon d ->
  let w := val d + spec_gregorian_zero (ts_id t) in MINV <= w <= MAXV ->
  display_epoch (mkE d t) =
    (let '(y, m, dd) := civil_of_days (w / D) in let '(h, mi, s, ns) := tod_fields (w mod D) in spec_epoch_text y m dd h mi s ns t).
Proof.
  intros C w R. unfold display_epoch, gregorian_str. cbn [dur scale].
  rewrite (compute_gregorian_spec d t C R). fold w.
  destruct (civil_of_days (w / D)) as [[y m] dd]. destruct (tod_fields (w mod D)) as [[[h mi] s] ns].
  unfold render_fields, nanos_of, spec_epoch_text. rewrite ts_name_spec.
  destruct (ns =? 0); cbn [negb]; rewrite <- ?app_assoc; reflexivity.
Qed.

(* ---- C19: the formatter prints, for each item, the field its token names, after the separators of the item before it ---- *)
Lemma render_token_spec e off f wd it sep txt : weekday e = Some wd -> spec_item_text e off f wd it = Some txt ->
  render_token e off (Some f) it sep = ROk (match txt with Some x => sep ++ x | None => [] end).
Proof.
  intros W. destruct f as [[[[[[y mm] dd] hh] mi] s] ns]. unfold spec_item_text, render_token. rewrite W.
  unfold TextFmt.T_Year, TextFmt.T_YearShort, TextFmt.T_Month, TextFmt.T_Day, TextFmt.T_Hour, TextFmt.T_Minute, TextFmt.T_Second,
         TextFmt.T_Subsecond, TextFmt.T_OffsetHours, TextFmt.T_OffsetMinutes, TextFmt.T_Timescale, TextFmt.T_DayOfYearInteger,
         TextFmt.T_DayOfYear, TextFmt.T_Weekday, TextFmt.T_WeekdayShort, TextFmt.T_WeekdayDecimal, TextFmt.T_MonthName, TextFmt.T_MonthNameShort.
  set (t := TextFmt.token it).
  destruct (t =? 0) eqn:E0; [intros [= <-]; reflexivity|]. destruct (t =? 1) eqn:E1; [intros [= <-]; reflexivity|].
  destruct (t =? 2) eqn:E2; [intros [= <-]; reflexivity|]. destruct (t =? 3) eqn:E3; [intros [= <-]; reflexivity|].
  destruct (t =? 4) eqn:E4; [intros [= <-]; reflexivity|]. destruct (t =? 5) eqn:E5; [intros [= <-]; reflexivity|].
  destruct (t =? 6) eqn:E6; [intros [= <-]; reflexivity|].
  destruct (t =? 7) eqn:E7; [intros [= <-]; destruct (negb (optional it) || (0 <? ns)); reflexivity|].
  destruct (t =? 8) eqn:E8; [intros [= <-]; reflexivity|].
  destruct (t =? 9) eqn:E9; [assert (t = 9) by lia; destruct (t =? 10) eqn:X; [lia|]; destruct (t =? 13) eqn:X2; [lia|]; destruct (t =? 14) eqn:X3; [lia|];
                             destruct (t =? 16) eqn:X4; [lia|]; destruct (t =? 17) eqn:X5; [lia|]; discriminate|].
  destruct (t =? 10) eqn:E10; [intros [= <-]; destruct (negb (optional it) || negb (ts_eqb (scale e) UTC)); reflexivity|].
  destruct (t =? 11) eqn:E11; [assert (t = 11) by lia; destruct (t =? 13) eqn:X2; [lia|]; destruct (t =? 14) eqn:X3; [lia|];
                               destruct (t =? 16) eqn:X4; [lia|]; destruct (t =? 17) eqn:X5; [lia|]; discriminate|].
  destruct (t =? 12) eqn:E12; [assert (t = 12) by lia; destruct (t =? 13) eqn:X2; [lia|]; destruct (t =? 14) eqn:X3; [lia|];
                               destruct (t =? 16) eqn:X4; [lia|]; destruct (t =? 17) eqn:X5; [lia|]; discriminate|].
  destruct (t =? 13) eqn:E13; [intros [= <-]; reflexivity|]. destruct (t =? 14) eqn:E14; [intros [= <-]; reflexivity|].
  destruct (t =? 15) eqn:E15; [assert (t = 15) by lia; destruct (t =? 16) eqn:X4; [lia|]; destruct (t =? 17) eqn:X5; [lia|]; discriminate|].
  destruct (t =? 16) eqn:E16; [intros [= <-]; reflexivity|]. destruct (t =? 17) eqn:E17; [intros [= <-]; reflexivity|]. discriminate.
Qed.

Theorem render_items_spec e off f wd : weekday e = Some wd -> forall items prev out,
  spec_render_items e off f wd prev items = Some out -> render_items e off (Some f) prev items = ROk out.
Proof.
  intros W. induction items as [|it rest IH]; intros prev out H; cbn [spec_render_items render_items] in *.
  - injection H as <-. reflexivity.
  - destruct (spec_item_text e off f wd it) as [txt|] eqn:T; [|discriminate].
    destruct (spec_render_items e off f wd (Some it) rest) as [r|] eqn:R; [|destruct txt; discriminate].
    rewrite (render_token_spec e off f wd it (write_sep prev) txt W T). cbn [rbind].
    rewrite (IH (Some it) r R). cbn [rbind].
    destruct txt as [x|]; injection H as <-; [rewrite app_assoc; reflexivity|reflexivity].
Qed.
Theorem formatter_spec e off fmt wd out : weekday e = Some wd -> need_gregorian fmt = true ->
  spec_render_items e off (compute_gregorian (dur e) (scale e)) wd None fmt = Some out ->
  formatter_render e off fmt = ROk out.
Proof.
  intros W N H. unfold formatter_render. rewrite N. apply (render_items_spec e off _ wd W). exact H.
Qed.
