(* Lemmas about the calendar model (Model/Gregorian.v) against the calendar spec (Spec/Civil.v). *)
From Coq Require Import ZArith Bool Lia ZifyBool List Znumtheory.
From HF Require Import MachInt MachIntP GenConsts GenCalendar GenLeap Duration Epoch Gregorian
     SignedNs Civil LeapSpec DurationP CivilP EpochP.
Import ListNotations.
Open Scope Z_scope.

Local Notation N := 3155760000000000000 (only parsing).
Local Notation D := 86400000000000 (only parsing).

(* ---- the generated tables are the calendar rules of the spec ---- *)
Lemma trem_zero y k : 0 < k -> (trem y k =? 0) = (y mod k =? 0).
Proof.
  intros Hk. unfold trem.
  destruct (Z.eqb_spec (Z.rem y k) 0) as [E|E]; destruct (Z.eqb_spec (y mod k) 0) as [F|F]; try reflexivity; exfalso.
  - apply F. apply Z.mod_divide; [lia|]. apply Z.rem_divide; [lia|exact E].
  - apply E. apply Z.rem_divide; [lia|]. apply Z.mod_divide; [lia|exact F].
Qed.
Lemma is_leap_year_eq y : is_leap_year y = leap y.
Proof.
  unfold is_leap_year, leap. change LEAP_MOD_A with 4. change LEAP_MOD_B with 100. change LEAP_MOD_C with 400.
  rewrite !trem_zero by lia. reflexivity.
Qed.
Lemma usual_days_eq m : 1 <= m <= 12 -> usual_days_per_month m = mlen 1901 m.
Proof. intros Hm. assert (m=1\/m=2\/m=3\/m=4\/m=5\/m=6\/m=7\/m=8\/m=9\/m=10\/m=11\/m=12) as Hc by lia.
  destruct Hc as [->|[->|[->|[->|[->|[->|[->|[->|[->|[->|[->| ->]]]]]]]]]]]; reflexivity. Qed.
Lemma usual_days_out m : m < 1 \/ 12 < m -> usual_days_per_month m = 0.
Proof.
  intros H. unfold usual_days_per_month. change USUAL_DAYS_DEFAULT with 0.
  unfold USUAL_DAYS_PER_MONTH. cbn [find fst snd].
  repeat match goal with |- context[?k =? m] => destruct (k =? m) eqn:?; [lia|] end. reflexivity.
Qed.
Lemma cumulative_days_eq lp m : 1 <= m <= 12 -> cumulative_days lp (m - 1) = cumul lp m.
Proof. intros Hm. assert (m=1\/m=2\/m=3\/m=4\/m=5\/m=6\/m=7\/m=8\/m=9\/m=10\/m=11\/m=12) as Hc by lia.
  destruct Hc as [->|[->|[->|[->|[->|[->|[->|[->|[->|[->|[->| ->]]]]]]]]]]]; destruct lp; reflexivity. Qed.
Lemma leap_count_eq y : leap_count y = Lc y. Proof. reflexivity. Qed.

(* the offsets of the calendar zero of each scale (closed, per scale) *)
Lemma gregorian_epoch_offset_val t :
  canon (gregorian_epoch_offset t) /\ val (gregorian_epoch_offset t) = spec_gregorian_zero (ts_id t).
Proof. destruct t; (split; [apply canon_canonb|]); vm_compute; reflexivity. Qed.

(* ---- days on which second = 60 is accepted: the civil day before each table entry ---- *)
Definition leap_days : list (Z * Z * Z) := map (fun e => civil_of_days (fst e / 86400 - 1)) IERS_FILE.
Definition date_eqb (a b : Z * Z * Z) : bool :=
  let '(y1, m1, d1) := a in let '(y2, m2, d2) := b in (m1 =? m2) && ((d1 =? d2) && (y1 =? y2)).
Definition model_leap_clause (year month day : Z) : bool :=
  ((month =? 12) || (month =? 6)) && (day =? usual_days_per_month month)
  && (((month =? 6) && july_years year) || ((month =? 12) && january_years (wrap_signed 32 (year + 1)))).
(* the two hand-written year lists of the code are exactly the dates of the table *)
Lemma january_wrap y : in_i32 y -> january_years (wrap_signed 32 (y + 1)) = january_years (y + 1).
Proof.
  unfold in_i32, in_range, I32_MIN, I32_MAX. intros H. destruct (Z.eq_dec y 2147483647) as [->|N]; [reflexivity|].
  rewrite wrap_signed_small by (try lia; change (2 ^ (32 - 1)) with 2147483648; lia). reflexivity.
Qed.
Lemma model_leap_clause_is_table y m d : in_i32 y -> model_leap_clause y m d = existsb (date_eqb (y, m, d)) leap_days.
Proof.
  intros Hy32. unfold model_leap_clause. rewrite january_wrap by exact Hy32.
  let v := eval vm_compute in leap_days in change leap_days with v.
  unfold july_years, january_years, JULY_YEARS, JANUARY_YEARS. cbn [existsb date_eqb].
  destruct (m =? 6) eqn:M6; [assert (m = 6) by lia; subst m; change (usual_days_per_month 6) with 30|].
  - destruct (d =? 30) eqn:D30; cbn -[Z.eqb Z.add]; rewrite ?D30; cbn -[Z.eqb Z.add];
      repeat rewrite ?orb_false_r, ?andb_true_r, ?andb_false_r; reflexivity.
  - destruct (m =? 12) eqn:M12; [assert (m = 12) by lia; subst m; change (usual_days_per_month 12) with 31|].
    + destruct (d =? 31) eqn:D31; cbn -[Z.eqb Z.add]; rewrite ?D31; cbn -[Z.eqb Z.add];
        repeat rewrite ?orb_false_r, ?andb_true_r, ?andb_false_r; try reflexivity.
      repeat match goal with |- context[?y + 1 =? ?k] =>
        let k' := eval vm_compute in (k - 1) in replace (y + 1 =? k) with (y =? k') by (destruct (Z.eqb_spec (y + 1) k); destruct (Z.eqb_spec y k'); lia) end.
      reflexivity.
    + cbn -[Z.eqb Z.add]. rewrite ?M6, ?M12. cbn -[Z.eqb Z.add]. reflexivity.
Qed.

(* ---- the leap-day loops in closed form ---- *)
Lemma add_leap_days_spec n : forall a d, canon d -> val d + Z.of_nat n * D <= MAXV ->
  canon (add_leap_days a n d) /\ val (add_leap_days a n d) = val d + (Lc (a + Z.of_nat n) - Lc a) * D.
Proof.
  induction n as [|n IH]; intros a d C R; cbn [add_leap_days].
  - split; [exact C|]. replace (a + Z.of_nat 0) with a by lia. lia.
  - pose proof (canon_val_range d C) as Rd. pose proof MINV_lit. pose proof MAXV_lit.
    rewrite is_leap_year_eq. pose proof (Lc_step a) as LS.
    replace (a + Z.of_nat (S n)) with (a + 1 + Z.of_nat n) by lia.
    destruct (leap a).
    + destruct (add_unit_spec d Day C) as [C1 V1]. cbn [spec_unit_factor] in V1. rewrite clamp_id in V1 by lia.
      destruct (IH (a + 1) _ C1 ltac:(lia)) as [C2 V2]. split; [exact C2|]. rewrite V2, V1. lia.
    + destruct (IH (a + 1) d C ltac:(lia)) as [C2 V2]. split; [exact C2|]. rewrite V2. lia.
Qed.
Lemma sub_leap_days_spec n : forall a d, canon d -> MINV <= val d - Z.of_nat n * D ->
  canon (sub_leap_days a n d) /\ val (sub_leap_days a n d) = val d - (Lc (a + Z.of_nat n) - Lc a) * D.
Proof.
  induction n as [|n IH]; intros a d C R; cbn [sub_leap_days].
  - split; [exact C|]. replace (a + Z.of_nat 0) with a by lia. lia.
  - pose proof (canon_val_range d C) as Rd. pose proof MINV_lit. pose proof MAXV_lit.
    rewrite is_leap_year_eq. pose proof (Lc_step a) as LS.
    replace (a + Z.of_nat (S n)) with (a + 1 + Z.of_nat n) by lia.
    destruct (leap a).
    + destruct (sub_unit_spec d Day C) as [C1 V1]. cbn [spec_unit_factor] in V1. rewrite clamp_id in V1 by lia.
      destruct (IH (a + 1) _ C1 ltac:(lia)) as [C2 V2]. split; [exact C2|]. rewrite V2, V1. lia.
    + destruct (IH (a + 1) d C ltac:(lia)) as [C2 V2]. split; [exact C2|]. rewrite V2. lia.
Qed.

(* what validity (as the code tests it) implies about the fields *)
Lemma valid_bounds y m d h mi s ns : 0 <= m -> 0 <= d -> is_gregorian_valid y m d h mi s ns = true ->
  1 <= m <= 12 /\ 1 <= d <= 31 /\ h <= 24 /\ mi <= 59 /\ s <= 60 /\ ns <= 1000000000 /\
  (s = 60 -> model_leap_clause y m d = true /\ h = 23 /\ mi = 59).
Proof.
  intros Hm0 Hd0. unfold is_gregorian_valid, model_leap_clause. change NANOSECONDS_PER_SECOND_U32 with 1000000000. cbv zeta.
  set (lc := ((m =? 6) && july_years y || (m =? 12) && january_years (wrap_signed 32 (y + 1)))).
  set (dm := (d =? usual_days_per_month m)). set (m126 := (m =? 12) || (m =? 6)).
  set (mb := (usual_days_per_month m <? d) && (negb (m =? 2) || negb (is_leap_year y))).
  destruct (m126 && dm && (h =? 23) && (mi =? 59) && lc) eqn:L.
  - destruct ((m =? 0) || (12 <? m) || (d =? 0) || (31 <? d) || (24 <? h) || (59 <? mi) || (60 <? s) || (1000000000 <? ns)) eqn:B;
      [discriminate|]. destruct mb; [discriminate|]. intros _.
    apply andb_prop in L as [L Llc]. apply andb_prop in L as [L Lmi]. apply andb_prop in L as [L Lh]. apply andb_prop in L as [L1 L2].
    do 6 (split; [lia|]). intros _. split; [rewrite L1, L2, Llc; reflexivity|lia].
  - destruct ((m =? 0) || (12 <? m) || (d =? 0) || (31 <? d) || (24 <? h) || (59 <? mi) || (59 <? s) || (1000000000 <? ns)) eqn:B;
      [discriminate|]. destruct mb; [discriminate|]. intros _.
    do 6 (split; [lia|]). intros; lia.
Qed.

Lemma tod_sum_spec dd h mi s ns : 0 <= dd <= 31 -> 0 <= h <= 24 -> 0 <= mi <= 59 -> 0 <= s <= 60 -> 0 <= ns <= 1000000000 ->
  let X := dur_add (dur_add (dur_add (dur_add (unit_mul_i64 Day dd) (unit_mul_i64 Hour h)) (unit_mul_i64 Minute mi))
                            (unit_mul_i64 Second s)) (unit_mul_i64 Nanosecond ns) in
  canon X /\ val X = dd * D + h * 3600000000000 + mi * 60000000000 + s * 1000000000 + ns.
Proof.
  intros Hd Hh Hm Hs Hn. cbv zeta. pose proof MINV_lit. pose proof MAXV_lit.
  assert (I : forall z, 0 <= z <= 1000000000 -> in_i64 z) by (intros; unfold in_i64, in_range, I64_MIN, I64_MAX; lia).
  destruct (unit_mul_spec Day dd (I dd ltac:(lia))) as [C1 V1]. cbn [spec_unit_factor] in V1. rewrite clamp_id in V1 by lia.
  destruct (unit_mul_spec Hour h (I h ltac:(lia))) as [C2 V2]. cbn [spec_unit_factor] in V2. rewrite clamp_id in V2 by lia.
  destruct (unit_mul_spec Minute mi (I mi ltac:(lia))) as [C3 V3]. cbn [spec_unit_factor] in V3. rewrite clamp_id in V3 by lia.
  destruct (unit_mul_spec Second s (I s ltac:(lia))) as [C4 V4]. cbn [spec_unit_factor] in V4. rewrite clamp_id in V4 by lia.
  destruct (unit_mul_spec Nanosecond ns (I ns ltac:(lia))) as [C5 V5]. cbn [spec_unit_factor] in V5. rewrite clamp_id in V5 by lia.
  destruct (add_spec _ _ C1 C2) as [C12 V12]. rewrite V1, V2, clamp_id in V12 by lia.
  destruct (add_spec _ _ C12 C3) as [C123 V123]. rewrite V12, V3, clamp_id in V123 by lia.
  destruct (add_spec _ _ C123 C4) as [C1234 V1234]. rewrite V123, V4, clamp_id in V1234 by lia.
  destruct (add_spec _ _ C1234 C5) as [CX VX]. rewrite V1234, V5, clamp_id in VX by lia.
  split; [exact CX|]. rewrite VX. lia.
Qed.

(* the count the code computes for accepted fields *)
Definition code_total (y m d h mi s ns : Z) (t : timescale) : Z :=
  ((code_days y m d * 24 + h) * 60 + mi) * 60 * 1000000000 + s * 1000000000 + ns
  - (if s =? 60 then 1000000000 else 0) - spec_gregorian_zero (ts_id t).

Theorem maybe_from_gregorian_spec y m d h mi s ns t :
  is_gregorian_valid y m d h mi s ns = true -> 0 <= m -> 0 <= d -> 0 <= h -> 0 <= mi -> 0 <= s -> 0 <= ns ->
  Z.abs (y - 1900) <= 3000000 ->
  exists dd, maybe_from_gregorian y m d h mi s ns t = inl (mkE dd t) /\ canon dd /\ val dd = code_total y m d h mi s ns t.
Proof.
  intros V Hm0 Hd0 Hh Hmi Hs Hns Hy. destruct (valid_bounds _ _ _ _ _ _ _ Hm0 Hd0 V) as (Bm & Bd & Bh & Bmi & Bs & Bns & _).
  unfold maybe_from_gregorian. rewrite V. cbn [negb]. change HIFITIME_REF_YEAR with 1900.
  unfold I32_MIN, I32_MAX. rewrite (checked_some _ _ (y - 1900)) by lia. rewrite (checked_some _ _ ((y - 1900) * 365)) by lia.
  pose proof MINV_lit as HM1. pose proof MAXV_lit as HM2.
  set (days := (y - 1900) * 365).
  destruct (unit_mul_spec Day days) as [C0 V0]; [unfold in_i64, in_range, I64_MIN, I64_MAX, days; lia|].
  cbn [spec_unit_factor] in V0. rewrite clamp_id in V0 by (unfold days; lia).
  (* leap days of the years before *)
  assert (H1 : exists d1, (if 1900 <=? y then add_leap_days 1900 (Z.to_nat (y - 1900)) (unit_mul_i64 Day days)
                           else sub_leap_days y (Z.to_nat (1900 - y)) (unit_mul_i64 Day days)) = d1 /\
                          canon d1 /\ val d1 = (365 * (y - 1900) + (Lc y - Lc 1900)) * D).
  { destruct (1900 <=? y) eqn:E; eexists; (split; [reflexivity|]).
    - destruct (add_leap_days_spec (Z.to_nat (y - 1900)) 1900 _ C0) as [C1 V1]; [rewrite V0, Z2Nat.id by lia; unfold days; lia|].
      split; [exact C1|]. rewrite V1, V0, Z2Nat.id by lia. replace (1900 + (y - 1900)) with y by ring. unfold days. lia.
    - destruct (sub_leap_days_spec (Z.to_nat (1900 - y)) y _ C0) as [C1 V1]; [rewrite V0, Z2Nat.id by lia; unfold days; lia|].
      split; [exact C1|]. rewrite V1, V0, Z2Nat.id by lia. replace (y + (1900 - y)) with 1900 by ring. unfold days. lia. }
  destruct H1 as (d1 & -> & C1 & V1).
  assert (LB : -2200000 <= Lc y - Lc 1900 <= 2200000).
  { change (Lc 1900) with 460. unfold Lc.
    pose proof (Z.div_mod (y - 1) 4 ltac:(lia)). pose proof (Z.mod_pos_bound (y - 1) 4 ltac:(lia)).
    pose proof (Z.div_mod (y - 1) 100 ltac:(lia)). pose proof (Z.mod_pos_bound (y - 1) 100 ltac:(lia)).
    pose proof (Z.div_mod (y - 1) 400 ltac:(lia)). pose proof (Z.mod_pos_bound (y - 1) 400 ltac:(lia)). lia. }
  (* months before, within the year *)
  rewrite is_leap_year_eq. rewrite cumulative_days_eq by exact Bm.
  assert (CB : 0 <= cumul (leap y) m <= 335).
  { unfold cumul. assert (m=1\/m=2\/m=3\/m=4\/m=5\/m=6\/m=7\/m=8\/m=9\/m=10\/m=11\/m=12) as Hc by lia.
    destruct Hc as [->|[->|[->|[->|[->|[->|[->|[->|[->|[->|[->| ->]]]]]]]]]]]; destruct (leap y); cbn; lia. }
  destruct (unit_mul_spec Day (cumul (leap y) m)) as [Cc Vc]; [unfold in_i64, in_range, I64_MIN, I64_MAX; lia|].
  cbn [spec_unit_factor] in Vc. rewrite clamp_id in Vc by lia.
  destruct (add_spec _ _ C1 Cc) as [C2 V2]. rewrite V1, Vc, clamp_id in V2 by lia.
  (* day of month and time of day *)
  destruct (tod_sum_spec (d - 1) h mi s ns) as [CX VX]; try lia.
  destruct (add_spec _ _ C2 CX) as [C3 V3]. rewrite V2, VX, clamp_id in V3 by lia.
  match goal with |- context[if s =? 60 then dur_sub_unit ?x Second else _] => set (d3 := x) in * end.
  assert (H4 : exists d4, (if s =? 60 then dur_sub_unit d3 Second else d3) = d4 /\ canon d4 /\
                          val d4 = val d3 - (if s =? 60 then 1000000000 else 0)).
  { destruct (s =? 60); eexists; (split; [reflexivity|]).
    - destruct (sub_unit_spec _ Second C3) as [C4 V4]. cbn [spec_unit_factor] in V4. rewrite V3, clamp_id in V4 by lia.
      split; [exact C4|]. rewrite V4, V3. lia.
    - split; [exact C3|]. lia. }
  destruct H4 as (d4 & -> & C4 & V4). rewrite V3 in V4.
  destruct (gregorian_epoch_offset_val t) as [Co Vo].
  assert (OB : 0 <= spec_gregorian_zero (ts_id t) <= 4000000000000000000) by (destruct t; vm_compute; split; discriminate).
  destruct (sub_spec _ _ C4 Co) as [C5 V5]. rewrite V4, Vo, clamp_id in V5 by (destruct (s =? 60); lia).
  eexists. split; [reflexivity|]. split; [exact C5|]. rewrite V5. unfold code_total, code_days.
  change HIFITIME_REF_YEAR with 1900. change (leap_count y) with (Lc y). change (leap_count 1900) with (Lc 1900).
  rewrite is_leap_year_eq, cumulative_days_eq by exact Bm. destruct (s =? 60); lia.
Qed.

(* the executable fast path is the loop version *)
Theorem maybe_from_gregorian_fast_eq y m d h mi s ns t : 0 <= m -> 0 <= d -> 0 <= h -> 0 <= mi -> 0 <= s -> 0 <= ns ->
  maybe_from_gregorian_fast y m d h mi s ns t = maybe_from_gregorian y m d h mi s ns t.
Proof.
  intros Hm0 Hd0 Hh Hmi Hs Hns. unfold maybe_from_gregorian_fast.
  destruct (is_gregorian_valid y m d h mi s ns) eqn:V; cbn [negb]; [|unfold maybe_from_gregorian; rewrite V; reflexivity].
  change HIFITIME_REF_YEAR with 1900. destruct (Z.abs (y - 1900) <=? 3000000) eqn:R; [|reflexivity].
  destruct (maybe_from_gregorian_spec y m d h mi s ns t V Hm0 Hd0 Hh Hmi Hs Hns ltac:(lia)) as (dd & -> & C & Vd).
  f_equal. f_equal. apply canon_unique; [apply from_total_canon|exact C|].
  destruct (gregorian_epoch_offset_val t) as [Co Vo].
  rewrite from_total_val. rewrite (total_canon _ Co), Vo. change NANOSECONDS_PER_SECOND with 1000000000.
  change (clamp (code_total y m d h mi s ns t) = val dd). rewrite <- Vd. apply clamp_id. apply canon_val_range. exact C.
Qed.

(* ---- compute_gregorian: the era block of the code is civil_of_days ---- *)
Fixpoint sweepP (p : Z -> bool) (n : nat) (z : Z) : bool := match n with O => true | S n' => p z && sweepP p n' (z + 1) end.
Lemma sweepP_sound p n : forall z0, sweepP p n z0 = true -> forall z, z0 <= z < z0 + Z.of_nat n -> p z = true.
Proof.
  induction n as [|n IH]; intros z0 H z Hz; [lia|].
  cbn [sweepP] in H. apply andb_prop in H as [H1 H2].
  destruct (Z.eq_dec z z0) as [->|Hne]; [exact H1|]. apply (IH (z0 + 1) H2). lia.
Qed.

Definition m_block (doe : Z) : Z * Z * Z :=
  let yoe := tdiv (doe - tdiv doe CG_YOE_A + tdiv doe CG_YOE_B - tdiv doe CG_YOE_C) CG_YOE_DIV in
  let doy := doe - (CG_DOY_Y * yoe + tdiv yoe CG_DOY_4 - tdiv yoe CG_DOY_100) in
  let mp := tdiv (CG_MP_MUL * doy + CG_MP_ADD) CG_MP_DIV in
  let day := doy - tdiv (CG_D_MUL * mp + CG_D_ADD) CG_D_DIV + 1 in
  let month := if mp <? CG_M_LT then mp + CG_M_PLUS else mp - CG_M_MINUS in
  (yoe, month, day).
Definition s_block (doe : Z) : Z * Z * Z :=
  let yoe := (doe - doe / 1460 + doe / 36524 - doe / 146096) / 365 in
  let doy := doe - (365 * yoe + yoe / 4 - yoe / 100) in
  let mp := (5 * doy + 2) / 153 in
  let d := doy - (153 * mp + 2) / 5 + 1 in
  let m := if mp <? 10 then mp + 3 else mp - 9 in
  (yoe, m, d).
Definition block_ok (doe : Z) : bool :=
  let '(y1, m1, d1) := m_block doe in let '(y2, m2, d2) := s_block doe in
  (y1 =? y2) && (m1 =? m2) && (d1 =? d2) && (0 <=? y1) && (y1 <=? 399) && (1 <=? m1) && (m1 <=? 12) && (1 <=? d1) && (d1 <=? 31).
Lemma block_sweep : sweepP block_ok (Z.to_nat 146097) 0 = true.
Proof. vm_compute. reflexivity. Qed.
Lemma block_eq doe : 0 <= doe < 146097 ->
  m_block doe = s_block doe /\ let '(yoe, m, d) := m_block doe in 0 <= yoe <= 399 /\ 1 <= m <= 12 /\ 1 <= d <= 31.
Proof.
  intros H. pose proof (sweepP_sound block_ok _ 0 block_sweep doe ltac:(rewrite Z2Nat.id; lia)) as B.
  unfold block_ok in B. destruct (m_block doe) as [[y1 m1] d1]. destruct (s_block doe) as [[y2 m2] d2].
  split; [f_equal; [f_equal|]; lia|lia].
Qed.

Definition tod_fields (r : Z) : Z * Z * Z * Z :=
  (r / 3600000000000, r mod 3600000000000 / 60000000000, r mod 60000000000 / 1000000000, r mod 1000000000).

Theorem compute_gregorian_spec d t : canon d ->
  let w := val d + spec_gregorian_zero (ts_id t) in
  MINV <= w <= MAXV ->
  compute_gregorian d t =
    (let '(y, m, dd) := civil_of_days (w / D) in
     let '(h, mi, s, ns) := tod_fields (w mod D) in (y, m, dd, h, mi, s, ns)).
Proof.
  intros C w R. unfold compute_gregorian.
  destruct (gregorian_epoch_offset_val t) as [Co Vo].
  destruct (add_spec d _ C Co) as [Ca Va]. rewrite Vo in Va. fold w in Va. rewrite clamp_id in Va by exact R.
  rewrite (total_canon _ Ca), Va.
  change NANOSECONDS_PER_DAY with D. change DAYS_FROM_0000_03_01_TO_REF with 693901. change DAYS_PER_ERA with 146097.
  rewrite !div_euclid_pos, !rem_euclid_pos by reflexivity.
  pose proof MINV_lit as HM1. pose proof MAXV_lit as HM2.
  pose proof (Z.div_mod w D ltac:(lia)) as E0. pose proof (Z.mod_pos_bound w D ltac:(lia)) as B0.
  set (days := w / D) in *. set (r := w mod D) in *.
  pose proof (Z.div_mod (days + 693901) 146097 ltac:(lia)) as E1. pose proof (Z.mod_pos_bound (days + 693901) 146097 ltac:(lia)) as B1.
  set (era := (days + 693901) / 146097) in *. set (doe := (days + 693901) mod 146097) in *.
  (* the era block *)
  change (tdiv (doe - tdiv doe CG_YOE_A + tdiv doe CG_YOE_B - tdiv doe CG_YOE_C) CG_YOE_DIV) with (fst (fst (m_block doe))).
  destruct (block_eq doe B1) as [BE BR].
  unfold civil_of_days. fold era. fold doe.
  change ((doe - doe / 1460 + doe / 36524 - doe / 146096) / 365) with (fst (fst (s_block doe))).
  assert (Hm : (let yoe := fst (fst (m_block doe)) in
                let doy := doe - (CG_DOY_Y * yoe + tdiv yoe CG_DOY_4 - tdiv yoe CG_DOY_100) in
                let mp := tdiv (CG_MP_MUL * doy + CG_MP_ADD) CG_MP_DIV in
                (if mp <? CG_M_LT then mp + CG_M_PLUS else mp - CG_M_MINUS,
                 doy - tdiv (CG_D_MUL * mp + CG_D_ADD) CG_D_DIV + 1)) = (snd (fst (m_block doe)), snd (m_block doe))) by reflexivity.
  assert (Hs : (let yoe := fst (fst (s_block doe)) in
                let doy := doe - (365 * yoe + yoe / 4 - yoe / 100) in
                let mp := (5 * doy + 2) / 153 in
                (if mp <? 10 then mp + 3 else mp - 9, doy - (153 * mp + 2) / 5 + 1)) = (snd (fst (s_block doe)), snd (s_block doe))) by reflexivity.
  cbv zeta in Hm, Hs. apply (f_equal fst) in Hm as Hm1. apply (f_equal snd) in Hm as Hm2. cbn [fst snd] in Hm1, Hm2.
  apply (f_equal fst) in Hs as Hs1. apply (f_equal snd) in Hs as Hs2. cbn [fst snd] in Hs1, Hs2.
  cbv zeta. rewrite Hm1, Hm2, Hs1, Hs2. rewrite <- BE.
  destruct (m_block doe) as [[yoe mo] da]. cbn [fst snd]. destruct BR as (By & Bmo & Bda).
  change CG_ERA_YEARS with 400. change CG_M_LE with 2.
  (* time of day *)
  unfold tod_fields. rewrite wrap_unsigned_64 by (unfold U64_MAX; lia).
  change NANOSECONDS_PER_HOUR with 3600000000000. change NANOSECONDS_PER_MINUTE with 60000000000. change NANOSECONDS_PER_SECOND with 1000000000.
  pose proof (Z.div_mod r 3600000000000 ltac:(lia)). pose proof (Z.mod_pos_bound r 3600000000000 ltac:(lia)).
  pose proof (Z.mod_pos_bound r 60000000000 ltac:(lia)). pose proof (Z.mod_pos_bound r 1000000000 ltac:(lia)).
  unfold tdiv, trem. rewrite !Z.rem_mod_nonneg by lia. rewrite !Z.quot_div_nonneg by lia.
  pose proof (Z.div_mod (r mod 3600000000000) 60000000000 ltac:(lia)). pose proof (Z.mod_pos_bound (r mod 3600000000000) 60000000000 ltac:(lia)).
  pose proof (Z.div_mod (r mod 60000000000) 1000000000 ltac:(lia)). pose proof (Z.mod_pos_bound (r mod 60000000000) 1000000000 ltac:(lia)).
  assert (Ey : -3400000 <= yoe + era * 400 + (if mo <=? 2 then 1 else 0) <= 3400000) by (destruct (mo <=? 2); lia).
  rewrite wrap_signed_small by (try lia; change (2 ^ (32 - 1)) with 2147483648; lia).
  unfold wrap_unsigned. change (2 ^ 8) with 256. change (2 ^ 32) with 4294967296.
  rewrite !(Z.mod_small _ 256) by lia. rewrite !(Z.mod_small _ 4294967296) by lia.
  destruct (mo <=? 2); rewrite !pair_equal_spec; repeat split; lia.
Qed.

(* ---- consequences: valid fields, inverse in both directions (C08, C09) ---- *)
Lemma tod_fields_bounds r : 0 <= r < D ->
  let '(h, mi, s, ns) := tod_fields r in
  0 <= h < 24 /\ 0 <= mi < 60 /\ 0 <= s < 60 /\ 0 <= ns < 1000000000 /\
  h * 3600000000000 + mi * 60000000000 + s * 1000000000 + ns = r.
Proof.
  intros H. unfold tod_fields.
  pose proof (Z.div_mod r 3600000000000 ltac:(lia)). pose proof (Z.mod_pos_bound r 3600000000000 ltac:(lia)).
  pose proof (Z.div_mod r 60000000000 ltac:(lia)). pose proof (Z.mod_pos_bound r 60000000000 ltac:(lia)).
  pose proof (Z.div_mod r 1000000000 ltac:(lia)). pose proof (Z.mod_pos_bound r 1000000000 ltac:(lia)).
  pose proof (Z.div_mod (r mod 3600000000000) 60000000000 ltac:(lia)). pose proof (Z.mod_pos_bound (r mod 3600000000000) 60000000000 ltac:(lia)).
  pose proof (Z.div_mod (r mod 60000000000) 1000000000 ltac:(lia)). pose proof (Z.mod_pos_bound (r mod 60000000000) 1000000000 ltac:(lia)).
  (* r mod 60e9 = (r mod 3600e9) mod 60e9 and r mod 1e9 = (r mod 60e9) mod 1e9, since the moduli divide each other *)
  assert (A : (r mod 3600000000000) mod 60000000000 = r mod 60000000000).
  { symmetry. apply Zmod_div_mod; [lia|lia|]. exists 60. reflexivity. }
  assert (B : (r mod 60000000000) mod 1000000000 = r mod 1000000000).
  { symmetry. apply Zmod_div_mod; [lia|lia|]. exists 60. reflexivity. }
  lia.
Qed.

Lemma tod_fields_of h mi s ns : 0 <= h < 24 -> 0 <= mi < 60 -> 0 <= s < 60 -> 0 <= ns < 1000000000 ->
  tod_fields (h * 3600000000000 + mi * 60000000000 + s * 1000000000 + ns) = (h, mi, s, ns).
Proof.
  intros Hh Hm Hs Hn. unfold tod_fields.
  set (r := h * 3600000000000 + mi * 60000000000 + s * 1000000000 + ns).
  assert (Q1 : r / 3600000000000 = h) by (symmetry; apply (Z.div_unique r 3600000000000 h (mi * 60000000000 + s * 1000000000 + ns)); unfold r; lia).
  assert (M1 : r mod 3600000000000 = mi * 60000000000 + s * 1000000000 + ns) by (symmetry; apply (Z.mod_unique r 3600000000000 h); unfold r; lia).
  assert (M2 : r mod 60000000000 = s * 1000000000 + ns) by (symmetry; apply (Z.mod_unique r 60000000000 (h * 60 + mi)); unfold r; lia).
  assert (M3 : r mod 1000000000 = ns) by (symmetry; apply (Z.mod_unique r 1000000000 ((h * 60 + mi) * 60 + s)); unfold r; lia).
  rewrite Q1, M1, M2, M3.
  assert (Q2 : (mi * 60000000000 + s * 1000000000 + ns) / 60000000000 = mi) by (symmetry; apply (Z.div_unique _ 60000000000 mi (s * 1000000000 + ns)); lia).
  assert (Q3 : (s * 1000000000 + ns) / 1000000000 = s) by (symmetry; apply (Z.div_unique _ 1000000000 s ns); lia).
  rewrite Q2, Q3. reflexivity.
Qed.

Lemma mlen_bounds y m : 1 <= m <= 12 -> 28 <= mlen y m <= 31.
Proof. intros Hm. assert (m=1\/m=2\/m=3\/m=4\/m=5\/m=6\/m=7\/m=8\/m=9\/m=10\/m=11\/m=12) as Hc by lia.
  destruct Hc as [->|[->|[->|[->|[->|[->|[->|[->|[->|[->|[->| ->]]]]]]]]]]]; cbn [mlen]; destruct (leap y); lia. Qed.

Lemma cumul_bounds lp m : 1 <= m <= 12 -> 0 <= cumul lp m <= 335.
Proof. intros Hm. unfold cumul. assert (m=1\/m=2\/m=3\/m=4\/m=5\/m=6\/m=7\/m=8\/m=9\/m=10\/m=11\/m=12) as Hc by lia.
  destruct Hc as [->|[->|[->|[->|[->|[->|[->|[->|[->|[->|[->| ->]]]]]]]]]]]; destruct lp; cbn; lia. Qed.

Lemma valid_accepts y m d h mi s ns : valid_date y m d -> 0 <= h < 24 -> 0 <= mi < 60 -> 0 <= s < 60 -> 0 <= ns < 1000000000 ->
  is_gregorian_valid y m d h mi s ns = true.
Proof.
  intros [Hm Hd] Hh Hmi Hs Hns. pose proof (mlen_bounds y m Hm) as MB.
  unfold is_gregorian_valid. change NANOSECONDS_PER_SECOND_U32 with 1000000000. cbv zeta.
  match goal with |- context[if ?c then 60 else 59] => destruct c end.
  - destruct ((m =? 0) || (12 <? m) || (d =? 0) || (31 <? d) || (24 <? h) || (59 <? mi) || (60 <? s) || (1000000000 <? ns)) eqn:B; [lia|].
    rewrite is_leap_year_eq, usual_days_eq by exact Hm.
    assert (m=1\/m=2\/m=3\/m=4\/m=5\/m=6\/m=7\/m=8\/m=9\/m=10\/m=11\/m=12) as Hc by lia.
    destruct Hc as [->|[->|[->|[->|[->|[->|[->|[->|[->|[->|[->| ->]]]]]]]]]]]; cbn [mlen] in *; revert Hd; destruct (leap y); cbn; intros;
      match goal with |- (if ?c then _ else _) = _ => destruct c eqn:X; [lia|reflexivity] end.
  - destruct ((m =? 0) || (12 <? m) || (d =? 0) || (31 <? d) || (24 <? h) || (59 <? mi) || (59 <? s) || (1000000000 <? ns)) eqn:B; [lia|].
    rewrite is_leap_year_eq, usual_days_eq by exact Hm.
    assert (m=1\/m=2\/m=3\/m=4\/m=5\/m=6\/m=7\/m=8\/m=9\/m=10\/m=11\/m=12) as Hc by lia.
    destruct Hc as [->|[->|[->|[->|[->|[->|[->|[->|[->|[->|[->| ->]]]]]]]]]]]; cbn [mlen] in *; revert Hd; destruct (leap y); cbn; intros;
      match goal with |- (if ?c then _ else _) = _ => destruct c eqn:X; [lia|reflexivity] end.
Qed.

Lemma code_days_is_civil y m d : 1 <= m <= 12 -> code_days y m d = civil_days y m d.
Proof.
  intros Hm. rewrite civil_days_closed_form by exact Hm. unfold code_days. change HIFITIME_REF_YEAR with 1900.
  change (leap_count y) with (Lc y). change (leap_count 1900) with (Lc 1900).
  rewrite is_leap_year_eq, cumulative_days_eq by exact Hm. lia.
Qed.

(* the fields are always a valid date-time *)
Theorem greg_fields_valid d t : canon d -> MINV <= val d + spec_gregorian_zero (ts_id t) <= MAXV ->
  let '(y, m, dd, h, mi, s, ns) := compute_gregorian d t in
  valid_date y m dd /\ 0 <= h < 24 /\ 0 <= mi < 60 /\ 0 <= s < 60 /\ 0 <= ns < 1000000000.
Proof.
  intros C R. rewrite (compute_gregorian_spec d t C R).
  set (w := val d + spec_gregorian_zero (ts_id t)).
  pose proof (civil_of_days_valid (w / D)) as V. destruct (civil_of_days (w / D)) as [[y m] dd].
  pose proof (tod_fields_bounds (w mod D) (Z.mod_pos_bound w D ltac:(lia))) as T. destruct (tod_fields (w mod D)) as [[[h mi] s] ns].
  destruct V as [V _]. destruct T as (T1 & T2 & T3 & T4 & _). repeat split; try apply V; lia.
Qed.

(* building an epoch from the fields of an epoch gives the epoch back *)
Theorem greg_roundtrip d t : canon d -> MINV <= val d + spec_gregorian_zero (ts_id t) <= MAXV ->
  let '(y, m, dd, h, mi, s, ns) := compute_gregorian d t in
  Z.abs (y - 1900) <= 3000000 -> maybe_from_gregorian y m dd h mi s ns t = inl (mkE d t).
Proof.
  intros C R. rewrite (compute_gregorian_spec d t C R).
  set (w := val d + spec_gregorian_zero (ts_id t)) in *.
  pose proof (civil_of_days_valid (w / D)) as V. destruct (civil_of_days (w / D)) as [[y m] dd].
  pose proof (tod_fields_bounds (w mod D) (Z.mod_pos_bound w D ltac:(lia))) as T. destruct (tod_fields (w mod D)) as [[[h mi] s] ns].
  destruct V as [V E]. destruct T as (T1 & T2 & T3 & T4 & T5). intros Hy.
  pose proof (valid_accepts y m dd h mi s ns V T1 T2 T3 T4) as VA. destruct V as [Vm Vd].
  destruct (maybe_from_gregorian_spec y m dd h mi s ns t VA ltac:(lia) ltac:(lia) ltac:(lia) ltac:(lia) ltac:(lia) ltac:(lia) Hy) as (x & -> & Cx & Vx).
  f_equal. f_equal. apply canon_unique; try assumption. rewrite Vx. unfold code_total.
  rewrite code_days_is_civil by exact Vm. rewrite E. destruct (s =? 60) eqn:S60; [lia|].
  pose proof (Z.div_mod w D ltac:(lia)). unfold w in *. lia.
Qed.

(* the fields of an epoch built from valid fields are those fields *)
Theorem greg_inverse y m d h mi s ns t : valid_date y m d -> 0 <= h < 24 -> 0 <= mi < 60 -> 0 <= s < 60 -> 0 <= ns < 1000000000 ->
  Z.abs (y - 1900) <= 3000000 ->
  exists x, maybe_from_gregorian y m d h mi s ns t = inl (mkE x t) /\ canon x /\
            val x = civil_ns y m d h mi s ns - spec_gregorian_zero (ts_id t) /\
            compute_gregorian x t = (y, m, d, h, mi, s, ns).
Proof.
  intros V Hh Hmi Hs Hns Hy. pose proof (valid_accepts y m d h mi s ns V Hh Hmi Hs Hns) as VA. destruct V as [Vm Vd].
  pose proof (mlen_bounds y m Vm) as MB.
  destruct (maybe_from_gregorian_spec y m d h mi s ns t VA ltac:(lia) ltac:(lia) ltac:(lia) ltac:(lia) ltac:(lia) ltac:(lia) Hy) as (x & Hx & Cx & Vx).
  exists x. split; [exact Hx|]. split; [exact Cx|].
  unfold code_total in Vx. rewrite code_days_is_civil in Vx by exact Vm. destruct (s =? 60) eqn:S60; [lia|].
  assert (Vx' : val x = civil_ns y m d h mi s ns - spec_gregorian_zero (ts_id t)) by (rewrite Vx; unfold civil_ns, NS_PER_S; lia).
  split; [exact Vx'|].
  set (tod := h * 3600000000000 + mi * 60000000000 + s * 1000000000 + ns).
  assert (W : val x + spec_gregorian_zero (ts_id t) = civil_days y m d * D + tod) by (rewrite Vx; unfold tod; lia).
  assert (CD : -1100000000 <= civil_days y m d <= 1100000000).
  { rewrite civil_days_closed_form by exact Vm. change (Lc 1900) with 460. unfold Lc.
    pose proof (cumul_bounds (leap y) m Vm).
    pose proof (Z.div_mod (y - 1) 4 ltac:(lia)). pose proof (Z.mod_pos_bound (y - 1) 4 ltac:(lia)).
    pose proof (Z.div_mod (y - 1) 100 ltac:(lia)). pose proof (Z.mod_pos_bound (y - 1) 100 ltac:(lia)).
    pose proof (Z.div_mod (y - 1) 400 ltac:(lia)). pose proof (Z.mod_pos_bound (y - 1) 400 ltac:(lia)). lia. }
  pose proof MINV_lit. pose proof MAXV_lit.
  rewrite compute_gregorian_spec by (try exact Cx; rewrite W; unfold tod; lia).
  rewrite W.
  assert (Q : (civil_days y m d * D + tod) / D = civil_days y m d) by (symmetry; apply (Z.div_unique _ D _ tod); unfold tod; lia).
  assert (M : (civil_days y m d * D + tod) mod D = tod) by (symmetry; apply (Z.mod_unique _ D (civil_days y m d)); unfold tod; lia).
  rewrite Q, M. rewrite civil_of_days_of_civil by (split; assumption). unfold tod. rewrite tod_fields_of by assumption. reflexivity.
Qed.

(* ---- weekday (C16) ---- *)
Lemma weekday_of_duration x : canon x ->
  weekday_from_u8 (wrap_unsigned 8 (rem_euclid (div_euclid (total_nanoseconds x) NANOSECONDS_PER_DAY) WEEKDAY_DAYS_PER_WEEK_I128))
  = weekday_of_day (val x / D).
Proof.
  intros C. rewrite (total_canon _ C). change NANOSECONDS_PER_DAY with D. change WEEKDAY_DAYS_PER_WEEK_I128 with 7.
  rewrite div_euclid_pos, rem_euclid_pos by reflexivity.
  pose proof (Z.mod_pos_bound (val x / D) 7 ltac:(lia)) as B.
  unfold wrap_unsigned. change (2 ^ 8) with 256. rewrite (Z.mod_small _ 256) by lia.
  unfold weekday_from_u8. change WEEKDAY_MAX with 7. rewrite rem_euclid_pos by reflexivity.
  unfold weekday_of_day. apply Z.mod_mod. lia.
Qed.
(* the weekday is the civil weekday of the date in the relevant scale: day number (floored, also before 1900) mod 7 *)
Theorem weekday_in_scale_spec e t x : to_duration_in_time_scale e t = Some x -> canon x ->
  weekday_in_time_scale e t = Some (weekday_of_day (val x / D)).
Proof. intros H C. unfold weekday_in_time_scale. rewrite H. cbn [option_map]. f_equal. apply weekday_of_duration. exact C. Qed.
Theorem weekday_tai_spec e : int_scale (scale e) = true -> canon (dur e) -> MINV <= instant e <= MAXV ->
  weekday e = Some (weekday_of_day (instant e / D)).
Proof.
  intros I C R. destruct (to_tai_int e I C R) as (x & H & Cx & Vx).
  unfold weekday. rewrite (weekday_in_scale_spec e TAI x H Cx). rewrite Vx. reflexivity.
Qed.

(* weekday algebra: exhaustive over 7 x 256 (u8), 7 x 256 (i8), 49 pairs *)
Definition wd_table_ok (a : Z) : bool :=
  sweepP (fun n => match weekday_add_u8 a n with Some r => r =? (a + n) mod 7 | None => false end) 256 0 &&
  sweepP (fun n => match weekday_sub_u8 a n with Some r => r =? (a - n) mod 7 | None => false end) 256 0 &&
  sweepP (fun b => match weekday_add a b with Some r => r =? (a + b) mod 7 | None => false end) 7 0 &&
  sweepP (fun b => (dur_eqb (weekday_sub a b) (unit_mul_i64 Day ((b - a) mod 7)))) 7 0.
Lemma wd_tables : sweepP wd_table_ok 7 0 = true /\
  sweepP (fun n => weekday_from_u8 n =? n mod 7) 256 0 = true /\
  sweepP (fun n => weekday_from_i8 n =? n mod 7) 256 (-128) = true.
Proof. repeat split; vm_compute; reflexivity. Qed.

Theorem weekday_add_u8_spec a n : 0 <= a < 7 -> 0 <= n < 256 -> weekday_add_u8 a n = Some ((a + n) mod 7).
Proof.
  intros Ha Hn. destruct wd_tables as (T & _ & _).
  pose proof (sweepP_sound _ 7 0 T a ltac:(lia)) as Ta. unfold wd_table_ok in Ta.
  apply andb_prop in Ta as [Ta _]. apply andb_prop in Ta as [Ta _]. apply andb_prop in Ta as [Ta _].
  pose proof (sweepP_sound _ 256 0 Ta n ltac:(lia)) as X. cbv beta in X.
  destruct (weekday_add_u8 a n); [f_equal; lia|discriminate].
Qed.
Theorem weekday_sub_u8_spec a n : 0 <= a < 7 -> 0 <= n < 256 -> weekday_sub_u8 a n = Some ((a - n) mod 7).
Proof.
  intros Ha Hn. destruct wd_tables as (T & _ & _).
  pose proof (sweepP_sound _ 7 0 T a ltac:(lia)) as Ta. unfold wd_table_ok in Ta.
  apply andb_prop in Ta as [Ta _]. apply andb_prop in Ta as [Ta _]. apply andb_prop in Ta as [_ Ta].
  pose proof (sweepP_sound _ 256 0 Ta n ltac:(lia)) as X. cbv beta in X.
  destruct (weekday_sub_u8 a n); [f_equal; lia|discriminate].
Qed.
Theorem weekday_add_spec a b : 0 <= a < 7 -> 0 <= b < 7 -> weekday_add a b = Some ((a + b) mod 7).
Proof.
  intros Ha Hb. destruct wd_tables as (T & _ & _).
  pose proof (sweepP_sound _ 7 0 T a ltac:(lia)) as Ta. unfold wd_table_ok in Ta.
  apply andb_prop in Ta as [Ta _]. apply andb_prop in Ta as [_ Ta].
  pose proof (sweepP_sound _ 7 0 Ta b ltac:(lia)) as X. cbv beta in X.
  destruct (weekday_add a b); [f_equal; lia|discriminate].
Qed.
Theorem weekday_from_u8_spec n : 0 <= n < 256 -> weekday_from_u8 n = n mod 7.
Proof. intros Hn. destruct wd_tables as (_ & T & _). pose proof (sweepP_sound _ 256 0 T n ltac:(lia)) as X. cbv beta in X. lia. Qed.
Theorem weekday_from_i8_spec n : -128 <= n < 128 -> weekday_from_i8 n = n mod 7.
Proof. intros Hn. destruct wd_tables as (_ & _ & T). pose proof (sweepP_sound _ 256 (-128) T n ltac:(lia)) as X. cbv beta in X. lia. Qed.
(* the difference of two weekdays is the forward distance in days, 0..6 *)
Theorem weekday_diff_spec a b : 0 <= a < 7 -> 0 <= b < 7 ->
  canon (weekday_sub a b) /\ val (weekday_sub a b) = ((b - a) mod 7) * D.
Proof.
  intros Ha Hb. unfold weekday_sub.
  assert (E : (if b - a <? 0 then b + 7 else b) - a = (b - a) mod 7).
  { destruct (b - a <? 0) eqn:X.
    - apply (Z.mod_unique (b - a) 7 (-1)); lia.
    - symmetry. apply Z.mod_small. lia. }
  rewrite E. pose proof (Z.mod_pos_bound (b - a) 7 ltac:(lia)).
  destruct (unit_mul_spec Day ((b - a) mod 7)) as [C V]; [unfold in_i64, in_range, I64_MIN, I64_MAX; lia|].
  split; [exact C|]. rewrite V. cbn [spec_unit_factor]. pose proof MINV_lit. pose proof MAXV_lit. rewrite clamp_id; lia.
Qed.

(* next / previous: exactly k whole days later / earlier, k in 1..7, k = distance to the requested weekday *)
Lemma next_prev_delta a b : 0 <= a < 7 -> 0 <= b < 7 ->
  (if dur_eqb (weekday_sub a b) D_ZERO then unit_mul_i64 Day 7 else weekday_sub a b) = unit_mul_i64 Day ((b - a - 1) mod 7 + 1).
Proof.
  intros Ha Hb.
  assert (a=0\/a=1\/a=2\/a=3\/a=4\/a=5\/a=6) as Ca by lia. assert (b=0\/b=1\/b=2\/b=3\/b=4\/b=5\/b=6) as Cb by lia.
  destruct Ca as [->|[->|[->|[->|[->|[->| ->]]]]]]; destruct Cb as [->|[->|[->|[->|[->|[->| ->]]]]]]; vm_compute; reflexivity.
Qed.
Theorem epoch_next_spec e w wd : weekday e = Some wd -> 0 <= wd < 7 -> 0 <= w < 7 ->
  epoch_next e w = Some (epoch_add e (unit_mul_i64 Day ((w - wd - 1) mod 7 + 1))) /\ 1 <= (w - wd - 1) mod 7 + 1 <= 7.
Proof.
  intros H Hwd Hw. unfold epoch_next. rewrite H. cbn [option_map].
  pose proof (next_prev_delta wd w Hwd Hw) as E. pose proof (Z.mod_pos_bound (w - wd - 1) 7 ltac:(lia)).
  split; [|lia]. f_equal. destruct (dur_eqb (weekday_sub wd w) D_ZERO); rewrite <- E; reflexivity.
Qed.
Theorem epoch_previous_spec e w wd : weekday e = Some wd -> 0 <= wd < 7 -> 0 <= w < 7 ->
  epoch_previous e w = Some (epoch_sub e (unit_mul_i64 Day ((wd - w - 1) mod 7 + 1))) /\ 1 <= (wd - w - 1) mod 7 + 1 <= 7.
Proof.
  intros H Hwd Hw. unfold epoch_previous. rewrite H. cbn [option_map].
  pose proof (next_prev_delta w wd Hw Hwd) as E. pose proof (Z.mod_pos_bound (wd - w - 1) 7 ltac:(lia)).
  split; [|lia]. f_equal. destruct (dur_eqb (weekday_sub w wd) D_ZERO); rewrite <- E; reflexivity.
Qed.
