From Coq Require Import ZArith Bool Lia.
From HF Require Import MachInt.
Open Scope Z_scope.

Lemma wrap_signed_small bits x : 0 < bits -> - 2 ^ (bits - 1) <= x < 2 ^ (bits - 1) -> wrap_signed bits x = x.
Proof.
  intros Hb Hx. unfold wrap_signed.
  assert (E : 2 ^ bits = 2 * 2 ^ (bits - 1)).
  { replace bits with (Z.succ (bits - 1)) at 1 by lia. rewrite Z.pow_succ_r by lia. reflexivity. }
  set (h := 2 ^ (bits - 1)) in *. assert (0 < h) by (apply Z.pow_pos_nonneg; lia).
  rewrite E. destruct (Z_lt_le_dec x 0) as [Hn|Hp].
  - replace (x mod (2 * h)) with (x + 2 * h).
    + destruct (x + 2 * h <? h) eqn:C; lia.
    + apply Z.mod_unique with (q := -1); lia.
  - rewrite Z.mod_small by lia. destruct (x <? h) eqn:C; lia.
Qed.

Lemma wrap_signed_16 x : -32768 <= x <= 32767 -> wrap_signed 16 x = x.
Proof. intros. apply wrap_signed_small; [lia|]. change (2 ^ (16 - 1)) with 32768. lia. Qed.
Lemma wrap_signed_64 x : I64_MIN <= x <= I64_MAX -> wrap_signed 64 x = x.
Proof. intros. apply wrap_signed_small; [lia|]. change (2 ^ (64 - 1)) with 9223372036854775808. unfold I64_MIN, I64_MAX in *. lia. Qed.
Lemma wrap_unsigned_64 x : 0 <= x <= U64_MAX -> wrap_unsigned 64 x = x.
Proof. intros. unfold wrap_unsigned. apply Z.mod_small. change (2 ^ 64) with 18446744073709551616. unfold U64_MAX in *. lia. Qed.

Lemma checked_some lo hi x : lo <= x <= hi -> checked lo hi x = Some x.
Proof. intros. unfold checked, in_rangeb. destruct (lo <=? x) eqn:A; destruct (x <=? hi) eqn:B; try lia; reflexivity. Qed.
Lemma checked_none lo hi x : x < lo \/ hi < x -> checked lo hi x = None.
Proof. intros. unfold checked, in_rangeb. destruct (lo <=? x) eqn:A; destruct (x <=? hi) eqn:B; try lia; reflexivity. Qed.
Lemma saturate_id lo hi x : lo <= x <= hi -> saturate lo hi x = x.
Proof. intros. unfold saturate. destruct (x <? lo) eqn:A; destruct (hi <? x) eqn:B; lia. Qed.
