(* JD / MJD / UNIX duration-valued views are the scale's duration plus an exact constant. *)
From Coq Require Import ZArith Bool Lia ZifyBool List.
From HF Require Import MachInt MachIntP GenConsts Duration Epoch F64 DurationF64 Views SignedNs DurationP EpochP F64P.
Open Scope Z_scope.

Local Notation D := 86400000000000 (only parsing).

Lemma day_consts : canon day_mjd_j1900 /\ val day_mjd_j1900 = 15020 * D /\
  canon day_mjd_offset /\ val day_mjd_offset = 2400000 * D + D / 2 /\
  canon day_jd_j1900 /\ val day_jd_j1900 = 2415020 * D + D / 2 /\
  canon sec_et_epoch /\ val sec_et_epoch = 3155716800 * 1000000000.
Proof.
  destruct view_constants_exact as (E1 & E2 & E3 & E4 & _ & _). rewrite E1, E2, E3, E4.
  repeat split; try apply from_total_canon; rewrite from_total_val; vm_compute; reflexivity.
Qed.

Theorem jde_tai_duration_spec e tai : to_tai_duration e = Some tai -> canon tai ->
  exists d, to_jde_tai_duration e = Some d /\ canon d /\ val d = clamp (clamp (val tai + 15020 * D) + (2400000 * D + D / 2)).
Proof.
  intros H C. destruct day_consts as (C1 & V1 & C2 & V2 & _).
  unfold to_jde_tai_duration, omap. rewrite H. cbn [option_map].
  destruct (add_spec tai _ C C1) as [Ca Va]. destruct (add_spec _ _ Ca C2) as [Cb Vb].
  eexists. split; [reflexivity|]. split; [exact Cb|]. rewrite Vb, Va, V1, V2. reflexivity.
Qed.
Theorem jde_utc_duration_spec e x : to_utc_duration e = Some x -> canon x ->
  exists d, to_jde_utc_duration e = Some d /\ canon d /\ val d = clamp (val x + (2415020 * D + D / 2)).
Proof.
  intros H C. destruct day_consts as (_ & _ & _ & _ & C3 & V3 & _).
  unfold to_jde_utc_duration, omap. rewrite H. cbn [option_map].
  destruct (add_spec x _ C C3) as [Ca Va]. eexists. split; [reflexivity|]. split; [exact Ca|]. rewrite Va, V3. reflexivity.
Qed.
Theorem jde_tt_duration_spec e x : to_tt_duration e = Some x -> canon x ->
  exists d, to_jde_tt_duration e = Some d /\ canon d /\ val d = clamp (val x + (2415020 * D + D / 2)).
Proof.
  intros H C. destruct day_consts as (_ & _ & _ & _ & C3 & V3 & _).
  unfold to_jde_tt_duration, omap. rewrite H. cbn [option_map].
  destruct (add_spec x _ C C3) as [Ca Va]. eexists. split; [reflexivity|]. split; [exact Ca|]. rewrite Va, V3. reflexivity.
Qed.
Theorem mjd_tt_duration_spec e x : to_tt_duration e = Some x -> canon x ->
  exists d, to_mjd_tt_duration e = Some d /\ canon d /\ val d = clamp (val x + 15020 * D).
Proof.
  intros H C. destruct day_consts as (C1 & V1 & _).
  unfold to_mjd_tt_duration, omap. rewrite H. cbn [option_map].
  destruct (add_spec x _ C C1) as [Ca Va]. eexists. split; [reflexivity|]. split; [exact Ca|]. rewrite Va, V1. reflexivity.
Qed.
Theorem tt_since_j2k_spec e x : to_tt_duration e = Some x -> canon x ->
  exists d, to_tt_since_j2k e = Some d /\ canon d /\ val d = clamp (val x - 3155716800 * 1000000000).
Proof.
  intros H C. destruct day_consts as (_ & _ & _ & _ & _ & _ & C4 & V4).
  unfold to_tt_since_j2k, omap. rewrite H. cbn [option_map].
  destruct (sub_spec x _ C C4) as [Ca Va]. eexists. split; [reflexivity|]. split; [exact Ca|]. rewrite Va, V4. reflexivity.
Qed.
Lemma unix_ref_utc_val : exists r, unix_ref_utc = Some r /\ canon r /\ val r = 25567 * D.
Proof.
  destruct view_constants_exact as (_ & _ & _ & _ & U & _). exists (from_total_nanoseconds (25567 * D)).
  split; [exact U|]. split; [apply from_total_canon|]. rewrite from_total_val. vm_compute. reflexivity.
Qed.
(* UNIX time counts UTC (leap seconds not counted) since 1970-01-01T00:00:00 UTC = day 25 567 *)
Theorem unix_duration_spec e x : to_utc_duration e = Some x -> canon x ->
  exists d, to_unix_duration e = Some d /\ canon d /\ val d = clamp (val x - 25567 * D).
Proof.
  intros H C. destruct unix_ref_utc_val as (r & Hr & Cr & Vr).
  unfold to_unix_duration. rewrite H, Hr.
  destruct (sub_spec x r C Cr) as [Ca Va]. eexists. split; [reflexivity|]. split; [exact Ca|]. rewrite Va, Vr. reflexivity.
Qed.
Theorem from_unix_duration_spec d : canon d ->
  exists e, from_unix_duration d = Some e /\ scale e = UTC /\ canon (dur e) /\ val (dur e) = clamp (25567 * D + val d).
Proof.
  intros C. destruct unix_ref_utc_val as (r & Hr & Cr & Vr). unfold from_unix_duration, omap. rewrite Hr. cbn [option_map].
  destruct (add_spec r d Cr C) as [Ca Va]. eexists. split; [reflexivity|]. cbn [scale dur]. split; [reflexivity|]. split; [exact Ca|].
  rewrite Va, Vr. reflexivity.
Qed.
(* the float-valued views are the duration view followed by to_unit (dataflow) *)
Theorem float_views_dataflow e u :
  to_mjd_tai e u = option_map (fun d => to_unit d u) (to_mjd_tai_duration e) /\
  to_jde_tai e u = option_map (fun d => to_unit d u) (to_jde_tai_duration e) /\
  to_unix e u = option_map (fun d => to_unit d u) (to_unix_duration e) /\
  (forall d, to_unit d u = fmul (to_seconds d) (fdiv (f_of_bits GenUnits.F64_ONE_BITS) (unit_in_seconds u))).
Proof. repeat split; reflexivity. Qed.
