(* The leap-seconds file provider: parsing the file shipped with the sources gives exactly the built-in table, entries of
   any accepted file are in the u64 / u8 ranges, and a lookup through the parsed shipped file is the built-in lookup. *)
From Coq Require Import ZArith Bool Lia ZifyBool List.
From HF Require Import MachInt GenLeap Text Duration Epoch TextFmt TextParse LeapFile.
Import ListNotations.
Open Scope Z_scope.

(* the shipped file is pure ASCII, so its bytes are its characters *)
Lemma shipped_file_ascii : forallb (fun c => (0 <=? c) && (c <? 128)) IERS_FILE_BYTES = true.
Proof. vm_compute. reflexivity. Qed.
Theorem shipped_file_parses_to_builtin : parse_leap_file IERS_FILE_BYTES = FileOk BUILTIN_IERS.
Proof. vm_compute. reflexivity. Qed.
Corollary lookup_through_shipped_file tai :
  match parse_leap_file IERS_FILE_BYTES with FileOk p => leap_seconds_with p tai = leap_seconds_iers tai | FileErr _ => False end.
Proof. rewrite shipped_file_parses_to_builtin. reflexivity. Qed.

Lemma lex_int_range am lo hi s v : lex_int am lo hi s = Some v -> lo <= v <= hi.
Proof.
  unfold lex_int.
  destruct (match s with 45 :: t => (true, t) | 43 :: t => (false, t) | _ => (false, s) end) as [neg body].
  destruct (neg && negb am); [discriminate|]. destruct body as [|c t]; [discriminate|].
  destruct (digits_val (c :: t) 0) as [w|]; [|discriminate].
  destruct ((lo <=? (if neg then - w else w)) && ((if neg then - w else w) <=? hi)) eqn:R; [|discriminate].
  intros [= <-]. lia.
Qed.
Definition entry_ok (e : Z * Z) : Prop := 0 <= fst e <= U64_MAX /\ 0 <= snd e <= 255.
Lemma parse_lines_entries ls : forall acc p, Forall entry_ok acc -> parse_lines ls acc = FileOk p -> Forall entry_ok p.
Proof.
  induction ls as [|l rest IH]; intros acc p A H; cbn [parse_lines] in H.
  - injection H as <-. apply Forall_rev. exact A.
  - destruct l as [|c t]; [eapply IH; eassumption|].
    destruct (c =? 35) eqn:C.
    + assert (c = 35) by lia. subst c. eapply IH; eassumption.
    + assert (H' : match split_ws (c :: t) [] with
                   | f0 :: f1 :: _ => match lex_u64 f0 with
                                      | None => FileErr E_ValueError
                                      | Some ts => match lex_u8 f1 with None => FileErr E_ValueError | Some d => parse_lines rest ((ts, d) :: acc) end
                                      end
                   | _ => FileErr E_UnknownFormat end = FileOk p).
      { revert H. repeat match goal with |- context[match ?x with _ => _ end] => is_var x; destruct x; try (intros; assumption) end; lia. }
      clear H. destruct (split_ws (c :: t) []) as [|f0 [|f1 more]]; try discriminate.
      destruct (lex_u64 f0) as [ts|] eqn:L0; [|discriminate]. destruct (lex_u8 f1) as [d|] eqn:L1; [|discriminate].
      eapply IH; [|exact H']. constructor; [|exact A].
      apply lex_int_range in L0. apply lex_int_range in L1. split; cbn; lia.
Qed.
Theorem parsed_entries_in_range content p : parse_leap_file content = FileOk p -> Forall entry_ok p.
Proof. apply parse_lines_entries. constructor. Qed.
