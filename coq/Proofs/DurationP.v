(* Lemmas about the Duration model.  Property theorems in Properties/ are closed by `exact` of these. *)
From Coq Require Import ZArith Bool Lia ZifyBool.
From HF Require Import MachInt MachIntP GenConsts Duration SignedNs.
Open Scope Z_scope.

Local Notation N := 3155760000000000000 (only parsing).

(* ---- tie of generated constants to the spec's own constants (closed facts) ---- *)
Lemma NPC_eq : NPC = SNPC. Proof. reflexivity. Qed.
Lemma NPC_lit : NPC = N. Proof. reflexivity. Qed.
Lemma SNPC_lit : SNPC = N. Proof. reflexivity. Qed.
Lemma D_MAX_eq : D_MAX = mkD 32767 SNPC. Proof. reflexivity. Qed.
Lemma D_MIN_eq : D_MIN = mkD (-32768) 0. Proof. reflexivity. Qed.
Lemma D_ZERO_eq : D_ZERO = mkD 0 0. Proof. reflexivity. Qed.
Lemma unit_factor_eq u : unit_factor u = spec_unit_factor u. Proof. destruct u; reflexivity. Qed.
Lemma MINV_lit : MINV = -32768 * N. Proof. reflexivity. Qed.
Lemma MAXV_lit : MAXV = 32768 * N. Proof. reflexivity. Qed.

Ltac lits := rewrite ?NPC_lit, ?SNPC_lit, ?MINV_lit, ?MAXV_lit in *.
Ltac dm z := pose proof (Z.div_mod z N ltac:(lia)); pose proof (Z.mod_pos_bound z N ltac:(lia)).
Ltac gen_dm z q r := dm z; set (q := z / N) in *; set (r := z mod N) in *; clearbody q r.

Lemma canon_val_range d : canon d -> MINV <= val d <= MAXV.
Proof. destruct d as [c n]. unfold canon, val; cbn [centuries nanoseconds]. lits. nia. Qed.

Lemma canon_canonb d : canon d <-> canonb d = true.
Proof. destruct d as [c n]. unfold canon, canonb; cbn [centuries nanoseconds]. lits. lia. Qed.

(* exactly one observable form per count *)
Lemma canon_unique a b : canon a -> canon b -> val a = val b -> a = b.
Proof.
  destruct a as [c1 n1], b as [c2 n2]. unfold canon, val; cbn [centuries nanoseconds]. lits.
  intros H1 H2 E. assert (c1 = c2) by nia. subst. f_equal. lia.
Qed.

(* ---- normalize / from_parts ---- *)
Lemma normalize_spec c n : in_i16 c -> in_u64 n ->
  canon (normalize (mkD c n)) /\ val (normalize (mkD c n)) = clamp (c * SNPC + n).
Proof.
  unfold in_i16, in_u64, in_range, I16_MIN, I16_MAX, U64_MAX. intros Hc Hn.
  unfold normalize. cbn [centuries nanoseconds].
  rewrite div_euclid_pos, rem_euclid_pos by reflexivity. rewrite NPC_lit.
  gen_dm n q r.
  destruct (0 <? q) eqn:Eq.
  - destruct (c =? I16_MAX) eqn:Ec; unfold I16_MAX in Ec.
    + rewrite D_MAX_eq; cbn [nanoseconds]. rewrite SNPC_lit.
      unfold saturate, U64_MAX.
      destruct (n + r <? 0) eqn:A; [lia|].
      destruct (18446744073709551615 <? n + r) eqn:B;
      [ change (N <? 18446744073709551615) with true; cbv iota;
        unfold canon, val, clamp; cbn [centuries nanoseconds]; lits; lia |].
      destruct (N <? n + r) eqn:C; unfold canon, val, clamp; cbn [centuries nanoseconds]; lits; lia.
    + assert (E1 : dur_eqb (mkD c n) D_MAX = false).
      { rewrite D_MAX_eq. unfold dur_eqb; cbn [centuries nanoseconds].
        destruct (c =? 32767) eqn:X; [lia|]. destruct ((c =? -1) && (32767 =? 0) || (c =? 0) && (32767 =? -1)) eqn:Y; [lia|reflexivity]. }
      assert (E2 : dur_eqb (mkD c n) D_MIN = false).
      { rewrite D_MIN_eq. unfold dur_eqb; cbn [centuries nanoseconds].
        destruct (c =? -32768) eqn:X; [lia|]. destruct ((c =? -1) && (-32768 =? 0) || (c =? 0) && (-32768 =? -1)) eqn:Y; [lia|reflexivity]. }
      rewrite E1, E2. cbn [negb andb].
      rewrite wrap_signed_16 by lia.
      unfold checked, in_rangeb, I16_MIN, I16_MAX.
      destruct ((-32768 <=? c + q) && (c + q <=? 32767)) eqn:R.
      * unfold canon, val, clamp; cbn [centuries nanoseconds]; lits; lia.
      * destruct (0 <=? c) eqn:S; [|lia]. rewrite D_MAX_eq.
        unfold canon, val, clamp; cbn [centuries nanoseconds]; lits; lia.
  - unfold canon, val, clamp; cbn [centuries nanoseconds]; lits; lia.
Qed.

Lemma from_parts_spec c n : in_i16 c -> in_u64 n ->
  canon (from_parts c n) /\ val (from_parts c n) = clamp (c * SNPC + n).
Proof. apply normalize_spec. Qed.

Lemma normalize_canon_id d : canon d -> normalize d = d.
Proof.
  destruct d as [c n]. unfold canon; cbn [centuries nanoseconds]. lits. intros H.
  unfold normalize. cbn [centuries nanoseconds].
  rewrite div_euclid_pos, rem_euclid_pos by reflexivity. rewrite NPC_lit.
  gen_dm n q r.
  destruct (0 <? q) eqn:Eq; [|reflexivity].
  assert (c = 32767 /\ n = N) as [-> ->] by lia.
  change (32767 =? I16_MAX) with true. cbv iota.
  rewrite D_MAX_eq; cbn [nanoseconds]. rewrite SNPC_lit.
  assert (r = 0) by lia. subst r. rewrite saturate_id by (unfold U64_MAX; lia).
  destruct (N <? N + 0) eqn:C; [lia|reflexivity].
Qed.

(* ---- total_nanoseconds ---- *)
Lemma total_canon d : canon d -> total_nanoseconds d = val d.
Proof.
  destruct d as [c n]. unfold canon, val, total_nanoseconds; cbn [centuries nanoseconds]. lits. intros H.
  destruct (c =? -1) eqn:A; [lia|]. destruct (0 <=? c); reflexivity.
Qed.
(* the u64 subtraction NPC - ns inside the c = -1 branch cannot underflow on canonical durations *)
Lemma total_no_underflow d : canon d -> centuries d = -1 -> 0 <= NPC - nanoseconds d.
Proof. destruct d as [c n]. unfold canon; cbn [centuries nanoseconds]. lits. lia. Qed.

(* ---- from_total_nanoseconds ---- *)
Lemma from_total_spec z : canon (from_total_nanoseconds z) /\ val (from_total_nanoseconds z) = clamp z.
Proof.
  unfold from_total_nanoseconds.
  destruct (z =? 0) eqn:Z0.
  - rewrite D_ZERO_eq. unfold canon, val, clamp; cbn [centuries nanoseconds]; lits; lia.
  - rewrite div_euclid_pos, rem_euclid_pos by reflexivity. rewrite NPC_lit.
    gen_dm z q r. unfold I16_MAX, I16_MIN.
    destruct (32767 <? q) eqn:A.
    + rewrite D_MAX_eq. unfold canon, val, clamp; cbn [centuries nanoseconds]; lits; lia.
    + destruct (q <? -32768) eqn:B.
      * rewrite D_MIN_eq. unfold canon, val, clamp; cbn [centuries nanoseconds]; lits; lia.
      * rewrite wrap_signed_16 by lia. rewrite wrap_unsigned_64 by (unfold U64_MAX; lia).
        destruct (from_parts_spec q r) as [C V]; [unfold in_i16, in_range, I16_MIN, I16_MAX; lia | unfold in_u64, in_range, U64_MAX; lia |].
        split; [exact C|]. rewrite V. rewrite SNPC_lit. unfold clamp. lits. lia.
Qed.

Lemma from_total_canon z : canon (from_total_nanoseconds z). Proof. apply from_total_spec. Qed.
Lemma from_total_val z : val (from_total_nanoseconds z) = clamp z. Proof. apply from_total_spec. Qed.

Lemma clamp_id z : MINV <= z <= MAXV -> clamp z = z.
Proof. unfold clamp. lia. Qed.
Lemma clamp_range z : MINV <= clamp z <= MAXV.
Proof. unfold clamp. lits. lia. Qed.

Lemma from_total_of_val d : canon d -> from_total_nanoseconds (val d) = d.
Proof.
  intros H. apply canon_unique; [apply from_total_canon | exact H |].
  rewrite from_total_val. apply clamp_id. apply canon_val_range. exact H.
Qed.

(* ---- Add / Sub / Neg / abs ---- *)
Lemma add_spec a b : canon a -> canon b ->
  canon (dur_add a b) /\ val (dur_add a b) = clamp (val a + val b).
Proof. intros Ha Hb. unfold dur_add. rewrite !total_canon by assumption. apply from_total_spec. Qed.
Lemma sub_spec a b : canon a -> canon b ->
  canon (dur_sub a b) /\ val (dur_sub a b) = clamp (val a - val b).
Proof. intros Ha Hb. unfold dur_sub. rewrite !total_canon by assumption. apply from_total_spec. Qed.
Lemma neg_spec a : canon a -> canon (dur_neg a) /\ val (dur_neg a) = clamp (- val a).
Proof. intros Ha. unfold dur_neg. rewrite total_canon by assumption. apply from_total_spec. Qed.
Lemma abs_spec a : canon a -> canon (dur_abs a) /\ val (dur_abs a) = clamp (Z.abs (val a)).
Proof.
  intros Ha. unfold dur_abs. destruct (centuries a <? 0) eqn:E.
  - destruct (neg_spec a Ha) as [C V]. split; [exact C|]. rewrite V. f_equal.
    destruct a as [c n]. unfold canon, val in *; cbn [centuries nanoseconds] in *. lits. lia.
  - split; [exact Ha|]. pose proof (canon_val_range a Ha).
    destruct a as [c n]. unfold canon, val, clamp in *; cbn [centuries nanoseconds] in *. lits. lia.
Qed.
(* the i128 intermediate of Add/Sub/Neg never overflows *)
Lemma add_no_i128_overflow a b : canon a -> canon b ->
  in_i128 (total_nanoseconds a + total_nanoseconds b) /\ in_i128 (total_nanoseconds a - total_nanoseconds b) /\ in_i128 (- total_nanoseconds a).
Proof.
  intros Ha Hb. rewrite !total_canon by assumption.
  pose proof (canon_val_range a Ha). pose proof (canon_val_range b Hb).
  unfold in_i128, in_range, I128_MIN, I128_MAX. lits. lia.
Qed.

(* ---- from_truncated_nanoseconds / Unit * i64 ---- *)
Lemma from_truncated_spec z : in_i64 z ->
  canon (from_truncated_nanoseconds z) /\ val (from_truncated_nanoseconds z) = z.
Proof.
  unfold in_i64, in_range, I64_MIN, I64_MAX. intros Hz. unfold from_truncated_nanoseconds.
  destruct (z <? 0) eqn:Zn.
  - rewrite div_euclid_pos, rem_euclid_pos by reflexivity. rewrite NPC_lit.
    gen_dm (Z.abs z) q r.
    rewrite wrap_signed_16 by lia.
    destruct (from_parts_spec (-1 - q) (N - r)) as [C V];
      [unfold in_i16, in_range, I16_MIN, I16_MAX; lia | unfold in_u64, in_range, U64_MAX; lia |].
    split; [exact C|]. rewrite V. rewrite SNPC_lit. unfold clamp. lits. lia.
  - destruct (from_parts_spec 0 (Z.abs z)) as [C V];
      [unfold in_i16, in_range, I16_MIN, I16_MAX; lia | unfold in_u64, in_range, U64_MAX; lia |].
    split; [exact C|]. rewrite V. rewrite SNPC_lit. unfold clamp. lits. lia.
Qed.

Lemma unit_mul_spec u q : in_i64 q ->
  canon (unit_mul_i64 u q) /\ val (unit_mul_i64 u q) = clamp (q * spec_unit_factor u).
Proof.
  unfold in_i64, in_range. intros Hq. unfold unit_mul_i64. rewrite unit_factor_eq.
  assert (F : 1 <= spec_unit_factor u <= N) by (destruct u; cbn [spec_unit_factor]; rewrite ?SNPC_lit; lia).
  set (f := spec_unit_factor u) in *. clearbody f.
  set (t := q * f) in *.
  assert (T : I128_MIN <= t <= I128_MAX) by (unfold t, I128_MIN, I128_MAX, I64_MIN, I64_MAX in *; nia).
  destruct (in_rangeb I64_MIN I64_MAX t) eqn:R.
  - assert (E : checked I64_MIN I64_MAX t = Some t) by (unfold checked; rewrite R; reflexivity).
    rewrite E. unfold in_rangeb in R.
    destruct (Z.abs t <? Z.abs I64_MAX) eqn:A.
    + destruct (from_truncated_spec t) as [C V]; [unfold in_i64, in_range; lia|].
      split; [exact C|]. rewrite V. unfold clamp, I64_MIN, I64_MAX in *. lits. lia.
    + apply from_total_spec.
  - assert (E : checked I64_MIN I64_MAX t = None) by (unfold checked; rewrite R; reflexivity).
    rewrite E. rewrite checked_some by lia. apply from_total_spec.
Qed.

Lemma total_unit_ns q : in_i64 q -> total_nanoseconds (unit_mul_i64 Nanosecond q) = q.
Proof.
  intros Hq. destruct (unit_mul_spec Nanosecond q Hq) as [C V].
  rewrite total_canon by exact C. rewrite V. cbn [spec_unit_factor].
  unfold in_i64, in_range, I64_MIN, I64_MAX, clamp in *. lits. lia.
Qed.

Lemma clamp_saturate_i128 x : clamp (saturate I128_MIN I128_MAX x) = clamp x.
Proof. unfold clamp, saturate, I128_MIN, I128_MAX. lits. destruct (x <? _) eqn:A; [lia|]. destruct (_ <? x) eqn:B; lia. Qed.

Lemma mul_spec a k : canon a -> in_i64 k ->
  canon (dur_mul_i64 a k) /\ val (dur_mul_i64 a k) = clamp (val a * k).
Proof.
  intros Ha Hk. unfold dur_mul_i64. rewrite total_unit_ns by exact Hk. rewrite total_canon by exact Ha.
  split; [apply from_total_canon|]. rewrite from_total_val. apply clamp_saturate_i128.
Qed.
Lemma div_spec a k : canon a -> in_i64 k -> k <> 0 ->
  canon (dur_div_i64 a k) /\ val (dur_div_i64 a k) = clamp (Z.quot (val a) k).
Proof.
  intros Ha Hk Hz. unfold dur_div_i64, tdiv. rewrite total_unit_ns by exact Hk. rewrite total_canon by exact Ha.
  split; [apply from_total_canon|]. rewrite from_total_val. apply clamp_saturate_i128.
Qed.

Lemma add_unit_spec a u : canon a ->
  canon (dur_add_unit a u) /\ val (dur_add_unit a u) = clamp (val a + spec_unit_factor u).
Proof.
  intros Ha. unfold dur_add_unit.
  destruct (unit_mul_spec u 1) as [C V]; [unfold in_i64, in_range, I64_MIN, I64_MAX; lia|].
  destruct (add_spec a _ Ha C) as [C2 V2]. split; [exact C2|]. rewrite V2, V. f_equal. f_equal.
  destruct u; cbn [spec_unit_factor]; unfold clamp; lits; lia.
Qed.
Lemma sub_unit_spec a u : canon a ->
  canon (dur_sub_unit a u) /\ val (dur_sub_unit a u) = clamp (val a - spec_unit_factor u).
Proof.
  intros Ha. unfold dur_sub_unit.
  destruct (unit_mul_spec u 1) as [C V]; [unfold in_i64, in_range, I64_MIN, I64_MAX; lia|].
  destruct (sub_spec a _ Ha C) as [C2 V2]. split; [exact C2|]. rewrite V2, V. f_equal. f_equal.
  destruct u; cbn [spec_unit_factor]; unfold clamp; lits; lia.
Qed.

(* ---- equality and order ---- *)
Lemma eq_spec a b : canon a -> canon b ->
  (dur_eqb a b = true <-> (val a = val b \/ (Z.abs (val a) < SNPC /\ val a = - val b))).
Proof.
  destruct a as [c1 n1], b as [c2 n2]. unfold canon, val, dur_eqb; cbn [centuries nanoseconds]. lits.
  intros H1 H2.
  destruct (c1 =? c2) eqn:E.
  - assert (c1 = c2) by lia. subst c2. split; [lia|]. intros [X|[X Y]]; [lia|]. nia.
  - destruct ((c1 =? -1) && (c2 =? 0) || (c1 =? 0) && (c2 =? -1)) eqn:Z.
    + destruct (c1 <? 0) eqn:S; split; try lia; intros [X|[X Y]]; nia.
    + split; [discriminate|]. intros [X|[X Y]]; nia.
Qed.

Lemma cmp_spec a b : canon a -> canon b -> dur_cmp a b = (val a ?= val b).
Proof.
  destruct a as [c1 n1], b as [c2 n2]. unfold canon, val, dur_cmp; cbn [centuries nanoseconds]. lits.
  intros H1 H2. symmetry.
  destruct (Z.compare_spec c1 c2) as [E|L|G].
  - subst. destruct (Z.compare_spec n1 n2); [apply Z.compare_eq_iff|apply Z.compare_lt_iff|apply Z.compare_gt_iff]; lia.
  - apply Z.compare_lt_iff. nia.
  - apply Z.compare_gt_iff. nia.
Qed.

Lemma ltb_spec a b : canon a -> canon b -> dur_ltb a b = (val a <? val b).
Proof. intros. unfold dur_ltb. rewrite cmp_spec by assumption. unfold Z.ltb. destruct (val a ?= val b); reflexivity. Qed.
Lemma gtb_spec a b : canon a -> canon b -> dur_gtb a b = (val b <? val a).
Proof. intros. unfold dur_gtb. rewrite cmp_spec by assumption. unfold Z.ltb. rewrite (Z.compare_antisym (val a) (val b)). destruct (val a ?= val b); reflexivity. Qed.
Lemma min_spec a b : canon a -> canon b -> canon (dur_min a b) /\ val (dur_min a b) = Z.min (val a) (val b).
Proof. intros Ha Hb. unfold dur_min. rewrite ltb_spec by assumption. destruct (val a <? val b) eqn:E; (split; [assumption|lia]). Qed.
Lemma max_spec a b : canon a -> canon b -> canon (dur_max a b) /\ val (dur_max a b) = Z.max (val a) (val b).
Proof. intros Ha Hb. unfold dur_max. rewrite gtb_spec by assumption. destruct (val b <? val a) eqn:E; (split; [assumption|lia]). Qed.

(* ---- truncated accessors ---- *)
Lemma some_inj {A} (x y : A) : Some x = Some y -> x = y.
Proof. intros H. injection H. auto. Qed.
Lemma try_truncated_never_wrong d z : canon d -> try_truncated_nanoseconds d = Some z -> z = val d.
Proof.
  destruct d as [c n]. unfold canon, val, try_truncated_nanoseconds; cbn [centuries nanoseconds]. lits.
  intros H. unfold I16_MIN.
  destruct ((c =? -32768) || (3 <=? Z.abs c)) eqn:A; [discriminate|].
  assert (Hc : -2 <= c <= 2) by lia.
  assert (WN : wrap_signed 64 N = N) by reflexivity.
  destruct (c =? -1) eqn:B.
  - rewrite wrap_signed_64 by (unfold I64_MIN, I64_MAX; lia). intros E%some_inj. lia.
  - rewrite WN. rewrite (wrap_signed_64 n) by (unfold I64_MIN, I64_MAX; lia).
    destruct (0 <=? c) eqn:C.
    + unfold checked, in_rangeb. destruct ((I64_MIN <=? c * N) && (c * N <=? I64_MAX)); [|discriminate].
      destruct ((I64_MIN <=? c * N + n) && (c * N + n <=? I64_MAX)); [|discriminate]. intros E%some_inj. lia.
    + intros E%some_inj. lia.
Qed.
Lemma try_truncated_ok d : canon d -> - 2 * SNPC <= val d <= 2 * SNPC ->
  try_truncated_nanoseconds d = Some (val d).
Proof.
  destruct d as [c n]. unfold canon, val, try_truncated_nanoseconds; cbn [centuries nanoseconds]. lits.
  intros H R. unfold I16_MIN.
  assert (Hc : -2 <= c <= 2) by nia.
  destruct ((c =? -32768) || (3 <=? Z.abs c)) eqn:A; [lia|].
  assert (WN : wrap_signed 64 N = N) by reflexivity.
  destruct (c =? -1) eqn:B.
  - rewrite wrap_signed_64 by (unfold I64_MIN, I64_MAX; lia). f_equal. lia.
  - rewrite WN. rewrite (wrap_signed_64 n) by (unfold I64_MIN, I64_MAX; lia).
    destruct (0 <=? c) eqn:C; [|reflexivity].
    rewrite checked_some by (unfold I64_MIN, I64_MAX; lia). apply checked_some. unfold I64_MIN, I64_MAX; lia.
Qed.
Lemma try_truncated_err d : canon d -> (val d < I64_MIN \/ I64_MAX < val d) ->
  try_truncated_nanoseconds d = None.
Proof.
  intros H R. destruct (try_truncated_nanoseconds d) as [z|] eqn:E; [|reflexivity].
  pose proof (try_truncated_never_wrong d z H E) as ->. exfalso.
  destruct d as [c n]. unfold canon, val, try_truncated_nanoseconds in *; cbn [centuries nanoseconds] in *. lits.
  unfold I16_MIN, I64_MIN, I64_MAX in *.
  destruct ((c =? -32768) || (3 <=? Z.abs c)) eqn:A; [discriminate|].
  assert (WN : wrap_signed 64 N = N) by reflexivity.
  destruct (c =? -1) eqn:B; [lia|].
  rewrite WN in E. rewrite (wrap_signed_64 n) in E by (unfold I64_MIN, I64_MAX; lia).
  destruct (0 <=? c) eqn:C; [|lia].
  unfold checked, in_rangeb, I64_MIN, I64_MAX in E.
  destruct ((-9223372036854775808 <=? c * N) && (c * N <=? 9223372036854775807)); [|discriminate].
  destruct ((-9223372036854775808 <=? c * N + n) && (c * N + n <=? 9223372036854775807)) eqn:X; [lia|discriminate].
Qed.
Lemma truncated_spec d : canon d ->
  (- 2 * SNPC <= val d <= 2 * SNPC -> truncated_nanoseconds d = val d) /\
  (val d < I64_MIN -> truncated_nanoseconds d = I64_MIN) /\
  (I64_MAX < val d -> truncated_nanoseconds d = I64_MAX) /\
  (I64_MIN <= val d <= I64_MAX -> truncated_nanoseconds d = val d \/ truncated_nanoseconds d = I64_MIN \/ truncated_nanoseconds d = I64_MAX).
Proof.
  intros H. unfold truncated_nanoseconds. repeat split.
  - intros R. rewrite try_truncated_ok by assumption. reflexivity.
  - intros R. rewrite try_truncated_err by (assumption || lia).
    destruct d as [c n]. unfold canon, val in *; cbn [centuries nanoseconds] in *. lits. unfold I64_MIN in *.
    destruct (c <? 0) eqn:S; [reflexivity|nia].
  - intros R. rewrite try_truncated_err by (assumption || lia).
    destruct d as [c n]. unfold canon, val in *; cbn [centuries nanoseconds] in *. lits. unfold I64_MAX in *.
    destruct (c <? 0) eqn:S; [nia|reflexivity].
  - intros R. destruct (try_truncated_nanoseconds d) as [z|] eqn:E.
    + left. apply (try_truncated_never_wrong d z H E).
    + right. destruct (centuries d <? 0); [left|right]; reflexivity.
Qed.

(* ---- floor / ceil / round ---- *)
Lemma total_D_MIN : total_nanoseconds D_MIN = MINV. Proof. reflexivity. Qed.
Lemma canon_D_MIN : canon D_MIN. Proof. rewrite D_MIN_eq. unfold canon; cbn [centuries nanoseconds]. lits. lia. Qed.
Lemma canon_D_MAX : canon D_MAX. Proof. rewrite D_MAX_eq. unfold canon; cbn [centuries nanoseconds]. lits. lia. Qed.
Lemma canon_D_ZERO : canon D_ZERO. Proof. rewrite D_ZERO_eq. unfold canon; cbn [centuries nanoseconds]. lits. lia. Qed.
Lemma val_D_MIN : val D_MIN = MINV. Proof. reflexivity. Qed.
Lemma val_D_MAX : val D_MAX = MAXV. Proof. reflexivity. Qed.
Lemma val_D_ZERO : val D_ZERO = 0. Proof. reflexivity. Qed.

Definition fl_of (d s : Z) : Z := d - d mod Z.abs s.

Lemma floor_zero d st : canon d -> canon st -> val st = 0 -> dur_floor d st = D_ZERO.
Proof. intros Hd Hs Z0. unfold dur_floor. rewrite (total_canon st Hs), Z0. reflexivity. Qed.

Lemma floor_sat d st : canon d -> canon st -> val st <> 0 ->
  fl_of (val d) (val st) <= MINV + Z.abs (val st) -> dur_floor d st = D_MIN.
Proof.
  intros Hd Hs Z0 G. unfold dur_floor, fl_of in *. rewrite (total_canon st Hs), (total_canon d Hd), total_D_MIN.
  unfold rem_euclid. rewrite Z.abs_involutive.
  destruct (Z.abs (val st) =? 0) eqn:E; [lia|].
  destruct (val d - val d mod Z.abs (val st) - Z.abs (val st) <=? MINV) eqn:F; [reflexivity|lia].
Qed.

Lemma floor_main d st : canon d -> canon st -> val st <> 0 ->
  MINV + Z.abs (val st) < fl_of (val d) (val st) ->
  canon (dur_floor d st) /\ val (dur_floor d st) = fl_of (val d) (val st).
Proof.
  intros Hd Hs Z0 G. unfold dur_floor, fl_of in *. rewrite (total_canon st Hs), (total_canon d Hd), total_D_MIN.
  unfold rem_euclid. rewrite Z.abs_involutive.
  destruct (Z.abs (val st) =? 0) eqn:E; [lia|].
  destruct (val d - val d mod Z.abs (val st) - Z.abs (val st) <=? MINV) eqn:F; [lia|].
  split; [apply from_total_canon|]. rewrite from_total_val. apply clamp_id.
  pose proof (canon_val_range d Hd). pose proof (Z.mod_pos_bound (val d) (Z.abs (val st)) ltac:(lia)). lia.
Qed.

(* floor is the greatest multiple of |s| not above d *)
Lemma fl_of_props d s : s <> 0 ->
  (Z.abs s | fl_of d s) /\ fl_of d s <= d < fl_of d s + Z.abs s.
Proof.
  intros Hs. unfold fl_of. pose proof (Z.mod_pos_bound d (Z.abs s) ltac:(lia)).
  split; [|lia]. exists (d / Z.abs s). pose proof (Z.div_mod d (Z.abs s) ltac:(lia)). lia.
Qed.
Lemma fl_of_greatest d s m : s <> 0 -> (Z.abs s | m) -> m <= d -> m <= fl_of d s.
Proof.
  intros Hs [k ->] Hm. destruct (fl_of_props d s Hs) as [[j Hj] [L U]]. rewrite Hj in *.
  assert (k <= j) by nia. nia.
Qed.

Lemma abs_total st : canon st -> total_nanoseconds (dur_abs st) = Z.abs (val st).
Proof.
  intros Hs. destruct (abs_spec st Hs) as [C V]. rewrite total_canon by exact C. rewrite V.
  apply clamp_id. pose proof (canon_val_range st Hs). unfold MINV, MAXV in *. lia.
Qed.

Lemma ceil_main d st : canon d -> canon st -> val st <> 0 ->
  MINV + Z.abs (val st) < fl_of (val d) (val st) ->
  canon (dur_ceil d st) /\ val (dur_ceil d st) = clamp (fl_of (val d) (val st) + Z.abs (val st)).
Proof.
  intros Hd Hs Z0 G. destruct (floor_main d st Hd Hs Z0 G) as [C V].
  unfold dur_ceil. rewrite (total_canon _ C), V, (abs_total st Hs).
  pose proof (canon_val_range d Hd). pose proof (canon_val_range st Hs).
  destruct (fl_of_props (val d) (val st) Z0) as [_ [L U]].
  rewrite checked_some by (unfold I128_MIN, I128_MAX; lits; lia).
  apply from_total_spec.
Qed.

Lemma round_main d st : canon d -> canon st -> val st <> 0 ->
  MINV + Z.abs (val st) < fl_of (val d) (val st) ->
  fl_of (val d) (val st) + Z.abs (val st) <= MAXV ->
  canon (dur_round d st) /\
  val (dur_round d st) = (if 2 * (val d - fl_of (val d) (val st)) <? Z.abs (val st)
                          then fl_of (val d) (val st) else fl_of (val d) (val st) + Z.abs (val st)).
Proof.
  intros Hd Hs Z0 G M. destruct (floor_main d st Hd Hs Z0 G) as [Cf Vf].
  destruct (ceil_main d st Hd Hs Z0 G) as [Cc Vc].
  pose proof (canon_val_range d Hd) as Rd.
  destruct (fl_of_props (val d) (val st) Z0) as [_ [L U]].
  rewrite clamp_id in Vc by lia.
  unfold dur_round.
  destruct (sub_spec d _ Hd Cf) as [C1 V1]. destruct (sub_spec _ d Cc Hd) as [C2 V2].
  destruct (abs_spec _ C2) as [C3 V3].
  rewrite ltb_spec by assumption. rewrite V1, V3, V2, Vf, Vc.
  pose proof (canon_val_range st Hs) as Rs.
  set (f := fl_of (val d) (val st)) in *. set (s := Z.abs (val st)) in *.
  pose proof MINV_lit as HM1. pose proof MAXV_lit as HM2.
  assert (Ss : 0 < s <= MAXV) by (unfold s; lia).
  rewrite (clamp_id (val d - f)) by lia. rewrite (clamp_id (f + s - val d)) by lia.
  rewrite (clamp_id (Z.abs _)) by lia.
  destruct (val d - f <? Z.abs (f + s - val d)) eqn:A; destruct (2 * (val d - f) <? s) eqn:B; try lia; (split; assumption).
Qed.

(* ---- decompose ---- *)
Lemma decompose_spec d sg D h mi s ms us ns : canon d ->
  decompose d = (sg, (D, h, mi, s, ms, us, ns)) ->
  0 <= D /\ 0 <= h < 24 /\ 0 <= mi < 60 /\ 0 <= s < 60 /\ 0 <= ms < 1000 /\ 0 <= us < 1000 /\ 0 <= ns < 1000 /\
  Z.abs (val d) = (((((D * 24 + h) * 60 + mi) * 60 + s) * 1000 + ms) * 1000 + us) * 1000 + ns /\
  (sg < 0 <-> val d < 0) /\ D <= 32768 * 36525.
Proof.
  intros Hd. unfold decompose. rewrite (total_canon d Hd). pose proof (canon_val_range d Hd) as R.
  set (v := Z.abs (val d)). assert (Hv : 0 <= v <= 32768 * N) by (unfold v; lits; lia).
  unfold tdiv, trem.
  change NANOSECONDS_PER_DAY with 86400000000000. change NANOSECONDS_PER_HOUR with 3600000000000.
  change NANOSECONDS_PER_MINUTE with 60000000000. change NANOSECONDS_PER_SECOND with 1000000000.
  change NANOSECONDS_PER_MILLISECOND with 1000000. change NANOSECONDS_PER_MICROSECOND with 1000.
  rewrite (Z.quot_div_nonneg v), (Z.rem_mod_nonneg v) by lia.
  pose proof (Z.div_mod v 86400000000000 ltac:(lia)) as E0. pose proof (Z.mod_pos_bound v 86400000000000 ltac:(lia)) as B0.
  set (q0 := v / 86400000000000) in *. set (r0 := v mod 86400000000000) in *. clearbody q0 r0.
  rewrite (Z.quot_div_nonneg r0), (Z.rem_mod_nonneg r0) by lia.
  pose proof (Z.div_mod r0 3600000000000 ltac:(lia)) as E1. pose proof (Z.mod_pos_bound r0 3600000000000 ltac:(lia)) as B1.
  set (q1 := r0 / 3600000000000) in *. set (r1 := r0 mod 3600000000000) in *. clearbody q1 r1.
  rewrite (Z.quot_div_nonneg r1), (Z.rem_mod_nonneg r1) by lia.
  pose proof (Z.div_mod r1 60000000000 ltac:(lia)) as E2. pose proof (Z.mod_pos_bound r1 60000000000 ltac:(lia)) as B2.
  set (q2 := r1 / 60000000000) in *. set (r2 := r1 mod 60000000000) in *. clearbody q2 r2.
  rewrite (Z.quot_div_nonneg r2), (Z.rem_mod_nonneg r2) by lia.
  pose proof (Z.div_mod r2 1000000000 ltac:(lia)) as E3. pose proof (Z.mod_pos_bound r2 1000000000 ltac:(lia)) as B3.
  set (q3 := r2 / 1000000000) in *. set (r3 := r2 mod 1000000000) in *. clearbody q3 r3.
  rewrite (Z.quot_div_nonneg r3), (Z.rem_mod_nonneg r3) by lia.
  pose proof (Z.div_mod r3 1000000 ltac:(lia)) as E4. pose proof (Z.mod_pos_bound r3 1000000 ltac:(lia)) as B4.
  set (q4 := r3 / 1000000) in *. set (r4 := r3 mod 1000000) in *. clearbody q4 r4.
  rewrite (Z.quot_div_nonneg r4), (Z.rem_mod_nonneg r4) by lia.
  pose proof (Z.div_mod r4 1000 ltac:(lia)) as E5. pose proof (Z.mod_pos_bound r4 1000 ltac:(lia)) as B5.
  set (q5 := r4 / 1000) in *. set (r5 := r4 mod 1000) in *. clearbody q5 r5.
  rewrite !wrap_unsigned_64 by (unfold U64_MAX; lia).
  intros E. apply (f_equal fst) in E as Esg. apply (f_equal snd) in E as Ef. cbn [fst snd] in Esg, Ef.
  assert (D = q0 /\ h = q1 /\ mi = q2 /\ s = q3 /\ ms = q4 /\ us = q5 /\ ns = r5) as (-> & -> & -> & -> & -> & -> & ->).
  { clear - Ef. repeat split; congruence. }
  subst sg. unfold signum.
  assert (Sg : Z.sgn (centuries d) < 0 <-> val d < 0).
  { destruct d as [c n]. unfold canon, val in *; cbn [centuries nanoseconds] in *. lits. lia. }
  repeat split; try lia; try (apply Sg; assumption).
Qed.

(* ---- saturation lands on the bound on the side of the true result ---- *)
Lemma canon_at_max d : canon d -> val d = MAXV -> d = D_MAX.
Proof. intros H E. apply canon_unique; [exact H|apply canon_D_MAX|rewrite E; reflexivity]. Qed.
Lemma canon_at_min d : canon d -> val d = MINV -> d = D_MIN.
Proof. intros H E. apply canon_unique; [exact H|apply canon_D_MIN|rewrite E; reflexivity]. Qed.
Lemma clamp_hi z : MAXV <= z -> clamp z = MAXV. Proof. unfold clamp. lits. lia. Qed.
Lemma clamp_lo z : z <= MINV -> clamp z = MINV. Proof. unfold clamp. lits. lia. Qed.

Lemma add_saturates a b : canon a -> canon b ->
  (MAXV <= val a + val b -> dur_add a b = D_MAX) /\ (val a + val b <= MINV -> dur_add a b = D_MIN).
Proof.
  intros Ha Hb. destruct (add_spec a b Ha Hb) as [C V]. split; intros R.
  - apply canon_at_max; [exact C|]. rewrite V. apply clamp_hi; exact R.
  - apply canon_at_min; [exact C|]. rewrite V. apply clamp_lo; exact R.
Qed.
Lemma sub_saturates a b : canon a -> canon b ->
  (MAXV <= val a - val b -> dur_sub a b = D_MAX) /\ (val a - val b <= MINV -> dur_sub a b = D_MIN).
Proof.
  intros Ha Hb. destruct (sub_spec a b Ha Hb) as [C V]. split; intros R.
  - apply canon_at_max; [exact C|]. rewrite V. apply clamp_hi; exact R.
  - apply canon_at_min; [exact C|]. rewrite V. apply clamp_lo; exact R.
Qed.
Lemma mul_saturates a k : canon a -> in_i64 k ->
  (MAXV <= val a * k -> dur_mul_i64 a k = D_MAX) /\ (val a * k <= MINV -> dur_mul_i64 a k = D_MIN).
Proof.
  intros Ha Hk. destruct (mul_spec a k Ha Hk) as [C V]. split; intros R.
  - apply canon_at_max; [exact C|]. rewrite V. apply clamp_hi; exact R.
  - apply canon_at_min; [exact C|]. rewrite V. apply clamp_lo; exact R.
Qed.
Lemma neg_min_max : dur_neg D_MIN = D_MAX /\ dur_neg D_MAX = D_MIN.
Proof. split; reflexivity. Qed.

(* ---- compose and the std::time conversions ---- *)
Lemma compose_total_range d h mi s ms us ns :
  0 <= d <= U64_MAX -> 0 <= h <= U64_MAX -> 0 <= mi <= U64_MAX -> 0 <= s <= U64_MAX -> 0 <= ms <= U64_MAX ->
  0 <= us <= U64_MAX -> 0 <= ns <= U64_MAX ->
  0 <= compose_total d h mi s ms us ns <= I128_MAX /\ in_i128 (- compose_total d h mi s ms us ns).
Proof.
  unfold compose_total, in_i128, in_range, U64_MAX, I128_MAX, I128_MIN.
  change NANOSECONDS_PER_DAY with 86400000000000. change NANOSECONDS_PER_HOUR with 3600000000000.
  change NANOSECONDS_PER_MINUTE with 60000000000. change NANOSECONDS_PER_SECOND with 1000000000.
  change NANOSECONDS_PER_MILLISECOND with 1000000. change NANOSECONDS_PER_MICROSECOND with 1000.
  intros. lia.
Qed.
Lemma compose_spec sg d h mi s ms us ns :
  canon (compose sg d h mi s ms us ns) /\
  val (compose sg d h mi s ms us ns) =
    clamp (if sg <? 0 then - compose_total d h mi s ms us ns else compose_total d h mi s ms us ns).
Proof. unfold compose. destruct (sg <? 0); apply from_total_spec. Qed.
Lemma compose_total_mixed_radix d h mi s ms us ns :
  compose_total d h mi s ms us ns = (((((d * 24 + h) * 60 + mi) * 60 + s) * 1000 + ms) * 1000 + us) * 1000 + ns.
Proof.
  unfold compose_total.
  change NANOSECONDS_PER_DAY with 86400000000000. change NANOSECONDS_PER_HOUR with 3600000000000.
  change NANOSECONDS_PER_MINUTE with 60000000000. change NANOSECONDS_PER_SECOND with 1000000000.
  change NANOSECONDS_PER_MILLISECOND with 1000000. change NANOSECONDS_PER_MICROSECOND with 1000. ring.
Qed.
(* compose inverts decompose *)
Lemma compose_decompose d : canon d ->
  let '(sg, (D, h, mi, s, ms, us, ns)) := decompose d in compose sg D h mi s ms us ns = d.
Proof.
  intros Hd. destruct (decompose d) as [sg [[[[[[D h] mi] s] ms] us] ns]] eqn:E.
  pose proof (decompose_spec d sg D h mi s ms us ns Hd E) as (_ & _ & _ & _ & _ & _ & _ & EQ & SN & _).
  apply canon_unique; [apply compose_spec|exact Hd|].
  rewrite (proj2 (compose_spec _ _ _ _ _ _ _ _)), compose_total_mixed_radix, <- EQ.
  pose proof (canon_val_range d Hd) as R.
  destruct (sg <? 0) eqn:S0; rewrite clamp_id; lia.
Qed.
Lemma to_std_spec d : canon d ->
  to_std d = if val d <? 0 then (0, 0) else (val d / 1000000000, val d mod 1000000000).
Proof.
  intros Hd. unfold to_std. rewrite (total_canon d Hd). pose proof (canon_val_range d Hd) as R.
  assert (SG : (signum d =? -1) = (val d <? 0)).
  { unfold signum. destruct d as [c n]. unfold canon, val in *; cbn [centuries nanoseconds] in *. lits. nia. }
  rewrite SG. destruct (val d <? 0) eqn:N; [reflexivity|].
  assert (P : (0 <=? val d) = true) by lia. rewrite P.
  unfold tdiv, trem. change NANOSECONDS_PER_SECOND with 1000000000.
  rewrite Z.quot_div_nonneg, Z.rem_mod_nonneg by lia.
  assert (val d / 1000000000 <= U64_MAX).
  { unfold U64_MAX. apply Z.div_le_upper_bound; [lia|]. revert R. lits. lia. }
  destruct (val d / 1000000000 <=? U64_MAX) eqn:Q; [reflexivity|lia].
Qed.
Lemma from_std_spec secs sub : 0 <= secs <= U64_MAX -> 0 <= sub < 1000000000 ->
  canon (from_std secs sub) /\ val (from_std secs sub) = clamp (secs * 1000000000 + sub).
Proof.
  intros Hs Hn. unfold from_std.
  assert (secs * 1000000000 + sub <= I128_MAX) by (unfold U64_MAX, I128_MAX in *; lia).
  destruct (secs * 1000000000 + sub <=? I128_MAX) eqn:Q; [|lia]. apply from_total_spec.
Qed.
Lemma std_roundtrip d : canon d -> 0 <= val d -> let '(secs, sub) := to_std d in from_std secs sub = d.
Proof.
  intros Hd Hp. rewrite (to_std_spec d Hd). destruct (val d <? 0) eqn:N; [lia|].
  pose proof (canon_val_range d Hd) as R.
  pose proof (Z.div_mod (val d) 1000000000 ltac:(lia)) as DM. pose proof (Z.mod_pos_bound (val d) 1000000000 ltac:(lia)) as MB.
  assert (0 <= val d / 1000000000 <= U64_MAX).
  { split; [apply Z.div_pos; lia|]. unfold U64_MAX. apply Z.div_le_upper_bound; [lia|]. revert R. lits. lia. }
  pose proof (from_std_spec (val d / 1000000000) (val d mod 1000000000) ltac:(lia) ltac:(lia)) as [FC FV].
  apply canon_unique; [exact FC|exact Hd|].
  rewrite FV. rewrite clamp_id; lia.
Qed.
