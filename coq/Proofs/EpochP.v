(* Lemmas about the Epoch / TimeScale model: uniform-scale conversions, leap seconds, epoch
   arithmetic, ordering, GNSS counters. *)
From Coq Require Import ZArith Bool Lia ZifyBool List.
From HF Require Import MachInt MachIntP GenConsts GenLeap Duration Epoch SignedNs Civil LeapSpec DurationP CivilP.
Import ListNotations.
Open Scope Z_scope.

Local Notation N := 3155760000000000000 (only parsing).

(* ---- closed facts tying the generated constants to the property's dates and offsets ---- *)
Definition uniform (t : timescale) : bool := match t with TAI | TT | GPST | GST | BDT | QZSST => true | _ => false end.
Definition zero_of (t : timescale) : Z := match spec_scale_zero_tai (ts_id t) with Some z => z | None => 0 end.

Lemma ts_id_roundtrip t : ts_of_Z (ts_id t) = t. Proof. destruct t; reflexivity. Qed.
Lemma ts_eqb_spec a b : ts_eqb a b = true <-> a = b.
Proof. destruct a, b; unfold ts_eqb; cbn; split; intros H; try reflexivity; try discriminate. Qed.
Lemma ts_eqb_refl a : ts_eqb a a = true. Proof. apply ts_eqb_spec. reflexivity. Qed.

Lemma tt_offset_val : canon tt_offset /\ val tt_offset = 32184000000.
Proof. split; [apply canon_canonb|]; reflexivity. Qed.
Lemma gpst_ref_val : canon gpst_ref_tai /\ val gpst_ref_tai = civil_days 1980 1 6 * NS_PER_DAY + 19 * NS_PER_S.
Proof. split; [apply canon_canonb|]; reflexivity. Qed.
Lemma qzsst_ref_val : canon qzsst_ref_tai /\ val qzsst_ref_tai = civil_days 1980 1 6 * NS_PER_DAY + 19 * NS_PER_S.
Proof. split; [apply canon_canonb|]; reflexivity. Qed.
Lemma gst_ref_val : canon gst_ref_tai /\ val gst_ref_tai = civil_days 1999 8 22 * NS_PER_DAY + 19 * NS_PER_S.
Proof. split; [apply canon_canonb|]; reflexivity. Qed.
Lemma bdt_ref_val : canon bdt_ref_tai /\ val bdt_ref_tai = civil_days 2006 1 1 * NS_PER_DAY + 33 * NS_PER_S.
Proof. split; [apply canon_canonb|]; reflexivity. Qed.
Lemma unix_ref_val : canon unix_ref_tai /\ val unix_ref_tai = civil_days 1970 1 1 * NS_PER_DAY.
Proof. split; [apply canon_canonb|]; reflexivity. Qed.
(* prime_epoch_offset duplicates the reference epochs; J2000 for ET/TDB *)
Lemma prime_epoch_offset_vals :
  prime_epoch_offset TAI = D_ZERO /\ prime_epoch_offset TT = D_ZERO /\ prime_epoch_offset UTC = D_ZERO /\
  prime_epoch_offset GPST = gpst_ref_tai /\ prime_epoch_offset QZSST = qzsst_ref_tai /\
  prime_epoch_offset GST = gst_ref_tai /\ prime_epoch_offset BDT = bdt_ref_tai /\
  val (prime_epoch_offset ET) = civil_days 2000 1 1 * NS_PER_DAY + 12 * 3600 * NS_PER_S /\
  prime_epoch_offset TDB = prime_epoch_offset ET /\ val (prime_epoch_offset ET) = ET_EPOCH_S * NS_PER_S /\
  ET_EPOCH_S = 3155716800.
Proof. repeat split; reflexivity. Qed.
(* the duplicated f64/i64 copies of the offsets agree with the reference epochs *)
Lemma offset_copies_agree :
  val gpst_ref_tai = SECONDS_GPS_TAI_OFFSET_I64 * NS_PER_S /\ val gst_ref_tai = SECONDS_GST_TAI_OFFSET_I64 * NS_PER_S /\
  val bdt_ref_tai = SECONDS_BDT_TAI_OFFSET_I64 * NS_PER_S.
Proof. repeat split; reflexivity. Qed.

(* ---- uniform conversions ---- *)
Lemma to_tai_uniform e : uniform (scale e) = true -> canon (dur e) ->
  exists d, to_tai_duration_of e = Some d /\ canon d /\ val d = clamp (val (dur e) + zero_of (scale e)).
Proof.
  destruct e as [d t]; cbn [scale dur]. intros U C. unfold to_tai_duration_of; cbn [scale dur].
  destruct t; try discriminate; eexists; (split; [reflexivity|]).
  - split; [exact C|]. change (zero_of TAI) with 0. replace (val d + 0) with (val d) by lia. rewrite clamp_id; [reflexivity|apply canon_val_range; exact C].
  - destruct tt_offset_val as [C2 V2]. destruct (sub_spec d _ C C2) as [C3 V3]. split; [exact C3|]. rewrite V3, V2. reflexivity.
  - destruct gpst_ref_val as [C2 V2]. destruct (add_spec d _ C C2) as [C3 V3]. split; [exact C3|]. rewrite V3, V2. reflexivity.
  - destruct gst_ref_val as [C2 V2]. destruct (add_spec d _ C C2) as [C3 V3]. split; [exact C3|]. rewrite V3, V2. reflexivity.
  - destruct bdt_ref_val as [C2 V2]. destruct (add_spec d _ C C2) as [C3 V3]. split; [exact C3|]. rewrite V3, V2. reflexivity.
  - destruct qzsst_ref_val as [C2 V2]. destruct (add_spec d _ C C2) as [C3 V3]. split; [exact C3|]. rewrite V3, V2. reflexivity.
Qed.

Lemma from_tai_uniform tai t : uniform t = true -> canon tai ->
  exists d, from_tai_duration_to tai t = Some d /\ canon d /\ val d = clamp (val tai - zero_of t).
Proof.
  intros U C. unfold from_tai_duration_to.
  destruct t; try discriminate; eexists; (split; [reflexivity|]).
  - split; [exact C|]. change (zero_of TAI) with 0. replace (val tai - 0) with (val tai) by lia. rewrite clamp_id; [reflexivity|apply canon_val_range; exact C].
  - destruct tt_offset_val as [C2 V2]. destruct (add_spec tai _ C C2) as [C3 V3]. split; [exact C3|]. rewrite V3, V2. reflexivity.
  - destruct gpst_ref_val as [C2 V2]. destruct (sub_spec tai _ C C2) as [C3 V3]. split; [exact C3|]. rewrite V3, V2. reflexivity.
  - destruct gst_ref_val as [C2 V2]. destruct (sub_spec tai _ C C2) as [C3 V3]. split; [exact C3|]. rewrite V3, V2. reflexivity.
  - destruct bdt_ref_val as [C2 V2]. destruct (sub_spec tai _ C C2) as [C3 V3]. split; [exact C3|]. rewrite V3, V2. reflexivity.
  - destruct qzsst_ref_val as [C2 V2]. destruct (sub_spec tai _ C C2) as [C3 V3]. split; [exact C3|]. rewrite V3, V2. reflexivity.
Qed.

(* conversion among uniform scales: exact, constant offset, whenever no bound is hit *)
Theorem conv_uniform e t : uniform (scale e) = true -> uniform t = true -> canon (dur e) ->
  MINV <= val (dur e) + zero_of (scale e) <= MAXV ->
  MINV <= val (dur e) + zero_of (scale e) - zero_of t <= MAXV ->
  exists e', to_time_scale e t = Some e' /\ scale e' = t /\ canon (dur e') /\
             val (dur e') = val (dur e) + zero_of (scale e) - zero_of t.
Proof.
  intros U1 U2 C R1 R2. unfold to_time_scale.
  destruct (ts_eqb t (scale e)) eqn:E.
  - apply ts_eqb_spec in E. subst t. exists e. split; [reflexivity|split; [reflexivity|split; [exact C|lia]]].
  - destruct (to_tai_uniform e U1 C) as (d & -> & Cd & Vd).
    destruct (from_tai_uniform d t U2 Cd) as (d' & -> & Cd' & Vd').
    exists (mkE d' t). cbn [scale dur]. split; [reflexivity|split; [reflexivity|split; [exact Cd'|]]].
    rewrite Vd', Vd. rewrite (clamp_id (val (dur e) + _)) by exact R1. apply clamp_id. exact R2.
Qed.

Theorem conv_identity e : to_time_scale e (scale e) = Some e.
Proof. unfold to_time_scale. rewrite ts_eqb_refl. reflexivity. Qed.

Theorem conv_roundtrip e t : uniform (scale e) = true -> uniform t = true -> canon (dur e) ->
  MINV <= val (dur e) + zero_of (scale e) <= MAXV ->
  MINV <= val (dur e) + zero_of (scale e) - zero_of t <= MAXV ->
  exists e', to_time_scale e t = Some e' /\ to_time_scale e' (scale e) = Some e.
Proof.
  intros U1 U2 C R1 R2. destruct (conv_uniform e t U1 U2 C R1 R2) as (e' & H & S & C' & V').
  exists e'. split; [exact H|].
  assert (P1 : uniform (scale e') = true) by (rewrite S; assumption).
  assert (P2 : MINV <= val (dur e') + zero_of (scale e') <= MAXV) by (rewrite S, V'; lia).
  assert (P3 : MINV <= val (dur e') + zero_of (scale e') - zero_of (scale e) <= MAXV).
  { rewrite S, V'. pose proof (canon_val_range _ C). lia. }
  destruct (conv_uniform e' (scale e) P1 U1 C' P2 P3) as (e'' & H2 & S2 & C2 & V2).
  rewrite H2. f_equal. destruct e as [d s], e'' as [d2 s2]. cbn [scale dur] in *. subst s2. f_equal.
  apply canon_unique; try assumption. rewrite V2, V', S. lia.
Qed.

(* conversion commutes with adding a duration *)
Theorem conv_add_commutes e t x : uniform (scale e) = true -> uniform t = true -> canon (dur e) -> canon x ->
  MINV <= val (dur e) + zero_of (scale e) <= MAXV ->
  MINV <= val (dur e) + zero_of (scale e) - zero_of t <= MAXV ->
  MINV <= val (dur e) + val x <= MAXV ->
  MINV <= val (dur e) + val x + zero_of (scale e) <= MAXV ->
  MINV <= val (dur e) + val x + zero_of (scale e) - zero_of t <= MAXV ->
  exists e1 e2, to_time_scale e t = Some e1 /\ to_time_scale (epoch_add e x) t = Some e2 /\ e2 = epoch_add e1 x.
Proof.
  intros U1 U2 C Cx R1 R2 R3 R4 R5.
  destruct (conv_uniform e t U1 U2 C R1 R2) as (e1 & H1 & S1 & C1 & V1).
  destruct (add_spec (dur e) x C Cx) as [Ca Va]. rewrite clamp_id in Va by exact R3.
  assert (Q2 : MINV <= val (dur (epoch_add e x)) + zero_of (scale (epoch_add e x)) <= MAXV) by (cbn [epoch_add scale dur]; rewrite Va; lia).
  assert (Q3 : MINV <= val (dur (epoch_add e x)) + zero_of (scale (epoch_add e x)) - zero_of t <= MAXV) by (cbn [epoch_add scale dur]; rewrite Va; lia).
  destruct (conv_uniform (epoch_add e x) t U1 U2 Ca Q2 Q3) as (e2 & H2 & S2 & C2 & V2).
  exists e1, e2. split; [exact H1|split; [exact H2|]].
  destruct e1 as [d1 s1], e2 as [d2 s2]. cbn [epoch_add scale dur] in *. subst s1 s2.
  destruct (add_spec d1 x C1 Cx) as [Cb Vb].
  unfold epoch_add; cbn [scale dur]. f_equal.
  apply canon_unique; try assumption. rewrite V2, Vb, V1, Va. rewrite clamp_id by lia. lia.
Qed.

(* ---- Epoch +/- Duration, differences (C04) ---- *)
Lemma epoch_add_spec e d : canon (dur e) -> canon d ->
  scale (epoch_add e d) = scale e /\ canon (dur (epoch_add e d)) /\ val (dur (epoch_add e d)) = clamp (val (dur e) + val d).
Proof. intros C Cd. destruct (add_spec _ _ C Cd). cbn [epoch_add scale dur]. auto. Qed.
Lemma epoch_sub_spec e d : canon (dur e) -> canon d ->
  scale (epoch_sub e d) = scale e /\ canon (dur (epoch_sub e d)) /\ val (dur (epoch_sub e d)) = clamp (val (dur e) - val d).
Proof. intros C Cd. destruct (sub_spec _ _ C Cd). cbn [epoch_sub scale dur]. auto. Qed.
Lemma epoch_add_unit_spec e u : canon (dur e) ->
  scale (epoch_add_unit e u) = scale e /\ canon (dur (epoch_add_unit e u)) /\
  val (dur (epoch_add_unit e u)) = clamp (val (dur e) + spec_unit_factor u).
Proof. intros C. destruct (add_unit_spec (dur e) u C). cbn [epoch_add_unit scale dur]. auto. Qed.
Lemma epoch_sub_unit_spec e u : canon (dur e) ->
  scale (epoch_sub_unit e u) = scale e /\ canon (dur (epoch_sub_unit e u)) /\
  val (dur (epoch_sub_unit e u)) = clamp (val (dur e) - spec_unit_factor u).
Proof. intros C. destruct (sub_unit_spec (dur e) u C). cbn [epoch_sub_unit scale dur]. auto. Qed.

Lemma epoch_diff_same_scale a b : scale a = scale b -> epoch_diff a b = Some (dur_sub (dur a) (dur b)).
Proof. intros S. unfold epoch_diff, to_time_scale. rewrite S, ts_eqb_refl. reflexivity. Qed.

Theorem add_then_diff e d : canon (dur e) -> canon d -> MINV <= val (dur e) + val d <= MAXV ->
  epoch_diff (epoch_add e d) e = Some d.
Proof.
  intros C Cd R. rewrite epoch_diff_same_scale by reflexivity. f_equal.
  destruct (epoch_add_spec e d C Cd) as (_ & Ca & Va). destruct (sub_spec _ _ Ca C) as [Cs Vs].
  apply canon_unique; try assumption. rewrite Vs, Va. rewrite (clamp_id (val (dur e) + val d)) by exact R.
  rewrite clamp_id; [lia|]. pose proof (canon_val_range d Cd). lia.
Qed.
Theorem add_then_sub e d : canon (dur e) -> canon d -> MINV <= val (dur e) + val d <= MAXV ->
  epoch_sub (epoch_add e d) d = e.
Proof.
  intros C Cd R. destruct (epoch_add_spec e d C Cd) as (_ & Ca & Va).
  destruct (sub_spec _ _ Ca Cd) as [Cs Vs]. destruct e as [de se]. unfold epoch_sub, epoch_add in *; cbn [scale dur] in *. f_equal.
  apply canon_unique; try assumption. rewrite Vs, Va. rewrite (clamp_id (val de + val d)) by exact R.
  rewrite clamp_id; [lia|]. pose proof (canon_val_range de C). lia.
Qed.
Theorem add_diff_back e f : scale e = scale f -> canon (dur e) -> canon (dur f) ->
  MINV <= val (dur f) - val (dur e) <= MAXV ->
  exists x, epoch_diff f e = Some x /\ epoch_add e x = f.
Proof.
  intros S C Cf R. rewrite epoch_diff_same_scale by (symmetry; exact S). eexists. split; [reflexivity|].
  destruct (sub_spec _ _ Cf C) as [Cs Vs]. destruct (add_spec _ _ C Cs) as [Ca Va].
  destruct e as [de se], f as [df sf]. unfold epoch_add in *; cbn [scale dur] in *. subst sf. f_equal.
  apply canon_unique; try assumption. rewrite Va, Vs, (clamp_id _ R). rewrite clamp_id; [lia|].
  pose proof (canon_val_range df Cf). lia.
Qed.

(* ---- GNSS week / time of week, nanosecond counters (C20) ---- *)
Lemma from_time_of_week_spec w ns t :
  scale (from_time_of_week w ns t) = t /\ canon (dur (from_time_of_week w ns t)) /\
  val (dur (from_time_of_week w ns t)) = clamp (w * 7 * NS_PER_DAY + ns).
Proof.
  unfold from_time_of_week; cbn [scale dur]. split; [reflexivity|]. split; [apply from_total_canon|].
  rewrite from_total_val. f_equal. change WEEKDAY_DAYS_PER_WEEK_I128 with 7. change NANOSECONDS_PER_DAY with NS_PER_DAY. lia.
Qed.
Lemma from_time_of_week_no_overflow w ns : 0 <= w <= U32_MAX -> 0 <= ns <= U64_MAX ->
  in_i128 (ns + w * WEEKDAY_DAYS_PER_WEEK_I128 * NANOSECONDS_PER_DAY).
Proof.
  unfold U32_MAX, U64_MAX, in_i128, in_range, I128_MIN, I128_MAX. change WEEKDAY_DAYS_PER_WEEK_I128 with 7.
  change NANOSECONDS_PER_DAY with 86400000000000. lia.
Qed.

Lemma to_time_of_week_spec e : canon (dur e) -> 0 <= val (dur e) ->
  let '(w, r) := to_time_of_week e in
  0 <= r < 7 * NS_PER_DAY /\ w * (7 * NS_PER_DAY) + r = val (dur e) /\ 0 <= w <= U32_MAX.
Proof.
  intros C P. unfold to_time_of_week. rewrite (total_canon _ C).
  pose proof (canon_val_range _ C) as R. rewrite MAXV_lit in R.
  change NANOSECONDS_PER_DAY with 86400000000000. change WEEKDAY_DAYS_PER_WEEK_I128 with 7. change NS_PER_DAY with 86400000000000.
  unfold tdiv. set (v := val (dur e)) in *.
  rewrite (Z.quot_div_nonneg v) by lia.
  pose proof (Z.div_mod v 86400000000000 ltac:(lia)) as E1. pose proof (Z.mod_pos_bound v 86400000000000 ltac:(lia)) as B1.
  set (q1 := v / 86400000000000) in *. set (r1 := v mod 86400000000000) in *. clearbody q1 r1.
  rewrite (Z.quot_div_nonneg q1) by lia.
  pose proof (Z.div_mod q1 7 ltac:(lia)) as E2. pose proof (Z.mod_pos_bound q1 7 ltac:(lia)) as B2.
  set (q2 := q1 / 7) in *. set (r2 := q1 mod 7) in *. clearbody q2 r2.
  rewrite wrap_unsigned_64 by (unfold U64_MAX; lia).
  assert (0 <= q2 <= 4294967295) by lia.
  unfold wrap_unsigned. rewrite Z.mod_small by (change (2 ^ 32) with 4294967296; lia).
  unfold U32_MAX. lia.
Qed.

Theorem tow_roundtrip w ns t : 0 <= w -> 0 <= ns < 7 * NS_PER_DAY -> w * 7 * NS_PER_DAY + ns <= MAXV ->
  to_time_of_week (from_time_of_week w ns t) = (w, ns).
Proof.
  intros Hw Hns R. destruct (from_time_of_week_spec w ns t) as (S & C & V).
  assert (P : 0 <= val (dur (from_time_of_week w ns t))).
  { rewrite V, clamp_id; [|rewrite MINV_lit; change NS_PER_DAY with 86400000000000 in *]; lia. }
  pose proof (to_time_of_week_spec _ C P) as H. destruct (to_time_of_week (from_time_of_week w ns t)) as [w' r'].
  destruct H as (B & E & _). rewrite V, clamp_id in E by (rewrite MINV_lit; change NS_PER_DAY with 86400000000000 in *; lia).
  change NS_PER_DAY with 86400000000000 in *.
  assert (w' = w) by nia. subst. f_equal. lia.
Qed.
Theorem tow_roundtrip_back e : canon (dur e) -> 0 <= val (dur e) ->
  let '(w, r) := to_time_of_week e in from_time_of_week w r (scale e) = e.
Proof.
  intros C P. pose proof (to_time_of_week_spec e C P) as H. destruct (to_time_of_week e) as [w r].
  destruct H as (B & E & _). destruct (from_time_of_week_spec w r (scale e)) as (S & C2 & V).
  destruct e as [d s]. unfold from_time_of_week in *; cbn [scale dur] in *. f_equal.
  apply canon_unique; try assumption. rewrite V. pose proof (canon_val_range d C). rewrite clamp_id; lia.
Qed.

Lemma from_nanoseconds_spec n t : 0 <= n <= U64_MAX ->
  scale (from_nanoseconds_in n t) = t /\ canon (dur (from_nanoseconds_in n t)) /\ val (dur (from_nanoseconds_in n t)) = n.
Proof.
  intros Hn. unfold from_nanoseconds_in; cbn [scale dur].
  destruct (from_parts_spec 0 n) as [C V]; [unfold in_i16, in_range, I16_MIN, I16_MAX; lia|exact Hn|].
  split; [reflexivity|]. split; [exact C|]. rewrite V. unfold U64_MAX in Hn. rewrite clamp_id; [lia|]. rewrite MINV_lit, MAXV_lit. lia.
Qed.
(* the counter is returned exactly when the count in that scale is in [0, one century); error otherwise *)
Lemma to_nanoseconds_spec e t d : to_duration_in_time_scale e t = Some d -> canon d ->
  to_nanoseconds_in_time_scale e t = Some (if (0 <=? val d) && (val d <? SNPC) then Some (val d) else None).
Proof.
  intros H C. unfold to_nanoseconds_in_time_scale. rewrite H. cbn [option_map]. f_equal.
  destruct d as [c n]. unfold canon, val in *; cbn [centuries nanoseconds] in *. rewrite SNPC_lit in *.
  destruct (c =? 0) eqn:E.
  - assert (c = 0) by lia. subst. destruct ((0 <=? 0 * N + n) && (0 * N + n <? N)) eqn:F; [f_equal; lia|lia].
  - destruct ((0 <=? c * N + n) && (c * N + n <? N)) eqn:F; [nia|reflexivity].
Qed.

(* ---- chronological comparison (C12), uniform scales ---- *)
Definition instant_of (e : epoch) : Z := val (dur e) + zero_of (scale e).

Theorem epoch_cmp_uniform a b : uniform (scale a) = true -> uniform (scale b) = true ->
  canon (dur a) -> canon (dur b) ->
  MINV <= instant_of a <= MAXV -> MINV <= instant_of b <= MAXV ->
  epoch_cmp a b = Some (instant_of a ?= instant_of b).
Proof.
  intros Ua Ub Ca Cb Ra Rb. unfold epoch_cmp, instant_of in *.
  destruct (ts_eqb (scale a) (scale b)) eqn:E.
  - apply ts_eqb_spec in E. rewrite cmp_spec by assumption. rewrite E. f_equal.
    destruct (Z.compare_spec (val (dur a)) (val (dur b))); symmetry;
      [apply Z.compare_eq_iff|apply Z.compare_lt_iff|apply Z.compare_gt_iff]; lia.
  - unfold to_tai_duration, to_duration_in_time_scale.
    assert (Ha : exists d, to_time_scale a TAI = Some (mkE d TAI) /\ canon d /\ val d = val (dur a) + zero_of (scale a)).
    { destruct (conv_uniform a TAI Ua eq_refl Ca) as (e' & H & S & C & V); [exact Ra|change (zero_of TAI) with 0; lia|].
      destruct e' as [d s]; cbn [scale dur] in *. subst s. exists d. change (zero_of TAI) with 0 in V. split; [exact H|split; [exact C|lia]]. }
    assert (Hb : exists d, to_time_scale b TAI = Some (mkE d TAI) /\ canon d /\ val d = val (dur b) + zero_of (scale b)).
    { destruct (conv_uniform b TAI Ub eq_refl Cb) as (e' & H & S & C & V); [exact Rb|change (zero_of TAI) with 0; lia|].
      destruct e' as [d s]; cbn [scale dur] in *. subst s. exists d. change (zero_of TAI) with 0 in V. split; [exact H|split; [exact C|lia]]. }
    destruct Ha as (da & -> & Cda & Vda). destruct Hb as (db & -> & Cdb & Vdb). cbn [option_map dur].
    rewrite cmp_spec by assumption. rewrite Vda, Vdb. reflexivity.
Qed.

(* ---- leap seconds (C06) ---- *)
Lemma builtin_is_file : BUILTIN_IERS = IERS_FILE. Proof. reflexivity. Qed.
(* the NAIF kernel lists the same steps: (delta, date) with date 00:00 = threshold *)
Lemma file_is_naif :
  map (fun e => (snd e, fst e)) IERS_FILE =
  map (fun e => let '(d, y, m, dd) := e in (d, civil_days y m dd * 86400)) NAIF_DELTA_AT.
Proof. vm_compute. reflexivity. Qed.
Lemma builtin_full_table_iers_part :
  map (fun e => let '(ts, _, _, _) := e in ts) (filter (fun e => let '(_, _, _, a) := e in a) LATEST_LEAP_SECONDS) = map fst BUILTIN_IERS.
Proof. reflexivity. Qed.

Definition tbl_ok (tbl : list (Z * Z)) : bool :=
  forallb (fun e => (0 <=? fst e) && (fst e <=? 9000000000) && (0 <=? snd e) && (snd e <=? 1000)) tbl.
Fixpoint sortedb (tbl : list (Z * Z)) : bool :=
  match tbl with a :: (b :: _) as r => (fst a <=? fst b) && sortedb r | _ => true end.
Fixpoint ascb (tbl : list (Z * Z)) (lo : Z) : bool :=
  match tbl with [] => true | (_, d) :: r => (lo <=? d) && ascb r d end.
Lemma iers_file_ok : tbl_ok IERS_FILE = true /\ sortedb IERS_FILE = true /\ ascb IERS_FILE 0 = true.
Proof. repeat split; reflexivity. Qed.

Lemma unit_second_val ts : 0 <= ts <= 9000001000 ->
  canon (unit_mul_i64 Second ts) /\ val (unit_mul_i64 Second ts) = ts * NS_PER_S.
Proof.
  intros H. destruct (unit_mul_spec Second ts) as [C V]; [unfold in_i64, in_range, I64_MIN, I64_MAX; lia|].
  split; [exact C|]. rewrite V. cbn [spec_unit_factor]. unfold NS_PER_S. apply clamp_id. rewrite MINV_lit, MAXV_lit. lia.
Qed.
Lemma geb_unit_second d ts : canon d -> 0 <= ts <= 9000001000 ->
  dur_geb d (unit_mul_i64 Second ts) = (ts * NS_PER_S <=? val d).
Proof.
  intros C H. destruct (unit_second_val ts H) as [C2 V2]. unfold dur_geb. rewrite ltb_spec by assumption. rewrite V2.
  destruct (val d <? ts * NS_PER_S) eqn:A; destruct (ts * NS_PER_S <=? val d) eqn:B; try reflexivity; lia.
Qed.

Lemma fwd_walk_eq tbl : forall acc d, canon d -> tbl_ok tbl = true -> 0 <= acc <= 1000 ->
  leap_fwd_walk tbl d acc = delta_at_tai tbl (val d) acc.
Proof.
  induction tbl as [|[ts dl] rest IH]; intros acc d C OK A; [reflexivity|].
  cbn [tbl_ok forallb fst snd] in OK. apply andb_prop in OK as [O1 O2].
  cbn [leap_fwd_walk delta_at_tai]. rewrite geb_unit_second by (assumption || lia).
  destruct ((ts + acc) * NS_PER_S <=? val d); [apply IH; try assumption; lia|reflexivity].
Qed.

Definition last_sat (tbl : list (Z * Z)) (u acc : Z) : Z :=
  fold_left (fun a e => if fst e * NS_PER_S <=? u then snd e else a) tbl acc.
Lemma last_sat_none tbl u acc : Forall (fun e => u < fst e * NS_PER_S) tbl -> last_sat tbl u acc = acc.
Proof.
  revert acc. induction tbl as [|e rest IH]; intros acc F; [reflexivity|].
  inversion F as [|? ? Fe Fr]; subst. unfold last_sat; cbn [fold_left].
  destruct (fst e * NS_PER_S <=? u) eqn:A; [lia|]. apply IH; exact Fr.
Qed.
Lemma sorted_head_le a rest : sortedb (a :: rest) = true -> Forall (fun e => fst a <= fst e) rest.
Proof.
  revert a. induction rest as [|b r IH]; intros a S; [constructor|].
  cbn [sortedb] in S. apply andb_prop in S as [S1 S2]. constructor; [lia|].
  specialize (IH b S2). eapply Forall_impl; [|exact IH]. cbn. intros. lia.
Qed.
Lemma sorted_tail a rest : sortedb (a :: rest) = true -> sortedb rest = true.
Proof. destruct rest as [|b r]; [reflexivity|]. cbn [sortedb]. intros S. apply andb_prop in S as [_ S]. exact S. Qed.
Lemma delta_utc_last_sat tbl : forall u acc, sortedb tbl = true -> delta_at_utc tbl u acc = last_sat tbl u acc.
Proof.
  induction tbl as [|[ts dl] rest IH]; intros u acc S; [reflexivity|].
  cbn [delta_at_utc]. unfold last_sat; cbn [fold_left fst snd].
  destruct (ts * NS_PER_S <=? u) eqn:A.
  - apply IH. apply (sorted_tail _ _ S).
  - symmetry. apply last_sat_none. pose proof (sorted_head_le _ _ S) as F. cbn [fst] in F.
    eapply Forall_impl; [|exact F]. cbn. intros e He. unfold NS_PER_S in *. lia.
Qed.
Lemma rev_scan_last_sat tbl : forall d acc, canon d -> tbl_ok tbl = true ->
  match leap_rev_scan (rev tbl) d with Some v => v | None => acc end = last_sat tbl (val d) acc.
Proof.
  induction tbl as [|x l IH] using rev_ind; intros d acc C OK; [reflexivity|].
  unfold tbl_ok in OK. rewrite forallb_app in OK. apply andb_prop in OK as [O1 O2]. cbn [forallb] in O2.
  rewrite rev_app_distr. cbn [rev app]. destruct x as [ts dl]. cbn [leap_rev_scan fst snd] in *.
  unfold last_sat. rewrite fold_left_app. cbn [fold_left fst snd].
  rewrite geb_unit_second by (assumption || lia).
  destruct (ts * NS_PER_S <=? val d); [reflexivity|]. apply IH; assumption.
Qed.

Theorem leap_lookup_is_spec d : canon d -> opt_or0 (leap_seconds_iers d) = spec_delta_utc (val d).
Proof.
  intros C. unfold leap_seconds_iers, leap_seconds_with, builtin_provider, spec_delta_utc. rewrite builtin_is_file.
  destruct iers_file_ok as (O & S & _).
  rewrite delta_utc_last_sat by exact S. rewrite <- (rev_scan_last_sat IERS_FILE d 0 C O). unfold opt_or0. reflexivity.
Qed.
Theorem leap_at_tai_is_spec d : canon d -> leap_seconds_at_tai d = spec_delta_tai (val d).
Proof.
  intros C. unfold leap_seconds_at_tai, builtin_provider, spec_delta_tai. rewrite builtin_is_file.
  apply fwd_walk_eq; [exact C|apply iers_file_ok|lia].
Qed.

(* bounds and monotonicity of the step functions, for any table with ascending deltas *)
Lemma delta_utc_ge tbl : forall u acc, ascb tbl acc = true -> acc <= delta_at_utc tbl u acc.
Proof.
  induction tbl as [|[ts dl] rest IH]; intros u acc A; cbn [delta_at_utc]; [lia|].
  cbn [ascb] in A. apply andb_prop in A as [A1 A2]. destruct (ts * NS_PER_S <=? u); [|lia].
  specialize (IH u dl A2). lia.
Qed.
Lemma delta_utc_mono tbl : forall u1 u2 acc, ascb tbl acc = true -> u1 <= u2 ->
  delta_at_utc tbl u1 acc <= delta_at_utc tbl u2 acc.
Proof.
  induction tbl as [|[ts dl] rest IH]; intros u1 u2 acc A L; cbn [delta_at_utc]; [lia|].
  cbn [ascb] in A. apply andb_prop in A as [A1 A2].
  destruct (ts * NS_PER_S <=? u1) eqn:E1; destruct (ts * NS_PER_S <=? u2) eqn:E2; try lia.
  - apply IH; assumption.
  - pose proof (delta_utc_ge rest u2 dl A2). lia.
Qed.
Lemma delta_tai_ge tbl : forall t acc, ascb tbl acc = true -> acc <= delta_at_tai tbl t acc.
Proof.
  induction tbl as [|[ts dl] rest IH]; intros t acc A; cbn [delta_at_tai]; [lia|].
  cbn [ascb] in A. apply andb_prop in A as [A1 A2]. destruct ((ts + acc) * NS_PER_S <=? t); [|lia].
  specialize (IH t dl A2). lia.
Qed.
Fixpoint maxd (tbl : list (Z * Z)) (acc : Z) : Z := match tbl with [] => acc | (_, d) :: r => maxd r (Z.max acc d) end.
Lemma delta_utc_le_max tbl : forall u acc, delta_at_utc tbl u acc <= maxd tbl acc.
Proof.
  assert (M : forall l a b, a <= b -> maxd l a <= maxd l b).
  { intros l. induction l as [|[ts dl] r IH]; intros a b L; cbn [maxd]; [lia|]. apply IH. lia. }
  assert (G : forall l a, a <= maxd l a).
  { intros l. induction l as [|[ts dl] r IH]; intros a; cbn [maxd]; [lia|]. specialize (IH (Z.max a dl)). lia. }
  induction tbl as [|[ts dl] rest IH]; intros u acc; cbn [delta_at_utc maxd]; [lia|].
  destruct (ts * NS_PER_S <=? u).
  - specialize (IH u dl). pose proof (M rest dl (Z.max acc dl) ltac:(lia)). lia.
  - pose proof (G rest (Z.max acc dl)). lia.
Qed.
Lemma delta_tai_le_max tbl : forall t acc, delta_at_tai tbl t acc <= maxd tbl acc.
Proof.
  assert (M : forall l a b, a <= b -> maxd l a <= maxd l b).
  { intros l. induction l as [|[ts dl] r IH]; intros a b L; cbn [maxd]; [lia|]. apply IH. lia. }
  assert (G : forall l a, a <= maxd l a).
  { intros l. induction l as [|[ts dl] r IH]; intros a; cbn [maxd]; [lia|]. specialize (IH (Z.max a dl)). lia. }
  induction tbl as [|[ts dl] rest IH]; intros t acc; cbn [delta_at_tai maxd]; [lia|].
  destruct ((ts + acc) * NS_PER_S <=? t).
  - specialize (IH t dl). pose proof (M rest dl (Z.max acc dl) ltac:(lia)). lia.
  - pose proof (G rest (Z.max acc dl)). lia.
Qed.
Lemma spec_delta_bounds u : 0 <= spec_delta_utc u <= 37 /\ 0 <= spec_delta_tai u <= 37.
Proof.
  unfold spec_delta_utc, spec_delta_tai. destruct iers_file_ok as (_ & _ & A).
  pose proof (delta_utc_ge IERS_FILE u 0 A). pose proof (delta_tai_ge IERS_FILE u 0 A).
  pose proof (delta_utc_le_max IERS_FILE u 0) as M1. pose proof (delta_tai_le_max IERS_FILE u 0) as M2.
  change (maxd IERS_FILE 0) with 37 in *. lia.
Qed.

(* UTC -> TAI is strictly increasing *)
Theorem spec_utc2tai_strict_mono u1 u2 : u1 < u2 -> spec_utc2tai u1 < spec_utc2tai u2.
Proof.
  intros L. unfold spec_utc2tai, spec_delta_utc. destruct iers_file_ok as (_ & _ & A).
  pose proof (delta_utc_mono IERS_FILE u1 u2 0 A ltac:(lia)). unfold NS_PER_S. lia.
Qed.
(* TAI -> UTC inverts UTC -> TAI, for every UTC count *)
Lemma roundtrip_gen tbl : forall u acc, ascb tbl acc = true ->
  delta_at_tai tbl (u + delta_at_utc tbl u acc * NS_PER_S) acc = delta_at_utc tbl u acc.
Proof.
  induction tbl as [|[ts dl] rest IH]; intros u acc A; cbn [delta_at_utc delta_at_tai]; [reflexivity|].
  cbn [ascb] in A. apply andb_prop in A as [A1 A2].
  destruct (ts * NS_PER_S <=? u) eqn:E.
  - pose proof (delta_utc_ge rest u dl A2) as G.
    destruct ((ts + acc) * NS_PER_S <=? u + delta_at_utc rest u dl * NS_PER_S) eqn:F; [apply IH; exact A2|].
    unfold NS_PER_S in *. lia.
  - destruct ((ts + acc) * NS_PER_S <=? u + acc * NS_PER_S) eqn:F; [unfold NS_PER_S in *; lia|reflexivity].
Qed.
Theorem spec_roundtrip u : spec_tai2utc (spec_utc2tai u) = u.
Proof.
  unfold spec_tai2utc, spec_utc2tai, spec_delta_tai, spec_delta_utc. destruct iers_file_ok as (_ & _ & A).
  rewrite roundtrip_gen by exact A. lia.
Qed.

(* the model's two UTC arms are the spec functions, whenever no bound is hit *)
Theorem utc_to_tai_spec d : canon d ->
  exists d', to_time_scale (mkE d UTC) TAI = Some (mkE d' TAI) /\ canon d' /\ val d' = clamp (spec_utc2tai (val d)).
Proof.
  intros C. unfold to_time_scale. cbn [scale dur]. change (ts_eqb TAI UTC) with false. cbv iota.
  unfold to_tai_duration_of; cbn [scale dur from_tai_duration_to].
  pose proof (spec_delta_bounds (val d)) as [B _]. rewrite leap_lookup_is_spec by exact C.
  destruct (unit_second_val (spec_delta_utc (val d)) ltac:(lia)) as [C2 V2].
  destruct (add_spec d _ C C2) as [C3 V3]. eexists. split; [reflexivity|]. split; [exact C3|].
  rewrite V3, V2. reflexivity.
Qed.
Theorem tai_to_utc_spec d : canon d ->
  exists d', to_time_scale (mkE d TAI) UTC = Some (mkE d' UTC) /\ canon d' /\ val d' = clamp (spec_tai2utc (val d)).
Proof.
  intros C. unfold to_time_scale. cbn [scale dur]. change (ts_eqb UTC TAI) with false. cbv iota.
  unfold to_tai_duration_of; cbn [scale dur from_tai_duration_to].
  pose proof (spec_delta_bounds (val d)) as [_ B]. rewrite leap_at_tai_is_spec by exact C.
  destruct (unit_second_val (spec_delta_tai (val d)) ltac:(lia)) as [C2 V2].
  destruct (sub_spec d _ C C2) as [C3 V3]. eexists. split; [reflexivity|]. split; [exact C3|].
  rewrite V3, V2. reflexivity.
Qed.
(* a provider answers through the table only, so a file provider with the same entries answers identically *)
Theorem provider_extensional p1 p2 d : p1 = p2 -> leap_seconds_with p1 d = leap_seconds_with p2 d.
Proof. intros ->. reflexivity. Qed.

(* ---- chronological comparison over the seven integer scales (uniform + UTC) ---- *)
Definition int_scale (t : timescale) : bool := uniform t || match t with UTC => true | _ => false end.
(* the TAI instant (ns since 1900-01-01 TAI) an epoch denotes *)
Definition instant (e : epoch) : Z :=
  match spec_instant (ts_id (scale e)) (val (dur e)) with Some i => i | None => 0 end.
Lemma instant_uniform e : uniform (scale e) = true -> instant e = val (dur e) + zero_of (scale e).
Proof. destruct e as [d t]; cbn [scale dur]. unfold instant, zero_of; cbn [scale dur]. destruct t; try discriminate; intros _; reflexivity. Qed.
Lemma instant_utc d : instant (mkE d UTC) = spec_utc2tai (val d).
Proof. reflexivity. Qed.

Lemma to_tai_int e : int_scale (scale e) = true -> canon (dur e) -> MINV <= instant e <= MAXV ->
  exists d, to_tai_duration e = Some d /\ canon d /\ val d = instant e.
Proof.
  intros I C R. unfold int_scale in I. destruct (uniform (scale e)) eqn:U.
  - rewrite instant_uniform in * by exact U.
    destruct (conv_uniform e TAI U eq_refl C) as (e' & H & S & C' & V); [exact R|change (zero_of TAI) with 0; lia|].
    unfold to_tai_duration, to_duration_in_time_scale. rewrite H. cbn [option_map]. exists (dur e').
    split; [reflexivity|]. split; [exact C'|]. rewrite V. change (zero_of TAI) with 0. lia.
  - destruct e as [d t]; cbn [scale dur] in *. destruct t; try discriminate.
    destruct (utc_to_tai_spec d C) as (d' & H & C' & V).
    unfold to_tai_duration, to_duration_in_time_scale. rewrite H. cbn [option_map dur]. exists d'.
    split; [reflexivity|]. split; [exact C'|]. rewrite V. rewrite instant_utc in R. rewrite instant_utc. apply clamp_id. exact R.
Qed.

Lemma compare_utc2tai a b : (spec_utc2tai a ?= spec_utc2tai b) = (a ?= b).
Proof.
  destruct (Z.compare_spec a b) as [E|L|G].
  - subst. apply Z.compare_refl.
  - apply Z.compare_lt_iff. apply spec_utc2tai_strict_mono. exact L.
  - apply Z.compare_gt_iff. apply spec_utc2tai_strict_mono. exact G.
Qed.

Theorem epoch_cmp_chrono a b : int_scale (scale a) = true -> int_scale (scale b) = true ->
  canon (dur a) -> canon (dur b) -> MINV <= instant a <= MAXV -> MINV <= instant b <= MAXV ->
  epoch_cmp a b = Some (instant a ?= instant b).
Proof.
  intros Ia Ib Ca Cb Ra Rb. unfold epoch_cmp.
  destruct (ts_eqb (scale a) (scale b)) eqn:E.
  - apply ts_eqb_spec in E. rewrite cmp_spec by assumption. f_equal.
    unfold int_scale in Ia. destruct (uniform (scale a)) eqn:U.
    + rewrite !instant_uniform by (assumption || (rewrite <- E; assumption)). rewrite E.
      destruct (Z.compare_spec (val (dur a)) (val (dur b))); symmetry;
        [apply Z.compare_eq_iff|apply Z.compare_lt_iff|apply Z.compare_gt_iff]; lia.
    + destruct a as [da ta], b as [db tb]; cbn [scale dur] in *. subst tb. destruct ta; try discriminate.
      rewrite !instant_utc. symmetry. apply compare_utc2tai.
  - destruct (to_tai_int a Ia Ca Ra) as (da & -> & Cda & Vda). destruct (to_tai_int b Ib Cb Rb) as (db & -> & Cdb & Vdb).
    rewrite cmp_spec by assumption. rewrite Vda, Vdb. reflexivity.
Qed.
Theorem epoch_eq_chrono a b : int_scale (scale a) = true -> int_scale (scale b) = true ->
  canon (dur a) -> canon (dur b) -> MINV <= instant a <= MAXV -> MINV <= instant b <= MAXV ->
  epoch_eqb a b = Some (instant a =? instant b).
Proof.
  intros Ia Ib Ca Cb Ra Rb. unfold epoch_eqb. rewrite (epoch_cmp_chrono a b) by assumption. cbn [option_map]. f_equal.
  destruct (Z.compare_spec (instant a) (instant b)) as [E|L|G]; symmetry; [apply Z.eqb_eq; exact E|apply Z.eqb_neq; lia|apply Z.eqb_neq; lia].
Qed.
(* swapping the operands flips the answer, so exactly one of <, ==, > holds whichever side each epoch is on *)
Theorem epoch_cmp_antisym a b : int_scale (scale a) = true -> int_scale (scale b) = true ->
  canon (dur a) -> canon (dur b) -> MINV <= instant a <= MAXV -> MINV <= instant b <= MAXV ->
  epoch_cmp b a = option_map CompOpp (epoch_cmp a b).
Proof.
  intros Ia Ib Ca Cb Ra Rb. rewrite (epoch_cmp_chrono a b), (epoch_cmp_chrono b a) by assumption.
  cbn [option_map]. f_equal. apply Z.compare_antisym.
Qed.
(* the instant is unchanged by conversion, so comparisons are preserved by converting either operand *)
Theorem instant_preserved_uniform e t : uniform (scale e) = true -> uniform t = true -> canon (dur e) ->
  MINV <= val (dur e) + zero_of (scale e) <= MAXV -> MINV <= val (dur e) + zero_of (scale e) - zero_of t <= MAXV ->
  exists e', to_time_scale e t = Some e' /\ instant e' = instant e.
Proof.
  intros U1 U2 C R1 R2. destruct (conv_uniform e t U1 U2 C R1 R2) as (e' & H & S & C' & V).
  exists e'. split; [exact H|]. rewrite !instant_uniform by (assumption || (rewrite S; assumption)). rewrite V, S. lia.
Qed.
Theorem instant_preserved_utc_to_tai d : canon d -> MINV <= spec_utc2tai (val d) <= MAXV ->
  exists e', to_time_scale (mkE d UTC) TAI = Some e' /\ instant e' = instant (mkE d UTC).
Proof.
  intros C R. destruct (utc_to_tai_spec d C) as (d' & H & C' & V). exists (mkE d' TAI). split; [exact H|].
  rewrite instant_utc. rewrite (instant_uniform (mkE d' TAI)) by reflexivity. cbn [scale dur]. rewrite V, clamp_id by exact R.
  change (zero_of TAI) with 0. lia.
Qed.

(* ---- TAI -> UTC is monotone between instants outside the inserted seconds (any sorted table) ---- *)
Lemma gap_lower_bound tbl : forall t acc m, sortedb tbl = true -> Forall (fun e => m <= fst e) tbl ->
  (m + acc) * NS_PER_S <= t -> in_gap_tbl tbl t acc = false ->
  m * NS_PER_S <= t - delta_at_tai tbl t acc * NS_PER_S.
Proof.
  induction tbl as [|[ts dl] rest IH]; intros t acc m S F P G; cbn [delta_at_tai]; [unfold NS_PER_S in *; lia|].
  cbn [in_gap_tbl] in G. apply orb_false_elim in G as [G1 G2].
  inversion F as [|? ? Fe Fr]; subst. cbn [fst] in Fe.
  destruct ((ts + acc) * NS_PER_S <=? t) eqn:A.
  - assert (E : (ts + dl) * NS_PER_S <= t) by (destruct (t <? (ts + dl) * NS_PER_S) eqn:X; [cbn in G1; discriminate|lia]).
    specialize (IH t dl ts (sorted_tail _ _ S) (sorted_head_le _ _ S) E G2). unfold NS_PER_S in *. lia.
  - unfold NS_PER_S in *. lia.
Qed.
Lemma tai2utc_mono_gen tbl : forall t1 t2 acc, sortedb tbl = true -> t1 <= t2 ->
  in_gap_tbl tbl t1 acc = false -> in_gap_tbl tbl t2 acc = false ->
  t1 - delta_at_tai tbl t1 acc * NS_PER_S <= t2 - delta_at_tai tbl t2 acc * NS_PER_S.
Proof.
  induction tbl as [|[ts dl] rest IH]; intros t1 t2 acc S L G1 G2; cbn [delta_at_tai]; [lia|].
  cbn [in_gap_tbl] in G1, G2. apply orb_false_elim in G1 as [G1a G1b]. apply orb_false_elim in G2 as [G2a G2b].
  destruct ((ts + acc) * NS_PER_S <=? t1) eqn:A1; destruct ((ts + acc) * NS_PER_S <=? t2) eqn:A2; try lia.
  - apply IH; try assumption. apply (sorted_tail _ _ S).
  - assert (E : (ts + dl) * NS_PER_S <= t2) by (destruct (t2 <? (ts + dl) * NS_PER_S) eqn:X; [cbn in G2a; discriminate|lia]).
    pose proof (gap_lower_bound rest t2 dl ts (sorted_tail _ _ S) (sorted_head_le _ _ S) E G2b). unfold NS_PER_S in *. lia.
Qed.
Theorem tai2utc_mono_outside_gaps t1 t2 : t1 <= t2 -> in_gap t1 = false -> in_gap t2 = false ->
  spec_tai2utc t1 <= spec_tai2utc t2.
Proof.
  intros L G1 G2. unfold spec_tai2utc, spec_delta_tai. apply tai2utc_mono_gen; try assumption. apply iers_file_ok.
Qed.
