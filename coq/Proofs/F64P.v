(* Float interop lemmas.  Closed facts are evaluated on the Flocq model itself (vm_compute); results are
   durations (records of Z), so no proof terms are compared. *)
From Coq Require Import ZArith Bool Lia ZifyBool List.
From Flocq Require Import Core.Core IEEE754.BinarySingleNaN.
From HF Require Import MachInt MachIntP GenConsts GenLeap GenUnits Duration Epoch F64 DurationF64 Views SignedNs DurationP.
Import ListNotations.
Open Scope Z_scope.

(* ---- Unit * f64 never panics and always yields a canonical duration ---- *)
Lemma f_to_int_range lo hi x : lo <= 0 <= hi -> lo <= f_to_int lo hi x <= hi.
Proof.
  intros H. unfold f_to_int. destruct x as [s|s| |s m e B]; try (destruct s; lia); try lia;
    match goal with |- context[Btrunc ?y] => set (t := Btrunc y) end;
    destruct (t <? lo) eqn:A; try lia; destruct (hi <? t) eqn:C; lia.
Qed.
Theorem unit_mul_f64_canon u q : canon (unit_mul_f64 u q).
Proof.
  unfold unit_mul_f64.
  destruct (fge q _); [apply canon_D_MAX|]. destruct (fle q _); [apply canon_D_MIN|].
  destruct (flt _ _).
  - apply from_truncated_spec. apply f_to_int_range. unfold I64_MIN, I64_MAX. lia.
  - apply from_total_canon.
Qed.
Theorem to_unit_total d u : exists b, f_to_bits (to_unit d u) = b.
Proof. eexists. reflexivity. Qed.

(* ---- infinities map to the bounds, NaN to zero, for each of the nine units ---- *)
Theorem unit_mul_f64_special u :
  unit_mul_f64 u B754_nan = D_ZERO /\ unit_mul_f64 u (B754_infinity false) = D_MAX /\ unit_mul_f64 u (B754_infinity true) = D_MIN.
Proof. destruct u; repeat split; vm_compute; reflexivity. Qed.

(* ---- Duration * f64: total, canonical, exact integer arithmetic ---- *)
Theorem dur_mul_f64_canon d qb : canon (dur_mul_f64 d qb).
Proof.
  unfold dur_mul_f64. destruct (_ || _); [apply canon_D_ZERO|].
  destruct (_ && _); [destruct (Bool.eqb _ _); [apply canon_D_MAX|apply canon_D_MIN]|]. apply from_total_canon.
Qed.
(* for a finite q = (+/-) mantissa * 2^exponent: the product is formed exactly, truncated toward zero, then clamped;
   the intermediate saturations are inert whenever |count * mantissa| fits an i128 (always for |d| <= 10 000 years) *)
Definition q_mantissa (qb : Z) : Z :=
  let biased := (qb / 2 ^ 52) mod 2 ^ 11 in let fr := qb mod 2 ^ 52 in
  let m := if biased =? 0 then fr else fr + 2 ^ 52 in if qb / 2 ^ 63 =? 0 then m else - m.
Definition q_exponent (qb : Z) : Z := let biased := (qb / 2 ^ 52) mod 2 ^ 11 in if biased =? 0 then -1074 else biased - 1075.
Definition q_finite (qb : Z) : bool := negb ((qb / 2 ^ 52) mod 2 ^ 11 =? 2047).

Theorem dur_mul_f64_exact d qb : canon d -> q_finite qb = true -> val d <> 0 ->
  I128_MIN < val d * q_mantissa qb <= I128_MAX ->
  let p := val d * q_mantissa qb in let e := q_exponent qb in
  val (dur_mul_f64 d qb) = clamp (if 0 <=? e then p * 2 ^ e else Z.quot p (2 ^ (- e))).
Proof.
  intros C F NZ R. cbv zeta. unfold dur_mul_f64. rewrite (total_canon d C).
  unfold q_finite in F. set (biased := (qb / 2 ^ 52) mod 2 ^ 11) in *.
  assert (Hb : (biased =? 2047) = false) by (destruct (biased =? 2047); [discriminate|reflexivity]).
  rewrite Hb. cbn [andb orb]. destruct (val d =? 0) eqn:Z0; [lia|].
  unfold q_mantissa, q_exponent in *. fold biased in R |- *.
  set (m := if biased =? 0 then qb mod 2 ^ 52 else qb mod 2 ^ 52 + 2 ^ 52) in *.
  set (sm := if negb (qb / 2 ^ 63 =? 0) then - m else m).
  assert (Esm : sm = (if qb / 2 ^ 63 =? 0 then m else - m)) by (unfold sm; destruct (qb / 2 ^ 63 =? 0); reflexivity).
  rewrite Esm. set (p := val d * (if qb / 2 ^ 63 =? 0 then m else - m)) in *.
  rewrite (saturate_id _ _ p) by lia.
  set (e := if biased =? 0 then -1074 else biased - 1075).
  rewrite from_total_val.
  destruct (0 <=? e) eqn:E0.
  - destruct (127 <=? e) eqn:E127.
    + assert (P2 : 2 ^ 127 <= 2 ^ e) by (apply Z.pow_le_mono_r; lia).
      change (2 ^ 127) with 170141183460469231731687303715884105728 in P2.
      unfold clamp, I128_MAX, I128_MIN. pose proof MINV_lit. pose proof MAXV_lit.
      destruct (0 <? p) eqn:A; [nia|]. destruct (p <? 0) eqn:B; [nia|]. assert (p = 0) by lia. subst p. lia.
    + apply clamp_saturate_i128.
  - destruct (e <=? -127) eqn:E127.
    + (* |p| < 2^127 <= 2^(-e): the quotient truncates to 0 *)
      assert (P2 : 2 ^ 127 <= 2 ^ (- e)) by (apply Z.pow_le_mono_r; lia).
      change (2 ^ 127) with 170141183460469231731687303715884105728 in P2.
      unfold I128_MIN, I128_MAX in R.
      assert (Q : Z.quot p (2 ^ (- e)) = 0).
      { apply Z.quot_small_iff; [lia|]. rewrite (Z.abs_eq (2 ^ (- e))) by lia. clearbody p. lia. }
      rewrite Q. reflexivity.
    + unfold tdiv. reflexivity.
Qed.

(* ---- closed facts used by the integer models: these Unit * f64 products are exact ---- *)
(* every leap-second threshold and every offset, as the code forms them (f64 * Unit::Second) *)
Theorem leap_table_f64_products_exact :
  forallb (fun e => let '(ts, tsbits, dbits, announced) := e in
                    dur_eqb (unit_mul_f64 Second (f_of_bits tsbits)) (unit_mul_i64 Second ts)) LATEST_LEAP_SECONDS = true /\
  forallb (fun e => dur_eqb (unit_mul_f64 Second (f_of_Z (snd e))) (unit_mul_i64 Second (snd e)) &&
                    dur_eqb (unit_mul_f64 Second (fadd (f_of_Z (fst e)) (f_of_Z (snd e - 1)))) (unit_mul_i64 Second (fst e + (snd e - 1)))) BUILTIN_IERS = true.
Proof. split; vm_compute; reflexivity. Qed.
(* the JD / MJD constants: 15 020 d, 2 400 000.5 d, 2 415 020.5 d, J2000 = 3 155 716 800 s *)
Theorem view_constants_exact :
  day_mjd_j1900 = from_total_nanoseconds (15020 * 86400000000000) /\
  day_mjd_offset = from_total_nanoseconds (2400000 * 86400000000000 + 43200000000000) /\
  day_jd_j1900 = from_total_nanoseconds (2415020 * 86400000000000 + 43200000000000) /\
  sec_et_epoch = from_total_nanoseconds (3155716800 * 1000000000) /\
  unix_ref_utc = Some (from_total_nanoseconds (25567 * 86400000000000)) /\
  val sec_et_epoch = 36524 * 86400000000000 + 43200000000000.
Proof. repeat split; vm_compute; reflexivity. Qed.
(* Unit factors: the f64 factor table is the integer table, exactly (every factor is a dyadic-representable integer) *)
Theorem unit_factor_tables_agree :
  map (fun b => f_to_int I128_MIN I128_MAX (f_of_bits b)) UNIT_FACTOR_F64_BITS = UNIT_FACTOR_I64 /\
  UNIT_FACTOR_I64 = map spec_unit_factor all_units /\ map unit_factor all_units = UNIT_FACTOR_I64.
Proof. repeat split; vm_compute; reflexivity. Qed.
(* whole-number inputs up to a day of seconds, each unit: exactly the product (finite sweep, bound stated) *)
Definition whole_ok (u : unit_t) (k : Z) : bool :=
  dur_eqb (unit_mul_f64 u (f_of_Z k)) (unit_mul_i64 u k) && dur_eqb (unit_mul_f64 u (f_of_Z (- k))) (unit_mul_i64 u (- k)).
