(* TimeSeries: every call of next, from every reachable state, by induction on the number of calls. *)
From Coq Require Import ZArith Bool Lia ZifyBool List.
From HF Require Import MachInt MachIntP GenConsts Duration Epoch TimeSeries SignedNs DurationP EpochP.
Import ListNotations.
Open Scope Z_scope.

(* number of items: #{k >= 0 : k*step < span} (exclusive) or #{k >= 0 : k*step <= span} (inclusive) *)
Definition n_items (span step : Z) (incl : bool) : Z :=
  if incl then span / step + 1 else (span + step - 1) / step.

Lemma n_items_char span step incl j : 0 < step -> 0 <= span -> 0 <= j ->
  (j <? n_items span step incl) = (if incl then j * step <=? span else j * step <? span).
Proof.
  intros Hs Hp Hj. unfold n_items. destruct incl.
  - pose proof (Z.div_mod span step ltac:(lia)). pose proof (Z.mod_pos_bound span step ltac:(lia)).
    destruct (j <? span / step + 1) eqn:A; destruct (j * step <=? span) eqn:B; try reflexivity; nia.
  - pose proof (Z.div_mod (span + step - 1) step ltac:(lia)). pose proof (Z.mod_pos_bound (span + step - 1) step ltac:(lia)).
    destruct (j <? (span + step - 1) / step) eqn:A; destruct (j * step <? span) eqn:B; try reflexivity; nia.
Qed.
Lemma n_items_nonneg span step incl : 0 < step -> 0 <= span -> 0 <= n_items span step incl.
Proof.
  intros Hs Hp. unfold n_items. destruct incl.
  - pose proof (Z.div_pos span step ltac:(lia) ltac:(lia)). lia.
  - apply Z.div_pos; lia.
Qed.

Section Series.
  Variable start : epoch.
  Variable span step : duration.
  Variable incl : bool.
  Hypothesis Cstart : canon (dur start).
  Hypothesis Cspan : canon span.
  Hypothesis Cstep : canon step.
  Hypothesis Hstep : 0 < val step.
  Hypothesis Hspan : 0 <= val span.
  (* no bound is hit: the last offset tested, and every yielded epoch, are representable; cur stays an i64 *)
  Hypothesis Hroom : val span + val step <= MAXV.
  Hypothesis Hend : val (dur start) + val span <= MAXV.
  Hypothesis Hcur : n_items (val span) (val step) incl <= I64_MAX.

  Let N := n_items (val span) (val step) incl.
  Definition st (j : Z) : timeseries := mkTS start span step j incl.
  (* what the j-th item is: start + j*step, in start's scale *)
  Definition item (j : Z) : epoch := epoch_add start (dur_mul_i64 step j).

  Lemma item_spec j : 0 <= j < N ->
    scale (item j) = scale start /\ canon (dur (item j)) /\ val (dur (item j)) = val (dur start) + j * val step.
  Proof.
    intros Hj. unfold item.
    assert (Hi : in_i64 j) by (unfold in_i64, in_range, I64_MIN in *; subst N; lia).
    destruct (mul_spec step j Cstep Hi) as [Cm Vm].
    assert (B : j * val step <= val span).
    { pose proof (n_items_char (val span) (val step) incl j Hstep Hspan ltac:(lia)) as E. fold N in E.
      destruct (j <? N) eqn:A; [|lia]. destruct incl; lia. }
    pose proof (canon_val_range _ Cstart) as Rs. pose proof MINV_lit. pose proof MAXV_lit.
    rewrite clamp_id in Vm by nia.
    destruct (epoch_add_spec start _ Cstart Cm) as (S & Ca & Va).
    split; [exact S|]. split; [exact Ca|]. rewrite Va, Vm. replace (val step * j) with (j * val step) by ring. apply clamp_id. nia.
  Qed.

  Lemma next_step j : 0 <= j <= N ->
    ts_next (st j) = if j <? N then (Some (item j), st (j + 1)) else (None, st j).
  Proof.
    intros Hj. unfold ts_next, st; cbn [ts_step ts_cur ts_incl ts_duration ts_start].
    assert (Hi : in_i64 j) by (unfold in_i64, in_range, I64_MIN in *; subst N; lia).
    destruct (mul_spec step j Cstep Hi) as [Cm Vm]. replace (val step * j) with (j * val step) in Vm by ring.
    pose proof (n_items_char (val span) (val step) incl j Hstep Hspan ltac:(lia)) as E. fold N in E.
    pose proof MINV_lit. pose proof MAXV_lit. pose proof (canon_val_range _ Cspan).
    assert (Vm' : val (dur_mul_i64 step j) = j * val step \/ (val span < j * val step /\ val span < val (dur_mul_i64 step j))).
    { destruct (Z_le_gt_dec (j * val step) MAXV) as [L|G].
      - left. rewrite Vm. apply clamp_id. nia.
      - right. rewrite Vm. unfold clamp. lia. }
    unfold dur_geb. rewrite ltb_spec, gtb_spec by assumption.
    destruct (j <? N) eqn:A.
    - assert (val (dur_mul_i64 step j) = j * val step) as Vx by (destruct Vm' as [V|[V1 V2]]; [exact V|destruct incl; lia]).
      rewrite Vx. destruct incl; cbn [negb andb orb].
      + destruct (val span <? j * val step) eqn:B; [lia|]. reflexivity.
      + destruct (j * val step <? val span) eqn:B; [|lia]. cbn [negb]. reflexivity.
    - destruct incl; cbn [negb andb orb].
      + destruct (val span <? val (dur_mul_i64 step j)) eqn:B; [reflexivity|]. destruct Vm' as [V|[V1 V2]]; lia.
      + destruct (val (dur_mul_i64 step j) <? val span) eqn:B; [|reflexivity]. destruct Vm' as [V|[V1 V2]]; lia.
  Qed.

  (* n calls from the state with counter j: the i-th yields item (j+i) while j+i < N, then None for ever *)
  Theorem run_from n : forall j, 0 <= j <= N ->
    forall i, (i < n)%nat ->
      nth i (fst (ts_run n (st j))) None = (if j + Z.of_nat i <? N then Some (item (j + Z.of_nat i)) else None).
  Proof.
    induction n as [|n IH]; intros j Hj i Hi; [lia|].
    cbn [ts_run]. rewrite next_step by exact Hj.
    destruct (j <? N) eqn:A.
    - destruct (ts_run n (st (j + 1))) as [l s'] eqn:R. cbn [fst].
      destruct i as [|i]; cbn [nth].
      + replace (j + Z.of_nat 0) with j by lia. rewrite A. reflexivity.
      + specialize (IH (j + 1) ltac:(lia) i ltac:(lia)). rewrite R in IH. cbn [fst] in IH. rewrite IH.
        replace (j + 1 + Z.of_nat i) with (j + Z.of_nat (S i)) by lia. reflexivity.
    - destruct (ts_run n (st j)) as [l s'] eqn:R. cbn [fst].
      destruct i as [|i]; cbn [nth].
      + replace (j + Z.of_nat 0) with j by lia. rewrite A. reflexivity.
      + specialize (IH j Hj i ltac:(lia)). rewrite R in IH. cbn [fst] in IH. rewrite IH.
        destruct (j + Z.of_nat i <? N) eqn:B; [lia|]. destruct (j + Z.of_nat (S i) <? N) eqn:D; [lia|reflexivity].
  Qed.
End Series.
