(* Facts about the calendar specification (Spec/Civil.v) alone: the closed form equals the
   definition by summation, civil_of_days inverts civil_days in both directions and always
   yields a valid date.  Era sweeps are by vm_compute over one 400-year period (146 097 days),
   lifted to all of Z by periodicity lemmas -- the finite domain is genuinely periodic. *)
From Coq Require Import ZArith Bool Lia ZifyBool List.
From HF Require Import Civil.
Open Scope Z_scope.

(* ---- leap-year counting ---- *)
Definition Lc (y : Z) : Z := (y - 1) / 4 - (y - 1) / 100 + (y - 1) / 400.

Ltac dm4 y :=
  pose proof (Z.div_mod y 4 ltac:(lia)); pose proof (Z.mod_pos_bound y 4 ltac:(lia));
  pose proof (Z.div_mod y 100 ltac:(lia)); pose proof (Z.mod_pos_bound y 100 ltac:(lia));
  pose proof (Z.div_mod y 400 ltac:(lia)); pose proof (Z.mod_pos_bound y 400 ltac:(lia)).

Lemma Lc_step y : Lc (y + 1) = Lc y + (if leap y then 1 else 0).
Proof.
  unfold Lc, leap. replace (y + 1 - 1) with y by ring.
  dm4 y. dm4 (y - 1).
  destruct (y mod 4 =? 0) eqn:E4; destruct (y mod 100 =? 0) eqn:E100; destruct (y mod 400 =? 0) eqn:E400;
    cbn [andb orb negb]; lia.
Qed.

Lemma ylen_Lc y : ylen y = 365 + Lc (y + 1) - Lc y.
Proof. rewrite Lc_step. unfold ylen. destruct (leap y); lia. Qed.

Lemma sum_ylen_closed n : forall a, sum_ylen a n = 365 * Z.of_nat n + Lc (a + Z.of_nat n) - Lc a.
Proof.
  induction n as [|n IH]; intro a; cbn [sum_ylen].
  - replace (a + Z.of_nat 0) with a by lia. lia.
  - rewrite IH, ylen_Lc. replace (a + 1 + Z.of_nat n) with (a + Z.of_nat (S n)) by lia. lia.
Qed.

Lemma days_before_year_closed y : days_before_year y = 365 * (y - 1900) + Lc y - Lc 1900.
Proof.
  unfold days_before_year. destruct (1900 <=? y) eqn:E.
  - rewrite sum_ylen_closed. rewrite Z2Nat.id by lia. replace (1900 + (y - 1900)) with y by ring. lia.
  - rewrite sum_ylen_closed. rewrite Z2Nat.id by lia. replace (y + (1900 - y)) with 1900 by ring. lia.
Qed.

(* cumulative month lengths *)
Definition cumul (lp : bool) (m : Z) : Z :=
  match m with 1 => 0 | 2 => 31 | 3 => 59 | 4 => 90 | 5 => 120 | 6 => 151 | 7 => 181 | 8 => 212
             | 9 => 243 | 10 => 273 | 11 => 304 | 12 => 334 | _ => 0 end + (if lp && (2 <? m) then 1 else 0).

Lemma sum_mlen_cumul y m : 1 <= m <= 12 -> sum_mlen y (Z.to_nat (m - 1)) = cumul (leap y) m.
Proof.
  intros Hm. assert (m=1\/m=2\/m=3\/m=4\/m=5\/m=6\/m=7\/m=8\/m=9\/m=10\/m=11\/m=12) as Hc by lia.
  destruct Hc as [->|[->|[->|[->|[->|[->|[->|[->|[->|[->|[->| ->]]]]]]]]]]];
    vm_compute Z.to_nat; cbn [sum_mlen Z.of_nat Pos.of_succ_nat Pos.succ mlen]; unfold cumul; destruct (leap y); reflexivity.
Qed.

(* the closed form is the definition by summation *)
Lemma civil_days_closed_form y m d : 1 <= m <= 12 ->
  civil_days y m d = 365 * (y - 1900) + Lc y - Lc 1900 + cumul (leap y) m + (d - 1).
Proof.
  intros Hm. change (Lc 1900) with 460.
  unfold Lc, civil_days, cumul, leap.
  dm4 y. dm4 (y - 1).
  pose proof (Z.div_mod ((y-1) mod 400) 4 ltac:(lia)). pose proof (Z.mod_pos_bound ((y-1) mod 400) 4 ltac:(lia)).
  pose proof (Z.div_mod ((y-1) mod 400) 100 ltac:(lia)). pose proof (Z.mod_pos_bound ((y-1) mod 400) 100 ltac:(lia)).
  pose proof (Z.div_mod (y mod 400) 4 ltac:(lia)). pose proof (Z.mod_pos_bound (y mod 400) 4 ltac:(lia)).
  pose proof (Z.div_mod (y mod 400) 100 ltac:(lia)). pose proof (Z.mod_pos_bound (y mod 400) 100 ltac:(lia)).
  assert (m=1\/m=2\/m=3\/m=4\/m=5\/m=6\/m=7\/m=8\/m=9\/m=10\/m=11\/m=12) as Hc by lia.
  destruct Hc as [->|[->|[->|[->|[->|[->|[->|[->|[->|[->|[->| ->]]]]]]]]]]];
  cbn -[Z.div Z.modulo Z.mul Z.add Z.sub];
  repeat match goal with |- context[(?a) / 5] => let v := eval vm_compute in (a/5) in change (a/5) with v end;
  destruct (y mod 4 =? 0) eqn:E4; destruct (y mod 100 =? 0) eqn:E100; destruct (y mod 400 =? 0) eqn:E400; cbn [andb orb negb];
  lia.
Qed.

Theorem civil_days_is_sum y m d : 1 <= m <= 12 -> civil_days y m d = civil_days_sum y m d.
Proof.
  intros Hm. unfold civil_days_sum. rewrite days_before_year_closed, sum_mlen_cumul by exact Hm.
  apply civil_days_closed_form; exact Hm.
Qed.

(* anchors *)
Lemma civil_anchor_1900 : civil_days 1900 1 1 = 0. Proof. reflexivity. Qed.
Lemma civil_anchor_1970 : civil_days 1970 1 1 = 25567. Proof. reflexivity. Qed.
Lemma civil_anchor_2000 : civil_days 2000 1 1 = 36524. Proof. reflexivity. Qed.
Lemma civil_anchor_0001 : civil_days 1 1 1 = -693595. Proof. reflexivity. Qed.

(* ---- periodicity ---- *)
Lemma leap_period y : leap (y + 400) = leap y.
Proof.
  unfold leap. replace (y + 400) with (y + 100 * 4) at 1 by ring. replace (y + 400) with (y + 4 * 100) at 1 by ring.
  replace (y + 400) with (y + 1 * 400) by ring. rewrite !Z.mod_add by lia. reflexivity.
Qed.
Lemma mlen_period y m : mlen (y + 400) m = mlen y m.
Proof. unfold mlen. rewrite leap_period. reflexivity. Qed.
Lemma civil_days_period y m d : civil_days (y + 400) m d = civil_days y m d + 146097.
Proof.
  unfold civil_days. destruct (m <=? 2).
  - replace (y + 400 - 1) with ((y-1) + 1*400) by ring. rewrite Z.div_add, Z.mod_add by lia. ring.
  - replace (y + 400) with (y + 1*400) by ring. rewrite Z.div_add, Z.mod_add by lia. ring.
Qed.
Lemma civil_of_days_period z : civil_of_days (z + 146097) = let '(y,m,d) := civil_of_days z in (y+400,m,d).
Proof.
  unfold civil_of_days.
  replace (z + 146097 + 693901) with (z + 693901 + 1*146097) by ring.
  rewrite Z.div_add, Z.mod_add by lia.
  set (doe := (z+693901) mod 146097). set (era := (z+693901)/146097).
  set (yoe := (doe - doe / 1460 + doe / 36524 - doe / 146096) / 365).
  cbv zeta. destruct (_ <? 10); destruct (_ <=? 2); f_equal; try f_equal; ring.
Qed.

(* ---- day number -> date: valid and inverted by civil_days, for every day ---- *)
Definition ok (z:Z) : bool := let '(y,m,d) := civil_of_days z in
  (civil_days y m d =? z) && (1 <=? m) && (m <=? 12) && (1 <=? d) && (d <=? mlen y m).
Fixpoint sweep (n:nat) (z:Z) : bool := match n with O => true | S n' => ok z && sweep n' (z+1) end.
Lemma sweep_sound n : forall z0, sweep n z0 = true -> forall z, z0 <= z < z0 + Z.of_nat n -> ok z = true.
Proof.
  induction n as [|n IH]; intros z0 H z Hz; [lia|].
  cbn [sweep] in H. apply andb_prop in H as [H1 H2].
  destruct (Z.eq_dec z z0) as [->|Hne]; [exact H1|]. apply (IH (z0+1) H2). lia.
Qed.
Lemma era_ok : sweep (Z.to_nat 146097) 0 = true. Proof. vm_compute. reflexivity. Qed.
Lemma ok_shift z : ok (z + 146097) = ok z.
Proof.
  unfold ok. rewrite civil_of_days_period. destruct (civil_of_days z) as [[y m] d]. rewrite civil_days_period, mlen_period.
  replace (civil_days y m d + 146097 =? z + 146097) with (civil_days y m d =? z); [reflexivity|].
  destruct (Z.eqb_spec (civil_days y m d) z); destruct (Z.eqb_spec (civil_days y m d + 146097) (z+146097)); lia.
Qed.
Lemma ok_shift_k k : forall z, 0 <= k -> ok (z + k*146097) = ok z.
Proof.
  intros z Hk. revert z. pattern k. apply natlike_ind; [intro z; f_equal; ring| |exact Hk].
  intros x Hx IH z. replace (z + Z.succ x * 146097) with ((z + x*146097) + 146097) by ring. rewrite ok_shift. apply IH.
Qed.
Theorem all_ok z : ok z = true.
Proof.
  pose proof (Z.div_mod z 146097 ltac:(lia)) as E. pose proof (Z.mod_pos_bound z 146097 ltac:(lia)) as B.
  set (k := z / 146097) in *. set (r := z mod 146097) in *.
  assert (Hr : ok r = true) by (apply (sweep_sound _ 0 era_ok); rewrite Z2Nat.id; lia).
  destruct (Z_le_gt_dec 0 k) as [Hk|Hk].
  - replace z with (r + k*146097) by lia. rewrite ok_shift_k by lia. exact Hr.
  - replace r with (z + (-k)*146097) in Hr by lia. rewrite ok_shift_k in Hr by lia. exact Hr.
Qed.

Theorem civil_of_days_valid z : let '(y,m,d) := civil_of_days z in valid_date y m d /\ civil_days y m d = z.
Proof.
  pose proof (all_ok z) as H. unfold ok in H. destruct (civil_of_days z) as [[y m] d].
  unfold valid_date. lia.
Qed.

(* ---- date -> day number -> date, for every valid date ---- *)
(* civil_days = start of the year + day of the year; both are monotone, hence civil_days is injective on valid dates *)
Definition ystart (y : Z) : Z := 365 * (y - 1900) + Lc y - Lc 1900.
Definition doy0 (y m d : Z) : Z := cumul (leap y) m + (d - 1).

Lemma civil_days_split y m d : 1 <= m <= 12 -> civil_days y m d = ystart y + doy0 y m d.
Proof. intros Hm. rewrite civil_days_closed_form by exact Hm. unfold ystart, doy0. lia. Qed.
Lemma ystart_succ y : ystart (y + 1) = ystart y + ylen y.
Proof. unfold ystart. rewrite ylen_Lc. lia. Qed.
Lemma ylen_bounds y : 365 <= ylen y <= 366.
Proof. unfold ylen. destruct (leap y); lia. Qed.
Lemma ystart_mono y1 k : 0 <= k -> ystart y1 + 365 * k <= ystart (y1 + k).
Proof.
  intros Hk. pattern k. apply natlike_ind; [replace (y1 + 0) with y1 by ring; lia| |exact Hk].
  intros x Hx IH. replace (y1 + Z.succ x) with (y1 + x + 1) by lia. rewrite ystart_succ.
  pose proof (ylen_bounds (y1 + x)). lia.
Qed.
Lemma doy0_range y m d : valid_date y m d -> 0 <= doy0 y m d < ylen y.
Proof.
  unfold valid_date, doy0, ylen, cumul. intros [Hm Hd].
  assert (m=1\/m=2\/m=3\/m=4\/m=5\/m=6\/m=7\/m=8\/m=9\/m=10\/m=11\/m=12) as Hc by lia.
  destruct Hc as [->|[->|[->|[->|[->|[->|[->|[->|[->|[->|[->| ->]]]]]]]]]]]; cbn [mlen] in Hd; destruct (leap y); cbn -[Z.add Z.sub]; lia.
Qed.
Lemma doy0_inj y m1 d1 m2 d2 : valid_date y m1 d1 -> valid_date y m2 d2 -> doy0 y m1 d1 = doy0 y m2 d2 -> m1 = m2 /\ d1 = d2.
Proof.
  unfold valid_date, doy0, cumul. intros [Hm1 Hd1] [Hm2 Hd2].
  assert (m1=1\/m1=2\/m1=3\/m1=4\/m1=5\/m1=6\/m1=7\/m1=8\/m1=9\/m1=10\/m1=11\/m1=12) as Hc1 by lia.
  assert (m2=1\/m2=2\/m2=3\/m2=4\/m2=5\/m2=6\/m2=7\/m2=8\/m2=9\/m2=10\/m2=11\/m2=12) as Hc2 by lia.
  destruct Hc1 as [->|[->|[->|[->|[->|[->|[->|[->|[->|[->|[->| ->]]]]]]]]]]]; cbn [mlen] in Hd1;
  destruct Hc2 as [->|[->|[->|[->|[->|[->|[->|[->|[->|[->|[->| ->]]]]]]]]]]]; cbn [mlen] in Hd2;
  revert Hd1 Hd2; destruct (leap y); cbn -[Z.add Z.sub]; lia.
Qed.

Theorem civil_days_inj y1 m1 d1 y2 m2 d2 : valid_date y1 m1 d1 -> valid_date y2 m2 d2 ->
  civil_days y1 m1 d1 = civil_days y2 m2 d2 -> y1 = y2 /\ m1 = m2 /\ d1 = d2.
Proof.
  intros V1 V2. pose proof V1 as [Hm1 _]. pose proof V2 as [Hm2 _].
  rewrite !civil_days_split by assumption. intros E.
  pose proof (doy0_range _ _ _ V1) as R1. pose proof (doy0_range _ _ _ V2) as R2.
  assert (y1 = y2).
  { destruct (Z.lt_trichotomy y1 y2) as [L|[Eq|G]]; [exfalso|exact Eq|exfalso].
    - pose proof (ystart_mono (y1 + 1) (y2 - y1 - 1) ltac:(lia)) as M. replace (y1 + 1 + (y2 - y1 - 1)) with y2 in M by ring.
      rewrite ystart_succ in M. lia.
    - pose proof (ystart_mono (y2 + 1) (y1 - y2 - 1) ltac:(lia)) as M. replace (y2 + 1 + (y1 - y2 - 1)) with y1 in M by ring.
      rewrite ystart_succ in M. lia. }
  subst y2. split; [reflexivity|]. apply (doy0_inj y1); try assumption. lia.
Qed.

Theorem civil_of_days_of_civil y m d : valid_date y m d -> civil_of_days (civil_days y m d) = (y, m, d).
Proof.
  intros V. pose proof (civil_of_days_valid (civil_days y m d)) as H.
  destruct (civil_of_days (civil_days y m d)) as [[y' m'] d']. destruct H as [V' E].
  destruct (civil_days_inj _ _ _ _ _ _ V' V E) as (-> & -> & ->). reflexivity.
Qed.

(* weekday: 1900-01-01 (day 0) was a Monday, and an era is a whole number of weeks *)
Lemma era_is_whole_weeks : 146097 mod 7 = 0. Proof. reflexivity. Qed.
