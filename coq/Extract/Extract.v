From Coq Require Import ZArith List String.
From Coq Require Extraction ExtrOcamlBasic.
From HF Require Import Text Dispatch.
Extraction "../ocaml/model.ml" dispatch z_of_digits z_digits z_is_neg.
