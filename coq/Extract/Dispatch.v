(* Correspondence entry point: one generic function from a case line (function name + tokens)
   to the model's answer and, where the property has an executable spec, the spec's answer.
   Extracted to OCaml; the hand-written driver only parses and prints tokens. *)
From Coq Require Import ZArith Bool List String.
From HF Require Import MachInt Outcome GenConsts GenLeap GenUnits GenText Text Duration Epoch Gregorian TimeSeries F64 DurationF64 Views TextFmt TextParse GenUnicode SignedNs Civil LeapSpec TextSpec EtTdb EtTdbSpec LeapFile.
Import ListNotations.
Open Scope Z_scope.

(* TNoSpec: the spec leaves this position (or the whole answer) open; TSign b: any integer that is
   negative (b = true) / non-negative (b = false) *)
(* TRange lo hi: any integer in [lo, hi]; TFRange lo hi: an f64 bit pattern whose order-preserving integer image is in [lo, hi] *)
Inductive tok := TZ (z : Z) | TL (l : list Z) | TPanic | TErr (k : Z) | TNoSpec | TSign (neg : bool) | TErrAny
  | TRange (lo hi : Z) | TFRange (lo hi : Z) | TNoPanic.

Definition tb (b : bool) : tok := TZ (if b then 1 else 0).
Definition tcmp (c : comparison) : tok := TZ (match c with Lt => -1 | Eq => 0 | Gt => 1 end).
Definition tdur (d : duration) : list tok := [TZ (centuries d); TZ (nanoseconds d)].

(* the canonical (centuries, nanoseconds) form of an in-range count *)
Definition canon_of (z : Z) : duration :=
  if z =? MAXV then mkD 32767 SNPC else mkD (z / SNPC) (z mod SNPC).
Definition sdur (z : Z) : list tok := tdur (canon_of z).
Definition pval (c n : Z) : Z := clamp (c * SNPC + n).
Definition suf (u : Z) : Z := spec_unit_factor (unit_of_Z u).

Definition nospec : list tok := [TNoSpec].
(* spec "any value or error, never a panic" (C13) *)
Definition nopanic : list tok := [TNoPanic].
(* C14: when the true floor lies below MIN, "ceil = floor + |s|" and "least multiple above d" part ways
   (the returned floor is MIN, not a multiple); the property leaves ceil/round open there. *)
Definition floor_saturates (d s : Z) : bool := negb (s =? 0) && (d - d mod Z.abs s <? MINV).
(* likewise round compares distances to the returned (saturated) ceil: open when the true ceil exceeds MAX *)
Definition ceil_saturates (d s : Z) : bool := negb (s =? 0) && (MAXV <? d - d mod Z.abs s + Z.abs s).



Definition dispatch_duration (name : string) (a : list tok) : option (list tok * list tok) :=
  match name, a with
  | "from_parts"%string, [TZ c; TZ n] => Some (tdur (from_parts c n), sdur (pval c n))
  | "from_total"%string, [TZ z] => Some (tdur (from_total_nanoseconds z), sdur (clamp z))
  | "total"%string, [TZ c; TZ n] => Some ([TZ (total_nanoseconds (from_parts c n))], [TZ (pval c n)])
  | "from_trunc"%string, [TZ z] => Some (tdur (from_truncated_nanoseconds z), sdur z)
  | "try_trunc"%string, [TZ c; TZ n] =>
      let v := pval c n in
      Some (match try_truncated_nanoseconds (from_parts c n) with Some z => [TZ 1; TZ z] | None => [TZ 0] end,
            (* spec: exact between -2 and +2 centuries; error when it does not fit; in between either, never wrong *)
            if (- 2 * SNPC <=? v) && (v <=? 2 * SNPC) then [TZ 1; TZ v]
            else if (v <? I64_MIN) || (I64_MAX <? v) then [TZ 0] else nospec)
  | "trunc"%string, [TZ c; TZ n] =>
      let v := pval c n in
      Some ([TZ (truncated_nanoseconds (from_parts c n))],
            if (- 2 * SNPC <=? v) && (v <=? 2 * SNPC) then [TZ v]
            else if v <? I64_MIN then [TZ I64_MIN] else if I64_MAX <? v then [TZ I64_MAX] else nospec)
  | "add"%string, [TZ c1; TZ n1; TZ c2; TZ n2] =>
      Some (tdur (dur_add (from_parts c1 n1) (from_parts c2 n2)), sdur (spec_add (pval c1 n1) (pval c2 n2)))
  | "sub"%string, [TZ c1; TZ n1; TZ c2; TZ n2] =>
      Some (tdur (dur_sub (from_parts c1 n1) (from_parts c2 n2)), sdur (spec_sub (pval c1 n1) (pval c2 n2)))
  | "neg"%string, [TZ c; TZ n] => Some (tdur (dur_neg (from_parts c n)), sdur (spec_neg (pval c n)))
  | "abs"%string, [TZ c; TZ n] => Some (tdur (dur_abs (from_parts c n)), sdur (spec_abs (pval c n)))
  | "mul"%string, [TZ c; TZ n; TZ k] => Some (tdur (dur_mul_i64 (from_parts c n) k), sdur (spec_mul (pval c n) k))
  | "div"%string, [TZ c; TZ n; TZ k] =>
      if k =? 0 then None else Some (tdur (dur_div_i64 (from_parts c n) k), sdur (spec_div (pval c n) k))
  | "add_unit"%string, [TZ c; TZ n; TZ u] =>
      Some (tdur (dur_add_unit (from_parts c n) (unit_of_Z u)), sdur (spec_add (pval c n) (suf u)))
  | "sub_unit"%string, [TZ c; TZ n; TZ u] =>
      Some (tdur (dur_sub_unit (from_parts c n) (unit_of_Z u)), sdur (spec_sub (pval c n) (suf u)))
  | "unit_mul"%string, [TZ u; TZ k] => Some (tdur (unit_mul_i64 (unit_of_Z u) k), sdur (clamp (k * suf u)))
  | "eq"%string, [TZ c1; TZ n1; TZ c2; TZ n2] =>
      let va := pval c1 n1 in let vb := pval c2 n2 in
      Some ([tb (dur_eqb (from_parts c1 n1) (from_parts c2 n2))],
            [tb ((va =? vb) || ((Z.abs va <? SNPC) && (va =? - vb)))])
  | "cmp"%string, [TZ c1; TZ n1; TZ c2; TZ n2] =>
      Some ([tcmp (dur_cmp (from_parts c1 n1) (from_parts c2 n2))], [tcmp (Z.compare (pval c1 n1) (pval c2 n2))])
  | "min"%string, [TZ c1; TZ n1; TZ c2; TZ n2] =>
      Some (tdur (dur_min (from_parts c1 n1) (from_parts c2 n2)), sdur (Z.min (pval c1 n1) (pval c2 n2)))
  | "max"%string, [TZ c1; TZ n1; TZ c2; TZ n2] =>
      Some (tdur (dur_max (from_parts c1 n1) (from_parts c2 n2)), sdur (Z.max (pval c1 n1) (pval c2 n2)))
  | "floor"%string, [TZ c1; TZ n1; TZ c2; TZ n2] =>
      Some (tdur (dur_floor (from_parts c1 n1) (from_parts c2 n2)), sdur (spec_floor (pval c1 n1) (pval c2 n2)))
  | "ceil"%string, [TZ c1; TZ n1; TZ c2; TZ n2] =>
      Some (tdur (dur_ceil (from_parts c1 n1) (from_parts c2 n2)),
            if floor_saturates (pval c1 n1) (pval c2 n2) then nospec else sdur (spec_ceil (pval c1 n1) (pval c2 n2)))
  | "round"%string, [TZ c1; TZ n1; TZ c2; TZ n2] =>
      Some (tdur (dur_round (from_parts c1 n1) (from_parts c2 n2)),
            if floor_saturates (pval c1 n1) (pval c2 n2) || ceil_saturates (pval c1 n1) (pval c2 n2) then nospec
            else sdur (spec_round (pval c1 n1) (pval c2 n2)))
  | "approx"%string, [TZ c; TZ n] => Some (tdur (dur_approx (from_parts c n)), nospec)
  | "decompose"%string, [TZ c; TZ n] =>
      let '(sg, (d, h, mi, s, ms, us, ns)) := decompose (from_parts c n) in
      let v := Z.abs (pval c n) in
      Some ([TZ sg; TZ d; TZ h; TZ mi; TZ s; TZ ms; TZ us; TZ ns],
            [TSign (pval c n <? 0);
             TZ (v / 86400000000000); TZ (v / 3600000000000 mod 24); TZ (v / 60000000000 mod 60);
             TZ (v / 1000000000 mod 60); TZ (v / 1000000 mod 1000); TZ (v / 1000 mod 1000); TZ (v mod 1000)])
  | "signum"%string, [TZ c; TZ n] => Some ([TZ (signum (from_parts c n))], nospec)
  | "subdivision"%string, [TZ c; TZ n; TZ u] =>
      Some (match subdivision (from_parts c n) (unit_of_Z u) with Some d => TZ 1 :: tdur d | None => [TZ 0] end,
            (* the component of the decomposition that belongs to the unit, as a duration; none for weeks and centuries *)
            let a := Z.abs (pval c n) in
            match u with
            | 0 => TZ 1 :: sdur (a mod 1000) | 1 => TZ 1 :: sdur (a / 1000 mod 1000 * 1000) | 2 => TZ 1 :: sdur (a / 1000000 mod 1000 * 1000000)
            | 3 => TZ 1 :: sdur (a / 1000000000 mod 60 * 1000000000) | 4 => TZ 1 :: sdur (a / 60000000000 mod 60 * 60000000000)
            | 5 => TZ 1 :: sdur (a / 3600000000000 mod 24 * 3600000000000) | 6 => TZ 1 :: sdur (clamp (a / 86400000000000 * 86400000000000))
            | 7 | 8 => [TZ 0] | _ => nospec end)
  | "eq_unit"%string, [TZ c; TZ n; TZ u] =>
      let va := pval c n in let vb := suf u in
      Some ([tb (dur_eq_unit (from_parts c n) (unit_of_Z u))], [tb ((va =? vb) || ((Z.abs va <? SNPC) && (va =? - vb)))])
  | "cmp_unit"%string, [TZ c; TZ n; TZ u] =>
      Some ([tcmp (dur_cmp_unit (from_parts c n) (unit_of_Z u))], [tcmp (Z.compare (pval c n) (suf u))])
  | "tz_offset"%string, [TZ sg; TZ h; TZ m] => Some (tdur (from_tz_offset sg h m), nospec)
  | "compose"%string, [TZ sg; TZ d; TZ h; TZ mi; TZ s; TZ ms; TZ us; TZ ns] =>
      let total := ((((d * 24 + h) * 60 + mi) * 60 + s) * 1000 + ms) * 1000000 + us * 1000 + ns in
      Some (tdur (compose sg d h mi s ms us ns), sdur (clamp (if sg <? 0 then - total else total)))
  | "compose_decompose"%string, [TZ c; TZ n] =>
      let '(sg, (d, h, mi, s, ms, us, ns)) := decompose (from_parts c n) in
      Some (tdur (compose sg d h mi s ms us ns), sdur (pval c n))
  | "to_std"%string, [TZ c; TZ n] =>
      let '(secs, sub) := to_std (from_parts c n) in let v := pval c n in
      Some ([TZ secs; TZ sub], if v <? 0 then [TZ 0; TZ 0] else [TZ (v / 1000000000); TZ (v mod 1000000000)])
  | "from_std"%string, [TZ secs; TZ sub] => Some (tdur (from_std secs sub), sdur (clamp (secs * 1000000000 + sub)))
  | _, _ => None
  end.

(* ------------------------------------------------------------------ epochs ---- *)
Definition mk_epoch (c n t : Z) : epoch := mkE (from_parts c n) (ts_of_Z t).
Definition tepoch (e : epoch) : list tok := [TZ (centuries (dur e)); TZ (nanoseconds (dur e)); TZ (ts_id (scale e))].
Definition topt {A} (f : A -> list tok) (o : option A) : list tok := match o with Some x => f x | None => nospec end.
Definition in_rangev (z : Z) : bool := (MINV <=? z) && (z <=? MAXV).
(* spec value -> tokens, open when a bound is hit *)
Definition sdur_exact (z : Z) : list tok := if in_rangev z then sdur z else nospec.

(* TAI instant of (scale id, clamped count); None for ET/TDB or when the TAI count leaves the range *)
Definition sinstant (t v : Z) : option Z :=
  match spec_instant t v with Some i => if in_rangev i then Some i else None | None => None end.
(* count of that instant in scale t2; None when open (gap of UTC, float scale, out of range) *)
Definition scount (i t2 : Z) : option Z :=
  let r := if t2 =? 4 then (if in_gap i then None else Some (spec_tai2utc i))
           else option_map (fun z => i - z) (spec_scale_zero_tai t2) in
  match r with Some z => if in_rangev z then Some z else None | None => None end.
Definition sconv (t1 v t2 : Z) : option Z :=
  if t1 =? t2 then Some v else match sinstant t1 v with Some i => scount i t2 | None => None end.
Definition norm_ts (t : Z) : Z := ts_id (ts_of_Z t).

(* spec of the Gregorian fields of (scale, count): from the calendar spec *)
Definition spec_fields (t v : Z) : option (Z * Z * Z * Z * Z * Z * Z) :=
  let w := v + spec_gregorian_zero t in
  if in_rangev w then
    let '(y, m, d) := civil_of_days (w / NS_PER_DAY) in let r := w mod NS_PER_DAY in
    Some (y, m, d, r / (3600 * NS_PER_S), r / (60 * NS_PER_S) mod 60, r / NS_PER_S mod 60, r mod NS_PER_S)
  else None.
Definition sweekday_tai (t v : Z) : option Z := option_map (fun i => weekday_of_day (i / NS_PER_DAY)) (sinstant t v).

Fixpoint spec_series (n : nat) (j : Z) (start step span : Z) (incl : bool) (t : Z) : list tok :=
  match n with
  | O => []
  | S n' =>
      (if (if incl then j * step <=? span else j * step <? span)
       then TZ 1 :: sdur (start + j * step) ++ [TZ t] else [TZ 0]) ++ spec_series n' (j + 1) start step span incl t
  end.
Fixpoint model_series (l : list (option epoch)) : list tok :=
  match l with [] => [] | Some e :: r => TZ 1 :: tepoch e ++ model_series r | None :: r => TZ 0 :: model_series r end.

Definition dispatch_epoch (name : string) (a : list tok) : option (list tok * list tok) :=
  match name, a with
  | "conv"%string, [TZ c; TZ n; TZ t1; TZ t2] =>
      let t1 := norm_ts t1 in let t2 := norm_ts t2 in
      Some (topt tepoch (to_time_scale (mk_epoch c n t1) (ts_of_Z t2)),
            match sconv t1 (pval c n) t2 with Some z => sdur z ++ [TZ t2] | None => nospec end)
  | "eadd"%string, [TZ c; TZ n; TZ t; TZ c2; TZ n2] =>
      Some (tepoch (epoch_add (mk_epoch c n t) (from_parts c2 n2)), sdur (spec_add (pval c n) (pval c2 n2)) ++ [TZ (norm_ts t)])
  | "esub"%string, [TZ c; TZ n; TZ t; TZ c2; TZ n2] =>
      Some (tepoch (epoch_sub (mk_epoch c n t) (from_parts c2 n2)), sdur (spec_sub (pval c n) (pval c2 n2)) ++ [TZ (norm_ts t)])
  | "eadd_unit"%string, [TZ c; TZ n; TZ t; TZ u] =>
      Some (tepoch (epoch_add_unit (mk_epoch c n t) (unit_of_Z u)), sdur (spec_add (pval c n) (suf u)) ++ [TZ (norm_ts t)])
  | "esub_unit"%string, [TZ c; TZ n; TZ t; TZ u] =>
      Some (tepoch (epoch_sub_unit (mk_epoch c n t) (unit_of_Z u)), sdur (spec_sub (pval c n) (suf u)) ++ [TZ (norm_ts t)])
  | "ediff"%string, [TZ c1; TZ n1; TZ t1; TZ c2; TZ n2; TZ t2] =>
      let t1 := norm_ts t1 in let t2 := norm_ts t2 in
      Some (topt tdur (epoch_diff (mk_epoch c1 n1 t1) (mk_epoch c2 n2 t2)),
            match sconv t2 (pval c2 n2) t1 with Some z => sdur_exact (pval c1 n1 - z) | None => nospec end)
  | "ecmp"%string, [TZ c1; TZ n1; TZ t1; TZ c2; TZ n2; TZ t2] =>
      let t1 := norm_ts t1 in let t2 := norm_ts t2 in
      Some (topt (fun x => [tcmp x]) (epoch_cmp (mk_epoch c1 n1 t1) (mk_epoch c2 n2 t2)),
            if t1 =? t2 then [tcmp (Z.compare (pval c1 n1) (pval c2 n2))]
            else match sinstant t1 (pval c1 n1), sinstant t2 (pval c2 n2) with
                 | Some i, Some j => [tcmp (Z.compare i j)] | _, _ => nospec end)
  | "eeq"%string, [TZ c1; TZ n1; TZ t1; TZ c2; TZ n2; TZ t2] =>
      let t1 := norm_ts t1 in let t2 := norm_ts t2 in
      Some (topt (fun x => [tb x]) (epoch_eqb (mk_epoch c1 n1 t1) (mk_epoch c2 n2 t2)),
            if t1 =? t2 then [tb (pval c1 n1 =? pval c2 n2)]
            else match sinstant t1 (pval c1 n1), sinstant t2 (pval c2 n2) with
                 | Some i, Some j => [tb (i =? j)] | _, _ => nospec end)
  | "emin"%string, [TZ c1; TZ n1; TZ t1; TZ c2; TZ n2; TZ t2] =>
      let t1 := norm_ts t1 in let t2 := norm_ts t2 in
      Some (topt tepoch (epoch_min (mk_epoch c1 n1 t1) (mk_epoch c2 n2 t2)),
            (* the chronologically earlier operand, as it was given; open when they denote the same instant *)
            match (if t1 =? t2 then Some (pval c1 n1, pval c2 n2) else
                   match sinstant t1 (pval c1 n1), sinstant t2 (pval c2 n2) with Some i, Some j => Some (i, j) | _, _ => None end) with
            | Some (i, j) => if i <? j then sdur (pval c1 n1) ++ [TZ t1] else if j <? i then sdur (pval c2 n2) ++ [TZ t2] else nospec
            | None => nospec end)
  | "emax"%string, [TZ c1; TZ n1; TZ t1; TZ c2; TZ n2; TZ t2] =>
      let t1 := norm_ts t1 in let t2 := norm_ts t2 in
      Some (topt tepoch (epoch_max (mk_epoch c1 n1 t1) (mk_epoch c2 n2 t2)),
            match (if t1 =? t2 then Some (pval c1 n1, pval c2 n2) else
                   match sinstant t1 (pval c1 n1), sinstant t2 (pval c2 n2) with Some i, Some j => Some (i, j) | _, _ => None end) with
            | Some (i, j) => if j <? i then sdur (pval c1 n1) ++ [TZ t1] else if i <? j then sdur (pval c2 n2) ++ [TZ t2] else nospec
            | None => nospec end)
  | "leap"%string, [TZ c; TZ n; TZ t] =>
      (* Epoch::leap_seconds_iers of an epoch: table lookup at its TAI duration *)
      let t := norm_ts t in
      Some (match to_tai_duration (mk_epoch c n t) with Some d => [TZ (opt_or0 (leap_seconds_iers d))] | None => nospec end,
            match sinstant t (pval c n) with Some i => [TZ (spec_delta_utc i)] | None => nospec end)
  | "tow_build"%string, [TZ w; TZ ns; TZ t] =>
      Some (tepoch (from_time_of_week w ns (ts_of_Z t)), sdur (clamp (w * 7 * NS_PER_DAY + ns)) ++ [TZ (norm_ts t)])
  | "tow_split"%string, [TZ c; TZ n; TZ t] =>
      let v := pval c n in
      Some (let '(w, r) := to_time_of_week (mk_epoch c n t) in [TZ w; TZ r],
            if 0 <=? v then [TZ (v / (7 * NS_PER_DAY)); TZ (v mod (7 * NS_PER_DAY))] else nospec)
  | "from_ns"%string, [TZ n; TZ t] =>
      Some (tepoch (from_nanoseconds_in n (ts_of_Z t)), sdur (clamp n) ++ [TZ (norm_ts t)])
  | "to_ns"%string, [TZ c; TZ n; TZ t1; TZ t2] =>
      let t1 := norm_ts t1 in let t2 := norm_ts t2 in
      Some (match to_nanoseconds_in_time_scale (mk_epoch c n t1) (ts_of_Z t2) with
            | Some (Some z) => [TZ 1; TZ z] | Some None => [TZ 0] | None => nospec end,
            match sconv t1 (pval c n) t2 with
            | Some z => if (0 <=? z) && (z <? SNPC) then [TZ 1; TZ z] else [TZ 0]
            | None => nospec end)
  | "to_bdt"%string, [TZ c; TZ n; TZ t1] =>
      let t1 := norm_ts t1 in
      Some (topt tdur (to_bdt_duration (mk_epoch c n t1)),
            match sconv t1 (pval c n) 7 with Some z => sdur z | None => nospec end)
  | "efloor"%string, [TZ c; TZ n; TZ t; TZ c2; TZ n2] =>
      Some (tepoch (epoch_floor (mk_epoch c n t) (from_parts c2 n2)), sdur (spec_floor (pval c n) (pval c2 n2)) ++ [TZ (norm_ts t)])
  | "eceil"%string, [TZ c; TZ n; TZ t; TZ c2; TZ n2] =>
      Some (tepoch (epoch_ceil (mk_epoch c n t) (from_parts c2 n2)),
            if floor_saturates (pval c n) (pval c2 n2) then nospec else sdur (spec_ceil (pval c n) (pval c2 n2)) ++ [TZ (norm_ts t)])
  | "eround"%string, [TZ c; TZ n; TZ t; TZ c2; TZ n2] =>
      Some (tepoch (epoch_round (mk_epoch c n t) (from_parts c2 n2)),
            if floor_saturates (pval c n) (pval c2 n2) || ceil_saturates (pval c n) (pval c2 n2) then nospec
            else sdur (spec_round (pval c n) (pval c2 n2)) ++ [TZ (norm_ts t)])
  | "tseries"%string, [TZ c1; TZ n1; TZ t1; TZ c2; TZ n2; TZ t2; TZ sc; TZ sn; TZ incl; TZ count] =>
      let t1 := norm_ts t1 in let t2 := norm_ts t2 in
      let cnt := Z.to_nat count in
      let step := pval sc sn in
      Some (match ts_new (mk_epoch c1 n1 t1) (mk_epoch c2 n2 t2) (from_parts sc sn) (negb (incl =? 0)) with
            | Some s => model_series (fst (ts_run cnt s)) | None => nospec end,
            (* span = end - start, measured in the scale of the left operand (end), C04 *)
            match sconv t1 (pval c1 n1) t2 with
            | Some sv =>
                let span := pval c2 n2 - sv in
                if (0 <? step) && (0 <=? span) && in_rangev span && in_rangev (pval c1 n1 + span) && (count * step <? MAXV)
                then spec_series cnt 0 (pval c1 n1) step span (negb (incl =? 0)) t1 else nospec
            | None => nospec end)
  | _, _ => None
  end.

(* ------------------------------------------------------------------ calendar ---- *)
Definition spec_valid (y m d h mi s ns : Z) : option bool :=
  (* Some true = must be accepted, Some false = must be rejected, None = the property leaves it open *)
  if (m =? 0) || (12 <? m) || (d =? 0) || (mlen y m <? d) || (24 <? h) || (59 <? mi) || (60 <? s) || (NS_PER_S <? ns) then Some false
  else if (s =? 60) && negb ((h =? 23) && (mi =? 59) && leap_second_day y m d) then Some false
  else if (h =? 24) || (ns =? NS_PER_S) then None
  else Some true.

Definition dispatch_calendar (name : string) (a : list tok) : option (list tok * list tok) :=
  match name, a with
  | "is_valid"%string, [TZ y; TZ m; TZ d; TZ h; TZ mi; TZ s; TZ ns] =>
      Some ([tb (is_gregorian_valid y m d h mi s ns)],
            match spec_valid y m d h mi s ns with Some b => [tb b] | None => nospec end)
  | "from_greg"%string, [TZ y; TZ m; TZ d; TZ h; TZ mi; TZ s; TZ ns; TZ t] =>
      let t := norm_ts t in
      Some (match maybe_from_gregorian_fast y m d h mi s ns (ts_of_Z t) with
            | inl e => TZ 1 :: tepoch e
            | inr InvalidGregorianDate => [TErr 1] | inr DurUnderflow => [TErr 2] | inr DurOverflow => [TErr 3] end,
            match spec_valid y m d h mi s ns with
            | Some false => [TErrAny]
            | Some true =>
                if s =? 60 then [TZ 1; TNoSpec; TNoSpec; TZ t]
                else let v := civil_ns y m d h mi s ns - spec_gregorian_zero t in
                     if in_rangev v && (Z.abs (y - 1900) <? 5000000) then TZ 1 :: sdur v ++ [TZ t] else nospec
            | None => nospec end)
  | "to_greg"%string, [TZ c; TZ n; TZ t] =>
      let t := norm_ts t in
      Some (let '(y, m, d, h, mi, s, ns) := compute_gregorian (from_parts c n) (ts_of_Z t) in
            [TZ y; TZ m; TZ d; TZ h; TZ mi; TZ s; TZ ns] ++
            (* ... and the fields build the identical epoch again *)
            (if (Z.abs (y - 1900) <=? 3000000) then      (* the range the closed-form day count is proved (and fast) for *)
               match maybe_from_gregorian_fast y m d h mi s ns (ts_of_Z t) with inl e => TZ 1 :: tepoch e | inr _ => [TZ 0] end
             else nospec),
            let w := pval c n + spec_gregorian_zero t in
            if in_rangev w then
              let '(y, m, d) := civil_of_days (w / NS_PER_DAY) in
              let r := w mod NS_PER_DAY in
              [TZ y; TZ m; TZ d; TZ (r / (3600 * NS_PER_S)); TZ (r / (60 * NS_PER_S) mod 60); TZ (r / NS_PER_S mod 60); TZ (r mod NS_PER_S)] ++
              (if Z.abs (y - 1900) <=? 3000000 then TZ 1 :: sdur (pval c n) ++ [TZ t] else nospec)
            else nospec)
  | "doy_int"%string, [TZ c; TZ n; TZ t] =>
      let t := norm_ts t in
      Some (topt (fun z => [TZ z]) (day_of_year_integer_fast (mk_epoch c n t)),
            let w := pval c n + spec_gregorian_zero t in
            if in_rangev w then
              let '(y, _, _) := civil_of_days (w / NS_PER_DAY) in [TZ (w / NS_PER_DAY - civil_days y 1 1 + 1)]
            else nospec)
  | "weekday"%string, [TZ c; TZ n; TZ t] =>
      let t := norm_ts t in
      Some (topt (fun z => [TZ z]) (weekday (mk_epoch c n t)), topt (fun z => [TZ z]) (sweekday_tai t (pval c n)))
  | "weekday_utc"%string, [TZ c; TZ n; TZ t] =>
      let t := norm_ts t in
      Some (topt (fun z => [TZ z]) (weekday_utc (mk_epoch c n t)),
            match sconv t (pval c n) 4 with Some u => [TZ (weekday_of_day (u / NS_PER_DAY))] | None => nospec end)
  | "next"%string, [TZ c; TZ n; TZ t; TZ w] =>
      let t := norm_ts t in let w := w mod 7 in let v := pval c n in
      Some (topt tepoch (epoch_next (mk_epoch c n t) w),
            match sweekday_tai t v with
            | Some wd => let k := (w - wd - 1) mod 7 + 1 in
                         let r := v + k * NS_PER_DAY in
                         if negb (in_rangev r) then nospec
                         else if (t =? 4) && negb (spec_delta_utc v =? spec_delta_utc r) then nospec
                         else sdur r ++ [TZ t]
            | None => nospec end)
  (* next / previous such weekday, then the time of day set to h:00:00 the way with_hms_strict does (whole days of the count kept) *)
  | "next_at"%string, [TZ c; TZ n; TZ t; TZ w; TZ h] =>
      let t := norm_ts t in let w := w mod 7 in let v := pval c n in
      Some (topt tepoch (next_weekday_at (mk_epoch c n t) w h),
            match sweekday_tai t v with
            | Some wd => let k := (w - wd - 1) mod 7 + 1 in
                         let r := v + k * NS_PER_DAY in
                         if negb (in_rangev r) then nospec
                         else if (t =? 4) && negb (spec_delta_utc v =? spec_delta_utc r) then nospec
                         else let r2 := Z.abs r / NS_PER_DAY * NS_PER_DAY + h * 3600 * NS_PER_S in
                              sdur (clamp (if r <? 0 then - r2 else r2)) ++ [TZ t]
            | None => nospec end)
  | "prev_at"%string, [TZ c; TZ n; TZ t; TZ w; TZ h] =>
      let t := norm_ts t in let w := w mod 7 in let v := pval c n in
      Some (topt tepoch (previous_weekday_at (mk_epoch c n t) w h),
            match sweekday_tai t v with
            | Some wd => let k := (wd - w - 1) mod 7 + 1 in
                         let r := v - k * NS_PER_DAY in
                         if negb (in_rangev r) then nospec
                         else if (t =? 4) && negb (spec_delta_utc v =? spec_delta_utc r) then nospec
                         else let r2 := Z.abs r / NS_PER_DAY * NS_PER_DAY + h * 3600 * NS_PER_S in
                              sdur (clamp (if r <? 0 then - r2 else r2)) ++ [TZ t]
            | None => nospec end)
  | "with_hms"%string, [TZ c; TZ n; TZ t; TZ h; TZ m; TZ s] =>
      let t := norm_ts t in let v := pval c n in
      Some (tepoch (with_hms_strict (mk_epoch c n t) h m s),
            (* sign and whole days of the count kept, time of day replaced *)
            let days := Z.abs v / NS_PER_DAY in let r := days * NS_PER_DAY + ((h * 60 + m) * 60 + s) * NS_PER_S in
            sdur (clamp (if v <? 0 then - r else r)) ++ [TZ t])
  | "accessors"%string, [TZ c; TZ n; TZ t] =>
      let t := norm_ts t in let v := pval c n in let a := Z.abs v in
      Some (map TZ (epoch_accessors (mk_epoch c n t)),
            match spec_fields t v with
            | Some (y, mm, _, _, _, _, _) =>
                [TZ y; TZ (mm - 1); TZ (a / 3600000000000 mod 24); TZ (a / 60000000000 mod 60); TZ (a / 1000000000 mod 60);
                 TZ (a / 1000000 mod 1000); TZ (a / 1000 mod 1000); TZ (a mod 1000)]
            | None => nospec end)
  | "prev"%string, [TZ c; TZ n; TZ t; TZ w] =>
      let t := norm_ts t in let w := w mod 7 in let v := pval c n in
      Some (topt tepoch (epoch_previous (mk_epoch c n t) w),
            match sweekday_tai t v with
            | Some wd => let k := (wd - w - 1) mod 7 + 1 in
                         let r := v - k * NS_PER_DAY in
                         if negb (in_rangev r) then nospec
                         else if (t =? 4) && negb (spec_delta_utc v =? spec_delta_utc r) then nospec
                         else sdur r ++ [TZ t]
            | None => nospec end)
  | "wd_from_u8"%string, [TZ u] => Some ([TZ (weekday_from_u8 u)], [TZ (u mod 7)])
  | "wd_from_i8"%string, [TZ i] => Some ([TZ (weekday_from_i8 i)], [TZ (i mod 7)])
  | "wd_add"%string, [TZ x; TZ y] => Some (match weekday_add x y with Some z => [TZ z] | None => [TPanic] end, [TZ ((x + y) mod 7)])
  | "wd_add_u8"%string, [TZ x; TZ y] => Some (match weekday_add_u8 x y with Some z => [TZ z] | None => [TPanic] end, [TZ ((x + y) mod 7)])
  | "wd_sub_u8"%string, [TZ x; TZ y] => Some (match weekday_sub_u8 x y with Some z => [TZ z] | None => [TPanic] end, [TZ ((x - y) mod 7)])
  | "wd_diff"%string, [TZ x; TZ y] => Some (tdur (weekday_sub x y), sdur (((y - x) mod 7) * NS_PER_DAY))
  | "wd_c89"%string, [TZ x] => Some (match to_c89_weekday x with Some z => [TZ z] | None => [TPanic] end, [TZ ((x + 1) mod 7)])
  | _, _ => None
  end.

(* ------------------------------------------------------------------ floats ---- *)
(* order-preserving image of a bit pattern (NaN excluded by callers) *)
Definition f_ord (bits : Z) : Z := if bits <? 2 ^ 63 then bits else - (bits - 2 ^ 63).
Definition tdur3 (d : duration) : list tok := tdur d ++ [TZ (total_nanoseconds d)].
(* exact product of an f64 (given by bits, finite) with an integer k, as a rational m * 2^e * k: floor and ceiling *)
Definition f_mant_exp (bits : Z) : Z * Z :=
  let biased := (bits / 2 ^ 52) mod 2 ^ 11 in let fr := bits mod 2 ^ 52 in
  let m := if biased =? 0 then fr else fr + 2 ^ 52 in
  ((if bits <? 2 ^ 63 then m else - m), (if biased =? 0 then -1074 else biased - 1075)).
Definition f_finite_bits (bits : Z) : bool := negb ((bits / 2 ^ 52) mod 2 ^ 11 =? 2047).
(* [lo, hi] enclosing trunc(q * k) with a slack of 1 + |q*k| * 2^-51 (one rounding of the product, one truncation) *)
Definition prod_range (bits k : Z) : Z * Z :=
  let '(m, e) := f_mant_exp bits in
  let p := m * k in
  let fl := if 0 <=? e then p * 2 ^ e else p / 2 ^ (- e) in
  let slack := 2 + Z.abs fl / 2 ^ 51 in
  (fl - slack, fl + 1 + slack).
Definition range_tok_clamped (lo hi : Z) : tok := TRange (clamp lo) (clamp hi).
(* the property's own words for a finite float count q of a unit of k nanoseconds: "the real product rounded to the nearest
   double and truncated toward zero to a whole nanosecond", saturating -- on integers: q = m * 2^e, the product m * k * 2^e is
   rounded to 53 significant bits (ties to even), then truncated.  (Below 2^-1022 a double has fewer bits, but such a product
   truncates to zero either way; beyond 2^1024 the rounded value is an infinity, and the clamp gives the same bound.) *)
Definition rn53 (N : Z) : Z * Z :=
  let a := Z.abs N in
  let bits := if a =? 0 then 0 else Z.log2 a + 1 in
  if bits <=? 53 then (N, 0)
  else let s := bits - 53 in
       let q := a / 2 ^ s in let r := a mod 2 ^ s in let half := 2 ^ (s - 1) in
       let q' := if (half <? r) || ((r =? half) && Z.odd q) then q + 1 else q in
       ((if N <? 0 then - q' else q'), s).
Definition spec_unit_times_float (bits k : Z) : Z :=
  let '(m, e) := f_mant_exp bits in
  let '(M, s) := rn53 (m * k) in
  let ee := s + e in
  clamp (if 0 <=? ee then M * 2 ^ ee else Z.quot M (2 ^ (- ee))).
(* f64 nearest to z / 10^9 up to double rounding, via Flocq: used only to centre the tolerance window *)
Definition approx_seconds (z : Z) : f64 := fdiv (f_of_Z z) (f_of_Z 1000000000).
Definition fwindow (x : f64) (abs_slack_bits : Z) : tok :=
  (* +/- 4 ulps of the value, or +/- abs slack (an f64 given by bits) for values below it in magnitude *)
  let b := f_ord (f_to_bits x) in
  let lo := f_ord (f_to_bits (fsub x (f_of_bits abs_slack_bits))) in
  let hi := f_ord (f_to_bits (fadd x (f_of_bits abs_slack_bits))) in
  TFRange (Z.min (b - 4) lo) (Z.max (b + 4) hi).
Definition FOUR_ULP_OF_ONE_BITS : Z := 4372995238176751616. (* 2^-50 *)

Definition dispatch_float (name : string) (a : list tok) : option (list tok * list tok) :=
  match name, a with
  | "unit_mul_f64"%string, [TZ u; TZ qb] =>
      let q := f_of_bits qb in
      Some (tdur3 (unit_mul_f64 (unit_of_Z u) q),
            if f_is_nan q then [TZ 0; TZ 0; TZ 0]
            else if f_is_inf q then (if f_sign q then tdur3 D_MIN else tdur3 D_MAX)
            else let v := spec_unit_times_float qb (suf u) in sdur v ++ [TZ v])
  | "dur_mul_f64"%string, [TZ c; TZ n; TZ qb] =>
      let q := f_of_bits qb in let v := pval c n in
      Some (tdur3 (dur_mul_f64 (from_parts c n) qb),
            if f_is_nan q || (v =? 0) then [TZ 0; TZ 0; TZ 0]
            else if f_is_inf q then (if Bool.eqb (0 <? v) (negb (f_sign q)) then tdur3 D_MAX else tdur3 D_MIN)
            else if Z.abs v <=? 320000000000000000000 then
              (* up to 10 000 years: exactly the real product truncated toward zero *)
              let '(m, e) := f_mant_exp qb in let p := v * m in
              let t := if 0 <=? e then p * 2 ^ e else Z.quot p (2 ^ (- e)) in
              sdur (clamp t) ++ [TZ (clamp t)]
            else nospec)
  | "to_seconds"%string, [TZ c; TZ n] =>
      Some ([TZ (f_to_bits (to_seconds (from_parts c n)))], [fwindow (approx_seconds (pval c n)) FOUR_ULP_OF_ONE_BITS])
  | "to_unit"%string, [TZ c; TZ n; TZ u] =>
      Some ([TZ (f_to_bits (to_unit (from_parts c n) (unit_of_Z u)))],
            let x := fdiv (f_of_Z (pval c n)) (f_of_Z (suf u)) in
            [fwindow x (f_to_bits (fdiv (f_of_bits FOUR_ULP_OF_ONE_BITS) (fdiv (f_of_Z (suf u)) (f_of_Z 1000000000))))])
  | _, _ => None
  end.

(* ------------------------------------------------------------------ JD / MJD / UNIX views ---- *)
Definition tfo (o : option f64) : list tok := match o with Some x => [TZ (f_to_bits x)] | None => nospec end.
Definition DAY_NS : Z := 86400 * 1000000000.
Definition HALF_DAY_NS : Z := 43200 * 1000000000.
(* exact count of an affine view: count in scale t2 plus a constant; None when a bound is hit on the way *)
Definition sview (t1 v t2 k : Z) : option Z :=
  match sconv t1 v t2 with Some z => if in_rangev (z + k) then Some (z + k) else None | None => None end.
Definition sview_f (o : option Z) (u : Z) : list tok :=
  match o with
  | Some z => [fwindow (fdiv (f_of_Z z) (f_of_Z (suf u)))
                       (f_to_bits (fdiv (f_of_bits FOUR_ULP_OF_ONE_BITS) (fdiv (f_of_Z (suf u)) (f_of_Z 1000000000))))]
  | None => nospec end.
(* exact value of the f64 x (bits) minus the integer-or-half constant k2/2, times a unit factor f, floored, with a slack of
   (|x| + |k|) * f * 2^-50 + 2 for the one or two roundings of the subtraction and of the product *)
Definition affine_range (bits k2 f : Z) : Z * Z :=
  let '(m, e) := f_mant_exp bits in
  (* x - k2/2 = (2*m*2^e - k2) / 2 *)
  let num := if 0 <=? e then 2 * m * 2 ^ e - k2 else 2 * m - k2 * 2 ^ (- e) in
  let den := if 0 <=? e then 2 else 2 * 2 ^ (- e) in
  let fl := (num * f) / den in
  let mag := (if 0 <=? e then Z.abs m * 2 ^ e else Z.abs m / 2 ^ (- e) + 1) + Z.abs k2 in
  let slack := 2 + (mag * f) / 2 ^ 50 in
  (fl - slack, fl + 1 + slack).
Definition UNIX_REF_UTC_NS : Z := 25567 * DAY_NS.   (* 1970-01-01T00:00:00 UTC as a UTC count: civil_days 1970 1 1 = 25567 *)

Definition dispatch_views (name : string) (a : list tok) : option (list tok * list tok) :=
  match name, a with
  | "v_jde_tai_dur"%string, [TZ c; TZ n; TZ t] =>
      let t := norm_ts t in
      Some (topt tdur (to_jde_tai_duration (mk_epoch c n t)),
            match sview t (pval c n) 0 (15020 * DAY_NS) with Some z => sdur_exact (z + 2400000 * DAY_NS + HALF_DAY_NS) | None => nospec end)
  | "v_jde_utc_dur"%string, [TZ c; TZ n; TZ t] =>
      let t := norm_ts t in
      Some (topt tdur (to_jde_utc_duration (mk_epoch c n t)), topt sdur (sview t (pval c n) 4 (2415020 * DAY_NS + HALF_DAY_NS)))
  | "v_jde_tt_dur"%string, [TZ c; TZ n; TZ t] =>
      let t := norm_ts t in
      Some (topt tdur (to_jde_tt_duration (mk_epoch c n t)), topt sdur (sview t (pval c n) 1 (2415020 * DAY_NS + HALF_DAY_NS)))
  | "v_mjd_tt_dur"%string, [TZ c; TZ n; TZ t] =>
      let t := norm_ts t in
      Some (topt tdur (to_mjd_tt_duration (mk_epoch c n t)), topt sdur (sview t (pval c n) 1 (15020 * DAY_NS)))
  | "v_tt_j2k"%string, [TZ c; TZ n; TZ t] =>
      let t := norm_ts t in
      Some (topt tdur (to_tt_since_j2k (mk_epoch c n t)), topt sdur (sview t (pval c n) 1 (- 3155716800 * 1000000000)))
  | "v_mjd_tai"%string, [TZ c; TZ n; TZ t; TZ u] =>
      let t := norm_ts t in
      Some (tfo (to_mjd_tai (mk_epoch c n t) (unit_of_Z u)), sview_f (sview t (pval c n) 0 (15020 * DAY_NS)) u)
  | "v_mjd_utc"%string, [TZ c; TZ n; TZ t; TZ u] =>
      let t := norm_ts t in
      Some (tfo (to_mjd_utc (mk_epoch c n t) (unit_of_Z u)), sview_f (sview t (pval c n) 4 (15020 * DAY_NS)) u)
  | "v_jde_tai"%string, [TZ c; TZ n; TZ t; TZ u] =>
      let t := norm_ts t in
      Some (tfo (to_jde_tai (mk_epoch c n t) (unit_of_Z u)),
            sview_f (match sview t (pval c n) 0 (15020 * DAY_NS) with Some z => if in_rangev (z + 2400000 * DAY_NS + HALF_DAY_NS) then Some (z + 2400000 * DAY_NS + HALF_DAY_NS) else None | None => None end) u)
  | "v_jde_utc_days"%string, [TZ c; TZ n; TZ t] =>
      let t := norm_ts t in
      Some (tfo (to_jde_utc_days (mk_epoch c n t)), sview_f (sview t (pval c n) 4 (2415020 * DAY_NS + HALF_DAY_NS)) 6)
  | "v_unix"%string, [TZ c; TZ n; TZ t; TZ u] =>
      let t := norm_ts t in
      Some (tfo (to_unix (mk_epoch c n t) (unit_of_Z u)), sview_f (sview t (pval c n) 4 (- UNIX_REF_UTC_NS)) u)
  | "v_tt_cent"%string, [TZ c; TZ n; TZ t] =>
      let t := norm_ts t in
      Some (tfo (to_tt_centuries_j2k (mk_epoch c n t)), sview_f (sview t (pval c n) 1 (- 3155716800 * 1000000000)) 8)
  | "from_mjd"%string, [TZ xb; TZ t] =>
      let t := norm_ts t in
      if f_finite_bits xb then
        Some (tdur3 (dur (from_mjd_in_time_scale (f_of_bits xb) (ts_of_Z t))),
              let '(lo, hi) := affine_range xb (2 * 15020) DAY_NS in let z := spec_gregorian_zero t in [TNoSpec; TNoSpec; range_tok_clamped (lo - z) (hi - z)])
      else None
  | "from_jde"%string, [TZ xb; TZ t] =>
      let t := norm_ts t in
      if f_finite_bits xb then
        Some (tdur3 (dur (from_jde_in_time_scale (f_of_bits xb) (ts_of_Z t))),
              let '(lo, hi) := affine_range xb (2 * 2415020 + 1) DAY_NS in let z := spec_gregorian_zero t in [TNoSpec; TNoSpec; range_tok_clamped (lo - z) (hi - z)])
      else None
  | "from_unix_s"%string, [TZ xb] =>
      Some (match from_unix_seconds (f_of_bits xb) with Some e => tdur3 (dur e) | None => nospec end,
            if f_finite_bits xb then
              let '(lo, hi) := prod_range xb 1000000000 in [TNoSpec; TNoSpec; range_tok_clamped (UNIX_REF_UTC_NS + lo) (UNIX_REF_UTC_NS + hi)]
            else nospec)
  | "from_unix_ms"%string, [TZ xb] =>
      Some (match from_unix_milliseconds (f_of_bits xb) with Some e => tdur3 (dur e) | None => nospec end,
            if f_finite_bits xb then
              let '(lo, hi) := prod_range xb 1000000 in [TNoSpec; TNoSpec; range_tok_clamped (UNIX_REF_UTC_NS + lo) (UNIX_REF_UTC_NS + hi)]
            else nospec)
  | "eadd_f64"%string, [TZ c; TZ n; TZ t; TZ b] =>
      let t := norm_ts t in let x := f_of_bits b in let v := pval c n in
      Some (tepoch (epoch_add_f64 (mk_epoch c n t) x),
            (* float seconds that are an exact integer k whose nanosecond count k * 10^9 is itself a double: exactly v + k * 10^9 *)
            if f_is_nan x || f_is_inf x then nospec else
            match tt with
            | _ => let k := f_to_int I128_MIN I128_MAX x in
                   if (f_to_bits (f_of_Z k) =? f_to_bits x) && (Z.abs k <? 2 ^ 62) &&
                      (f_to_int I128_MIN I128_MAX (f_of_Z (k * 1000000000)) =? k * 1000000000) && (Z.abs (k * 1000000000) <? 2 ^ 100)
                      && in_rangev (k * 1000000000) && in_rangev (v + k * 1000000000)      (* "such that the result stays representable" *)
                   then sdur (clamp (v + k * 1000000000)) ++ [TZ t] else nospec
            end)
  (* day of year (C20): 1-based float; from (year, day of year) and back *)
  | "doy"%string, [TZ c; TZ n; TZ t] =>
      let t := norm_ts t in
      Some (match day_of_year (mk_epoch c n t) with Some x => [TZ (f_to_bits x)] | None => [TPanic] end,
            let w := pval c n + spec_gregorian_zero t in
            if in_rangev w then
              let '(y, _, _) := civil_of_days (w / NS_PER_DAY) in
              (* exact value: 1 + (w - start of year) / day; window centred on its double, +/- 4 ulps or 4e-12 day *)
              let num := w - civil_days y 1 1 * NS_PER_DAY + NS_PER_DAY in
              [fwindow (fdiv (f_of_Z num) (f_of_Z NS_PER_DAY)) 4436493793489709585]
            else nospec)
  | "from_doy"%string, [TZ y; TZ xb; TZ t] =>
      let t := norm_ts t in
      Some (match from_day_of_year y (f_of_bits xb) (ts_of_Z t) with Some e => [TZ 1; TZ (val (dur e)); TZ t] | None => [TPanic] end,
            if f_finite_bits xb && (1 <=? y) && (y <=? 9999) then
              (* start of the year in the scale + (days - 1) * day, within one rounding of the day count and of the product *)
              let '(lo, hi) := affine_range xb 2 DAY_NS in
              let z := civil_days y 1 1 * NS_PER_DAY - spec_gregorian_zero t in
              if in_rangev (lo + z) && in_rangev (hi + z) then [TZ 1; TRange (lo + z) (hi + z); TZ t] else nopanic
            else nopanic)
  | "doy_rt"%string, [TZ y; TZ xb; TZ t] =>
      (* (year, day of year) -> epoch -> (year, day of year): the same year, the same day to float precision *)
      let t := norm_ts t in let x := f_of_bits xb in
      Some (match from_day_of_year y x (ts_of_Z t) with
            | Some e => match day_of_year e with Some d => [TZ (greg_year e); TZ (f_to_bits d)] | None => [TPanic] end
            | None => [TPanic] end,
            if f_finite_bits xb && (1 <=? y) && (y <=? 9999) && fle (f_of_Z 1) x && flt x (f_of_Z (if leap y then 367 else 366))
            then [TZ y; fwindow x 4436493793489709585] else nopanic)
  | "from_unix_d"%string, [TZ c; TZ n] =>
      Some (match from_unix_duration (from_parts c n) with Some e => tepoch e | None => nospec end,
            sdur (clamp (UNIX_REF_UTC_NS + pval c n)) ++ [TZ 4])
  | _, _ => None
  end.

(* ------------------------------------------------------------------ text: renderings ---- *)
Definition tstr (s : str) : list tok := [TL s].
Definition trender (r : render_res) : list tok :=
  match r with ROk s => [TL s] | RFmtError => [TErr 1] | RUnreachable => [TPanic] | RUnmodelled => nospec end.
(* Debug of a Format: EpochFormat:`<token name><sep><sep2>[?]...` *)
Definition format_debug (f : format) : str :=
  [69;112;111;99;104;70;111;114;109;97;116;58;96] ++
  flat_map (fun it => nth_str (token it) TOKEN_NAMES ++ (match sep_char it with Some c => [c] | None => [] end) ++
                      (match second_sep_char it with Some c => [c] | None => [] end) ++ (if optional it then [63] else [])) f ++ [96].
Definition spec_ts_name (t : Z) : str :=
  match t with 0 => [84;65;73] | 1 => [84;84] | 2 => [69;84] | 3 => [84;68;66] | 4 => [85;84;67] | 5 => [71;80;83;84]
             | 6 => [71;83;84] | 7 => [66;68;84] | _ => [81;90;83;83;84] end.
Definition spec_greg_str (t : Z) (f : Z * Z * Z * Z * Z * Z * Z) (suffix : str) : str :=
  let '(y, mm, dd, hh, mi, s, ns) := f in
  fmt_int 4 y ++ [45] ++ fmt_int 2 mm ++ [45] ++ fmt_int 2 dd ++ [84] ++ fmt_int 2 hh ++ [58] ++ fmt_int 2 mi ++ [58] ++ fmt_int 2 s ++
  (if ns =? 0 then [] else [46] ++ fmt_int 9 ns) ++ suffix.

(* ---- spec of strftime-style rendering: walk the format string itself ----
   literal characters are held back and printed before the next token that prints; an optional token ('?' right after
   its letter) that is zero / UTC prints nothing and drops the separators held back; trailing separators are dropped *)
Definition SPEC_WEEKDAYS : list str :=
  [[77;111;110;100;97;121]; [84;117;101;115;100;97;121]; [87;101;100;110;101;115;100;97;121]; [84;104;117;114;115;100;97;121];
   [70;114;105;100;97;121]; [83;97;116;117;114;100;97;121]; [83;117;110;100;97;121]].
Definition SPEC_MONTHS : list str :=
  [[74;97;110;117;97;114;121]; [70;101;98;114;117;97;114;121]; [77;97;114;99;104]; [65;112;114;105;108]; [77;97;121]; [74;117;110;101];
   [74;117;108;121]; [65;117;103;117;115;116]; [83;101;112;116;101;109;98;101;114]; [79;99;116;111;98;101;114]; [78;111;118;101;109;98;101;114];
   [68;101;99;101;109;98;101;114]].
Record spec_ctx := mkCtx { cx_fields : Z * Z * Z * Z * Z * Z * Z; cx_wd : Z; cx_doy : Z; cx_ts : Z; cx_off : Z (* offset in ns *) }.
(* (text, is_zero_like) of a token letter; None = outside the property's token list *)
Definition spec_token (cx : spec_ctx) (l : Z) : option (str * bool) :=
  let '(y, mm, dd, hh, mi, s, ns) := cx_fields cx in
  match l with
  | 89 => Some (fmt_int 4 y, false) | 109 => Some (fmt_int 2 mm, false) | 100 => Some (fmt_int 2 dd, false)
  | 72 => Some (fmt_int 2 hh, false) | 77 => Some (fmt_int 2 mi, false) | 83 => Some (fmt_int 2 s, false)
  | 102 => Some (fmt_int 9 ns, ns =? 0)
  | 106 => Some (fmt_int 3 (cx_doy cx), false)
  | 65 => Some (nth_str (cx_wd cx) SPEC_WEEKDAYS, false) | 97 => Some (firstn 3 (nth_str (cx_wd cx) SPEC_WEEKDAYS), false)
  | 66 => Some (nth_str (mm - 1) SPEC_MONTHS, false) | 98 => Some (firstn 3 (nth_str (mm - 1) SPEC_MONTHS), false)
  | 84 => Some (spec_ts_name (cx_ts cx), cx_ts cx =? 4)
  | 122 => let o := Z.abs (cx_off cx) in
           if o mod (60 * NS_PER_S) =? 0 then
             Some ([if 0 <=? cx_off cx then 43 else 45] ++ fmt_int 2 (o / (3600 * NS_PER_S)) ++ [58] ++ fmt_int 2 (o / (60 * NS_PER_S) mod 60), false)
           else None
  | _ => None
  end.
Fixpoint spec_render_walk (cx : spec_ctx) (fmt : str) (pending : str) (ntok : nat) (fuel : nat) : option str :=
  match fuel with O => None | S fuel' =>
  match fmt with
  | [] => Some []
  | 37 :: l :: rest =>
      if (16 <=? Z.of_nat ntok) then None else
      match spec_token cx l with
      | None => None
      | Some (text, zero_like) =>
          let '(opt, rest') := match rest with 63 :: r => (true, r) | _ => (false, rest) end in
          if opt && zero_like then spec_render_walk cx rest' [] (S ntok) fuel'
          else option_map (fun tl => pending ++ text ++ tl) (spec_render_walk cx rest' [] (S ntok) fuel')
      end
  | 37 :: [] => None
  | c :: rest =>
      if (c =? 63) || (2 <=? Z.of_nat (List.length pending)) || (ntok =? 0)%nat then None   (* '?' elsewhere, >2 separators, leading text: outside the property *)
      else spec_render_walk cx rest (pending ++ [c]) ntok fuel'
  end end.
Definition spec_render (t v off : Z) (fmt : str) : list tok :=
  match spec_fields t v, sweekday_tai t v with
  | Some f, Some wd =>
      let '(y, _, _, _, _, _, _) := f in
      let w := v + spec_gregorian_zero t in
      let doy := w / NS_PER_DAY - civil_days y 1 1 + 1 in
      match spec_render_walk (mkCtx f wd doy t off) fmt [] 0 (S (List.length fmt)) with Some s => [TL s] | None => nospec end
  | _, _ => nospec
  end.
Definition is_float_id_early (t : Z) : bool := (t =? 2) || (t =? 3).
Definition dispatch_text (name : string) (a : list tok) : option (list tok * list tok) :=
  match name, a with
  | "disp_dur"%string, [TZ c; TZ n] => Some (tstr (display_duration (from_parts c n)), tstr (spec_display_duration (pval c n)))
  | "disp_epoch"%string, [TZ c; TZ n; TZ t] =>
      let t := norm_ts t in
      Some (tstr (display_epoch (mk_epoch c n t)),
            match spec_fields t (pval c n) with Some f => tstr (spec_greg_str t f ([32] ++ spec_ts_name t)) | None => nospec end)
  | "greg_str"%string, [TZ c; TZ n; TZ t; TZ t2] =>
      let t := norm_ts t in let t2 := norm_ts t2 in
      Some (topt tstr (to_gregorian_str (mk_epoch c n t) (ts_of_Z t2)),
            match sconv t (pval c n) t2 with
            | Some v2 => match spec_fields t2 v2 with Some f => tstr (spec_greg_str t2 f ([32] ++ spec_ts_name t2)) | None => nospec end
            | None => nospec end)
  | "rfc3339"%string, [TZ c; TZ n; TZ t] =>
      let t := norm_ts t in
      Some (topt tstr (to_rfc3339 (mk_epoch c n t)),
            match sconv t (pval c n) 4 with
            | Some v2 => match spec_fields 4 v2 with Some f => tstr (spec_greg_str 4 f [43;48;48;58;48;48]) | None => nospec end
            | None => nospec end)
  | "fmt_debug"%string, [TL s] =>
      Some (match format_from_str s with inl f => tstr (format_debug f) | inr UnknownFormat => [TErr 1] | inr (UnknownToken c) => [TErr 2; TZ c] end, nopanic)
  | "fmt_const"%string, [TZ k] =>
      (* each predefined format is the format string it documents *)
      Some (tstr (format_debug (predefined_by_index k)),
            match format_from_str (DOC_FORMAT k) with inl f => tstr (format_debug f) | inr _ => [TErrAny] end)
  | "fmt_render"%string, [TZ c; TZ n; TZ t; TZ oc; TZ on; TZ mode; TL fs] =>
      let t := norm_ts t in let e := mk_epoch c n t in
      Some (match format_from_str fs with
            | inl f => trender (if mode =? 0 then formatter_new e f else formatter_with_timezone e (from_parts oc on) f)
            | inr _ => [TErr 9] end,
            if mode =? 0 then (match spec_render t (pval c n) 0 fs with [TNoSpec] => nopanic | r => r end)
            else let v' := pval c n + pval oc on in if in_rangev v' then spec_render t v' (pval oc on) fs else nospec)
  | "iso_vs_display"%string, [TZ c; TZ n; TZ t] =>
      (* the ISO 8601 formatter output equals the default display (1 = equal) *)
      let t := norm_ts t in let e := mk_epoch c n t in
      Some ([tb (match formatter_new e (predefined_by_index 0) with ROk s => str_eqb s (display_epoch e) | _ => false end)],
            if is_float_id_early t then nospec else [TZ 1])
  | "fmt_render_const"%string, [TZ c; TZ n; TZ t; TZ oc; TZ on; TZ mode; TZ k] =>
      let t := norm_ts t in let e := mk_epoch c n t in let f := predefined_by_index k in
      Some (trender (if mode =? 0 then formatter_new e f else formatter_with_timezone e (from_parts oc on) f),
            if mode =? 0 then spec_render t (pval c n) 0 (DOC_FORMAT k)
            else let v' := pval c n + pval oc on in if in_rangev v' then spec_render t v' (pval oc on) (DOC_FORMAT k) else nospec)
  | _, _ => None
  end.

(* ------------------------------------------------------------------ text: parsers ---- *)
Definition tpres {A} (f : A -> list tok) (r : pres A) : list tok :=
  match r with POk x => TZ 1 :: f x | PErr k => [TErr k] | PPanic => [TPanic] | PUnmodelled => nospec end.
Definition tlexf (r : lexf) : list tok :=
  match r with LexErr => [TZ 0] | LexVal x => [TZ 1; TZ (if f_is_nan x then 9221120237041090560 else f_to_bits x)] | LexUnmodelled => nospec end.
Definition topt_z (o : option Z) : list tok := match o with Some v => [TZ 1; TZ v] | None => [TZ 0] end.

(* the class of formats for which the parse-back clause of C19 is claimed: tokens Y m d H M S f each exactly once plus any of
   j A a B b T... no: only tokens whose text determines the epoch and that a separator-driven parser can split:
   every token is followed by at least one separator character that cannot be part of the next field (not a digit, not a
   letter), no optional tokens, no %z, no %T before the end, and Y m d H M S f all present. *)
Fixpoint fmt_tokens (fs : str) : list (Z * nat) :=   (* (token letter, number of separator characters after it) *)
  match fs with
  | 37 :: l :: rest =>
      let fix seps (r : str) (k : nat) : nat := match r with c :: r' => if c =? 37 then k else seps r' (S k) | [] => k end in
      (l, seps rest 0%nat) :: fmt_tokens rest
  | _ :: rest => fmt_tokens rest
  | [] => []
  end.
Definition sep_is_safe (c : Z) : bool := negb (is_numeric c) && negb (is_ascii_alpha c) && negb (c =? 63) && negb (c =? 37) && negb (c =? 43) && negb (c =? 45).
Definition roundtrippable (fs : str) : bool :=
  let toks := fmt_tokens fs in
  let letters := map fst toks in
  forallb (fun l => existsb (Z.eqb l) letters) [89; 109; 100; 72; 77; 83; 102] &&      (* Y m d H M S f present *)
  forallb (fun l => (count_occ Z.eq_dec letters l <=? 1)%nat) [89; 109; 100; 72; 77; 83; 102; 106; 65; 97; 66; 98; 84] &&
  forallb (fun l => existsb (Z.eqb l) [89; 109; 100; 72; 77; 83; 102; 106; 65; 97; 66; 98]) letters &&      (* those seven, plus the redundant %j and the weekday / month names; %T and %z interplay is not claimed *)
  forallb sep_is_safe (filter (fun c => negb (c =? 37)) (flat_map (fun c => [c]) (let fix strip (r : str) : str := match r with 37 :: _ :: r' => strip r' | c :: r' => c :: strip r' | [] => [] end in strip fs))) &&
  forallb (fun t => (1 <=? snd t)%nat) (removelast toks) &&
  match fs with 37 :: _ => true | _ => false end.

Definition dispatch_parse (name : string) (a : list tok) : option (list tok * list tok) :=
  match name, a with
  | "p_epoch"%string, [TL s] => Some (tpres tepoch (epoch_from_str s), nopanic)
  (* well-formed text with one field out of range: an error, never another date *)
  | "p_reject"%string, [TL s] => Some (tpres tepoch (epoch_from_str s), [TErrAny])
  | "p_reject_fmt"%string, [TL f; TL s] => Some (tpres tepoch (from_format_str s f), [TErrAny])
  | "p_greg"%string, [TL s] => Some (tpres tepoch (from_gregorian_str s), nopanic)
  | "p_dur"%string, [TL s] => Some (tpres tdur (duration_from_str s), nopanic)
  | "p_ts"%string, [TL s] => Some (match ts_from_str s with Some t => [TZ 1; TZ (ts_id t)] | None => [TErr E_TimeSystem] end, nopanic)
  | "p_wd"%string, [TL s] => Some (match weekday_from_str s with Some w => [TZ 1; TZ w] | None => [TErr E_UnknownWeekday] end, nopanic)
  | "p_month"%string, [TL s] => Some (match month_from_str s with Some m => [TZ 1; TZ m] | None => [TErr E_UnknownMonthName] end, nopanic)
  | "lex_i32"%string, [TL s] => Some (topt_z (lex_i32 s), nopanic)
  | "lex_i64"%string, [TL s] => Some (topt_z (lex_i64 s), nopanic)
  | "lex_u64"%string, [TL s] => Some (topt_z (lex_int false 0 U64_MAX s), nopanic)
  | "lex_f64"%string, [TL s] => Some (tlexf (lex_f64 s), nopanic)
  (* numeric forms "JD x TS" / "MJD x TS" / "SEC x TS": x given as sign, integer digits and fraction digits; the spec is the instant
     the text denotes, from the exact decimal, within the resolution of a double of that magnitude *)
  | "p_num"%string, [TZ form; TZ neg; TL ip; TL fp; TZ t] =>
      let t := norm_ts t in
      let txt := (match form with 1 => [74;68] | 2 => [77;74;68] | _ => [83;69;67] end) ++ [32] ++ (if neg =? 1 then [45] else []) ++ ip ++
                 (match fp with [] => [] | _ => 46 :: fp end) ++ [32] ++ spec_ts_name t in
      let num := fold_left (fun a c => a * 10 + (c - 48)) (ip ++ fp) 0 in
      let num := if neg =? 1 then - num else num in
      let den := 10 ^ Z.of_nat (List.length fp) in
      let unit_ns := if form =? 3 then NS_PER_S else NS_PER_DAY in
      (* reference value of the form (days) as a rational over 2, and the scale's calendar zero *)
      let ref2 := match form with 1 => 2 * 2415020 + 1 | 2 => 2 * 15020 | _ => 0 end in
      let supported := match form with
                       | 1 => (t =? 0) || (t =? 4)
                       | 2 => (t =? 0) || (t =? 4) || (t =? 5) || (t =? 6) || (t =? 7)
                       | _ => negb (is_float_id_early t) end in
      let exact2 := (* twice the exact count in ns, times den *) (2 * num - ref2 * den) * unit_ns - (if form =? 3 then 0 else 2 * spec_gregorian_zero t * den) in
      let mag := Z.abs num / den + Z.abs ref2 + 1 in
      let tol := mag * unit_ns / 2 ^ 50 + 2 in
      Some (match epoch_from_str txt with
            | POk e => [TZ 1; TZ (val (dur e)); TZ (ts_id (scale e))]
            | PErr k => [TErr k] | PPanic => [TPanic] | PUnmodelled => nospec end,
            if is_float_id_early t then
              (* SEC x ET / TDB: x seconds on the scale's own count (J2000); JD / MJD in ET / TDB are documented as approximate *)
              (if form =? 3 then let c := num * NS_PER_S / den in [TZ 1; TRange (c - tol) (c + 1 + tol); TZ t] else nopanic)
            else if negb supported then [TErr E_UnsupportedTimeSystem]
            else let lo := exact2 / (2 * den) - tol in let hi := exact2 / (2 * den) + 1 + tol in
                 if in_rangev lo && in_rangev hi then [TZ 1; TRange lo hi; TZ t] else nopanic)
  (* round trips: render with the model of the formatter, parse with the model of the parser; spec: the same epoch / duration *)
  | "rt_disp"%string, [TZ c; TZ n; TZ t] =>
      let t := norm_ts t in let e := mk_epoch c n t in
      Some (tpres tepoch (epoch_from_str (display_epoch e)),
            match spec_fields t (pval c n) with
            | Some (y, _, _, _, _, _, _) => if (1 <=? y) && (y <=? 9999) then TZ 1 :: sdur (pval c n) ++ [TZ t] else nospec
            | None => nospec end)
  | "rt_rfc3339"%string, [TZ c; TZ n] =>
      let e := mk_epoch c n 4 in
      Some (match to_rfc3339 e with Some s => tpres tepoch (epoch_from_str s) | None => nospec end,
            match spec_fields 4 (pval c n) with
            | Some (y, _, _, _, _, _, _) => if (1 <=? y) && (y <=? 9999) then TZ 1 :: sdur (pval c n) ++ [TZ 4] else nospec
            | None => nospec end)
  | "rt_iso"%string, [TZ c; TZ n; TZ t] =>
      let t := norm_ts t in let e := mk_epoch c n t in
      Some (match formatter_new e (predefined_by_index 0) with ROk s => tpres tepoch (epoch_from_str s) | _ => nospec end,
            match spec_fields t (pval c n) with
            | Some (y, _, _, _, _, _, _) => if (1 <=? y) && (y <=? 9999) then TZ 1 :: sdur (pval c n) ++ [TZ t] else nospec
            | None => nospec end)
  (* Duration::from_str against the value the text denotes; the expected value (an exact rational num / den ns, computed by the case
     generator from the documented grammar) comes with the case; den = 0 means "must be rejected" *)
  | "p_dur_v"%string, [TL str_; TZ num; TZ den; TZ tol] =>
      Some (match duration_from_str str_ with
            | POk d => [TZ 1; TZ (val d)] | PErr k => [TErr k] | PPanic => [TPanic] | PUnmodelled => nospec end,
            if den =? 0 then [TErrAny] else [TZ 1; TRange (num / den - tol) (num / den + 1 + tol)])
  | "rt_dur"%string, [TZ c; TZ n] =>
      Some (tpres tdur (duration_from_str (display_duration (from_parts c n))),
            if Z.abs (pval c n) <=? 320000000000000000000 then TZ 1 :: sdur (pval c n) else nospec)
  (* ISO 8601 / RFC 3339 text built from fields: date T time [.frac(k digits)] (Z | +hh:mm | -hh:mm | nothing) [ scale] *)
  | "iso_parse"%string, [TZ y; TZ mo; TZ d; TZ h; TZ mi; TZ sec; TZ frac; TZ k; TZ form; TZ oh; TZ om; TZ sfx; TZ tsep] =>
      let digits := fmt_int (Z.to_nat k) frac in
      let base := fmt_int 4 y ++ [45] ++ fmt_int 2 mo ++ [45] ++ fmt_int 2 d ++ [if tsep =? 0 then 84 else 32] ++
                  fmt_int 2 h ++ [58] ++ fmt_int 2 mi ++ [58] ++ fmt_int 2 sec ++ (if k =? 0 then [] else [46] ++ digits) in
      let tzs := if form =? 0 then [] else if form =? 1 then [90] else if form =? 2 then [43] ++ fmt_int 2 oh ++ [58] ++ fmt_int 2 om
                 else [45] ++ fmt_int 2 oh ++ [58] ++ fmt_int 2 om in
      let t := norm_ts sfx in
      let text := base ++ tzs ++ (if sfx =? 99 then [] else [32] ++ spec_ts_name t) in
      let tsc := if sfx =? 99 then 4 else t in
      Some (tpres tepoch (epoch_from_str text),
            let off := (oh * 3600 + om * 60) * NS_PER_S in
            let shift := if form =? 2 then - off else if form =? 3 then off else 0 in
            let v := civil_ns y mo d h mi sec (frac * 10 ^ (9 - k)) - spec_gregorian_zero tsc + shift in
            if valid_dateb y mo d && (1 <=? y) && (y <=? 9999) && (h <? 24) && (mi <? 60) && (sec <? 60) && in_rangev v
            then TZ 1 :: sdur v ++ [TZ tsc] else nospec)
  | "p_fmt"%string, [TL fs; TL s] => Some (tpres tepoch (from_format_str s fs), nopanic)
  | "p_fmt_const"%string, [TZ k; TL s] => Some (tpres tepoch (format_parse (predefined_by_index k) s), nopanic)
  (* render a UTC epoch with a format, parse the text with the same format: the epoch comes back when the format has no
     optional token, contains the full date and time, and never puts two numeric tokens next to each other *)
  | "rt_fmt"%string, [TZ c; TZ n; TL fs] =>
      let e := mk_epoch c n 4 in
      Some (match format_from_str fs with
            | inl f => match formatter_new e f with ROk s => tpres tepoch (format_parse f s) | _ => nospec end
            | inr _ => nospec end,
            match spec_fields 4 (pval c n) with
            | Some (y, _, _, _, _, _, _) =>
                if (1 <=? y) && (y <=? 9999) && roundtrippable fs then TZ 1 :: sdur (pval c n) ++ [TZ 4] else nopanic
            | None => nopanic end)
  | "rt_fmt_const"%string, [TZ c; TZ n; TZ k] =>
      let e := mk_epoch c n 4 in let f := predefined_by_index k in
      Some (match formatter_new e f with ROk s => tpres tepoch (format_parse f s) | _ => nospec end,
            match spec_fields 4 (pval c n) with
            | Some (y, _, _, _, _, _, _) =>
                if (1 <=? y) && (y <=? 9999) && ((k =? 0) || (k =? 2) || (k =? 8)) then TZ 1 :: sdur (pval c n) ++ [TZ 4] else nopanic
            | None => nopanic end)
  | "uni_class"%string, [TZ c] => Some ([tb (is_numeric c); tb (is_whitespace c); tb (is_ascii_alpha c)], nospec)
  | _, _ => None
  end.

(* ------------------------------------------------------------------ ET / TDB (C07) ---- *)
(* sinbits: the platform sine on bit patterns, supplied by the driver (an oracle, not an extracted constant) *)
Definition is_uniform_id (t : Z) : bool := (t =? 0) || (t =? 1) || (t =? 5) || (t =? 6) || (t =? 7) || (t =? 8).
Definition is_float_id (t : Z) : bool := (t =? 2) || (t =? 3).
Definition SPAN_10K_YEARS_NS : Z := 10000 * 36525 * NS_PER_DAY / 100.
Definition delta_of (t : Z) : Z -> Z := if t =? 2 then delta_et_sc else delta_tdb_sc.
(* spec count range (ns) of the conversion of (t1, v) to t2, tolerance tol *)
Definition spec_convf (t1 v t2 tol : Z) : option (Z * Z) :=
  if is_uniform_id t1 && is_float_id t2 then
    match sinstant t1 v with
    | Some i => if Z.abs (i - J2000_NS) <=? SPAN_10K_YEARS_NS then Some (ns_range (et_of_tai_sc (delta_of t2) i) tol) else None
    | None => None
    end
  else if is_float_id t1 && is_uniform_id t2 then
    if Z.abs v <=? SPAN_10K_YEARS_NS then
      match spec_scale_zero_tai t2 with
      | Some z => let '(lo, hi) := ns_range (tai_of_et_sc (delta_of t1) v) tol in Some (lo - z, hi - z)
      | None => None
      end
    else None
  else if is_float_id t1 && is_float_id t2 then
    (* an epoch given in ET or TDB read in the other one: its TAI instant by the source scale's closed form, then the target
       scale's closed form at that instant; each form holds within tol, hence twice tol (and the nanosecond lost flooring the instant) *)
    if t1 =? t2 then Some (v, v)
    else if Z.abs v <=? SPAN_10K_YEARS_NS then
      Some (ns_range (et_of_tai_sc (delta_of t2) (tai_of_et_sc (delta_of t1) v / NS_SC)) (2 * tol + 1))
    else None
  else None.
Definition dispatch_ettdb (sinbits : Z -> Z) (name : string) (a : list tok) : option (list tok * list tok) :=
  let sin64 := fun x => f_of_bits (sinbits (f_to_bits x)) in
  let conv := fun e t => to_time_scale_all sin64 e (ts_of_Z t) in
  match name, a with
  | "convf"%string, [TZ c; TZ n; TZ t1; TZ t2] =>
      let t1 := norm_ts t1 in let t2 := norm_ts t2 in
      Some ([TZ (val (dur (conv (mk_epoch c n t1) t2)))],
            match spec_convf t1 (pval c n) t2 30 with Some (lo, hi) => [TRange lo hi] | None => nospec end)
  | "rtf"%string, [TZ c; TZ n; TZ t1; TZ t2] =>
      let t1 := norm_ts t1 in let t2 := norm_ts t2 in let v := pval c n in
      Some ([TZ (val (dur (conv (conv (mk_epoch c n t1) t2) t1)))],
            if is_uniform_id t1 && is_float_id t2 then
              match sinstant t1 v with
              | Some i => if Z.abs (i - J2000_NS) <=? SPAN_10K_YEARS_NS then [TRange (v - 20) (v + 20)] else nospec
              | None => nospec end
            else nospec)
  (* C12 with an ET / TDB operand: the order of instants more than 100 ns apart *)
  | "ecmpf"%string, [TZ c1; TZ n1; TZ t1; TZ c2; TZ n2; TZ t2] =>
      let t1 := norm_ts t1 in let t2 := norm_ts t2 in
      let inst := fun t v => if is_float_id t then
                               (if Z.abs v <=? SPAN_10K_YEARS_NS then Some (tai_of_et_sc (delta_of t) v / NS_SC) else None)
                             else sinstant t v in
      Some ([tcmp (epoch_cmp_all sin64 (mk_epoch c1 n1 t1) (mk_epoch c2 n2 t2))],
            if t1 =? t2 then [tcmp (Z.compare (pval c1 n1) (pval c2 n2))]
            else match inst t1 (pval c1 n1), inst t2 (pval c2 n2) with
                 | Some i, Some j => if 100 <? Z.abs (i - j) then [tcmp (Z.compare i j)] else nospec
                 | _, _ => nospec end)
  (* thin wrappers of the public API against the entry points that define them: the harness asserts each identity and answers 1 *)
  | "wrappers"%string, _ => Some ([TZ 1], [TZ 1])
  | "wrappers_from"%string, _ => Some ([TZ 1], [TZ 1])
  | "wrappers_int"%string, _ => Some ([TZ 1], [TZ 1])
  | "ordf"%string, [TZ c1; TZ n1; TZ c2; TZ n2; TZ t1; TZ t2] =>
      let t1 := norm_ts t1 in let t2 := norm_ts t2 in let v1 := pval c1 n1 in let v2 := pval c2 n2 in
      let x := val (dur (conv (mk_epoch c1 n1 t1) t2)) in let y := val (dur (conv (mk_epoch c2 n2 t1) t2)) in
      Some ([tcmp (Z.compare x y)],
            if ((is_uniform_id t1 && is_float_id t2) || (is_float_id t1 && is_uniform_id t2)
                || (is_float_id t1 && is_float_id t2 && (Z.abs v1 <=? SPAN_10K_YEARS_NS) && (Z.abs v2 <=? SPAN_10K_YEARS_NS)))
               && (100 <? Z.abs (v1 - v2))
               && (Z.abs v1 <=? SPAN_10K_YEARS_NS + J2000_NS) && (Z.abs v2 <=? SPAN_10K_YEARS_NS + J2000_NS)
               && (- SPAN_10K_YEARS_NS <=? v1) && (- SPAN_10K_YEARS_NS <=? v2)
            then [tcmp (Z.compare v1 v2)] else nospec)
  | _, _ => None
  end.

(* ------------------------------------------------------------------ leap seconds file provider (C06) ---- *)
Fixpoint list_eqb (a b : list (Z * Z)) : bool :=
  match a, b with [], [] => true | (x1, y1) :: a', (x2, y2) :: b' => (x1 =? x2) && (y1 =? y2) && list_eqb a' b' | _, _ => false end.
Definition dispatch_leapfile (name : string) (a : list tok) : option (list tok * list tok) :=
  let exact_below (b : Z) (p : provider) := forallb (fun e => fst e <? b) p in
  match name, a with
  | "leapfile"%string, [TL s] =>
      Some (match parse_leap_file s with
            | FileOk p => if exact_below (2 ^ 53) p then [TZ 1; TL (flat_map (fun e => [fst e; snd e]) p)] else nospec
            | FileErr k => [TErr k] end, nopanic)
  (* a text the generator made from the IERS table by changing only the white space between and after the columns
     (the expectation travels with the case): it must load as that table *)
  | "leapfile_iers"%string, [TL s] =>
      Some (match parse_leap_file s with
            | FileOk p => if exact_below (2 ^ 53) p then [TZ 1; TL (flat_map (fun e => [fst e; snd e]) p)] else nospec
            | FileErr k => [TErr k] end,
            [TZ 1; TL (flat_map (fun e => [fst e; snd e]) IERS_FILE)])
  | "leapfile_lookup"%string, [TL s; TZ c; TZ n] =>
      Some (match parse_leap_file s with
            | FileOk p => if exact_below 4000000000 p
                          then (match leap_seconds_with p (from_parts c n) with Some x => [TZ 1; TZ x] | None => [TZ 0] end)
                          else nospec
            | FileErr k => [TErr k] end,
            (* for a file holding the IERS table itself the answer is the spec's step function *)
            match parse_leap_file s with
            | FileOk p => if list_eqb p IERS_FILE then
                            (let d := spec_delta_utc (pval c n) in if d =? 0 then [TZ 0] else [TZ 1; TZ d])
                          else nopanic
            | FileErr _ => nopanic end)
  | _, _ => None
  end.

Definition dispatch (sinbits : Z -> Z) (name : string) (a : list tok) : option (list tok * list tok) :=
  match dispatch_ettdb sinbits name a with Some r => Some r | None =>
  match dispatch_leapfile name a with Some r => Some r | None =>
  match dispatch_parse name a with Some r => Some r | None =>
  match dispatch_text name a with Some r => Some r | None =>
  match dispatch_views name a with Some r => Some r | None =>
  match dispatch_float name a with Some r => Some r | None =>
  match dispatch_duration name a with
  | Some r => Some r
  | None => match dispatch_epoch name a with
            | Some r => Some r
            | None => dispatch_calendar name a
            end
  end end end end end end end.

(* decimal I/O helpers for the driver, so that the OCaml side needs no bignum code *)

Definition z_of_digits (neg : bool) (ds : list Z) : Z :=
  let v := fold_left (fun acc d => acc * 10 + d) ds 0 in if neg then - v else v.
Definition z_is_neg (z : Z) : bool := z <? 0.
