(* Correspondence entry point: one generic function from a case line (function name + tokens)
   to the model's answer and, where the property has an executable spec, the spec's answer.
   Extracted to OCaml; the hand-written driver only parses and prints tokens. *)
From Coq Require Import ZArith Bool List String.
From HF Require Import MachInt Outcome GenConsts Duration SignedNs.
Import ListNotations.
Open Scope Z_scope.

(* TNoSpec: the spec leaves this position (or the whole answer) open; TSign b: any integer that is
   negative (b = true) / non-negative (b = false) *)
Inductive tok := TZ (z : Z) | TL (l : list Z) | TPanic | TErr (k : Z) | TNoSpec | TSign (neg : bool).

Definition tb (b : bool) : tok := TZ (if b then 1 else 0).
Definition tcmp (c : comparison) : tok := TZ (match c with Lt => -1 | Eq => 0 | Gt => 1 end).
Definition tdur (d : duration) : list tok := [TZ (centuries d); TZ (nanoseconds d)].

(* the canonical (centuries, nanoseconds) form of an in-range count *)
Definition canon_of (z : Z) : duration :=
  if z =? MAXV then mkD 32767 SNPC else mkD (z / SNPC) (z mod SNPC).
Definition sdur (z : Z) : list tok := tdur (canon_of z).
Definition pval (c n : Z) : Z := clamp (c * SNPC + n).
Definition suf (u : Z) : Z := spec_unit_factor (unit_of_Z u).

Definition nospec : list tok := [TNoSpec].
(* C14: when the true floor lies below MIN, "ceil = floor + |s|" and "least multiple above d" part ways
   (the returned floor is MIN, not a multiple); the property leaves ceil/round open there. *)
Definition floor_saturates (d s : Z) : bool := negb (s =? 0) && (d - d mod Z.abs s <? MINV).
(* likewise round compares distances to the returned (saturated) ceil: open when the true ceil exceeds MAX *)
Definition ceil_saturates (d s : Z) : bool := negb (s =? 0) && (MAXV <? d - d mod Z.abs s + Z.abs s).



Definition dispatch_duration (name : string) (a : list tok) : option (list tok * list tok) :=
  match name, a with
  | "from_parts"%string, [TZ c; TZ n] => Some (tdur (from_parts c n), sdur (pval c n))
  | "from_total"%string, [TZ z] => Some (tdur (from_total_nanoseconds z), sdur (clamp z))
  | "total"%string, [TZ c; TZ n] => Some ([TZ (total_nanoseconds (from_parts c n))], [TZ (pval c n)])
  | "from_trunc"%string, [TZ z] => Some (tdur (from_truncated_nanoseconds z), sdur z)
  | "try_trunc"%string, [TZ c; TZ n] =>
      let v := pval c n in
      Some (match try_truncated_nanoseconds (from_parts c n) with Some z => [TZ 1; TZ z] | None => [TZ 0] end,
            (* spec: exact between -2 and +2 centuries; error when it does not fit; in between either, never wrong *)
            if (- 2 * SNPC <=? v) && (v <=? 2 * SNPC) then [TZ 1; TZ v]
            else if (v <? I64_MIN) || (I64_MAX <? v) then [TZ 0] else nospec)
  | "trunc"%string, [TZ c; TZ n] =>
      let v := pval c n in
      Some ([TZ (truncated_nanoseconds (from_parts c n))],
            if (- 2 * SNPC <=? v) && (v <=? 2 * SNPC) then [TZ v]
            else if v <? I64_MIN then [TZ I64_MIN] else if I64_MAX <? v then [TZ I64_MAX] else nospec)
  | "add"%string, [TZ c1; TZ n1; TZ c2; TZ n2] =>
      Some (tdur (dur_add (from_parts c1 n1) (from_parts c2 n2)), sdur (spec_add (pval c1 n1) (pval c2 n2)))
  | "sub"%string, [TZ c1; TZ n1; TZ c2; TZ n2] =>
      Some (tdur (dur_sub (from_parts c1 n1) (from_parts c2 n2)), sdur (spec_sub (pval c1 n1) (pval c2 n2)))
  | "neg"%string, [TZ c; TZ n] => Some (tdur (dur_neg (from_parts c n)), sdur (spec_neg (pval c n)))
  | "abs"%string, [TZ c; TZ n] => Some (tdur (dur_abs (from_parts c n)), sdur (spec_abs (pval c n)))
  | "mul"%string, [TZ c; TZ n; TZ k] => Some (tdur (dur_mul_i64 (from_parts c n) k), sdur (spec_mul (pval c n) k))
  | "div"%string, [TZ c; TZ n; TZ k] =>
      if k =? 0 then None else Some (tdur (dur_div_i64 (from_parts c n) k), sdur (spec_div (pval c n) k))
  | "add_unit"%string, [TZ c; TZ n; TZ u] =>
      Some (tdur (dur_add_unit (from_parts c n) (unit_of_Z u)), sdur (spec_add (pval c n) (suf u)))
  | "sub_unit"%string, [TZ c; TZ n; TZ u] =>
      Some (tdur (dur_sub_unit (from_parts c n) (unit_of_Z u)), sdur (spec_sub (pval c n) (suf u)))
  | "unit_mul"%string, [TZ u; TZ k] => Some (tdur (unit_mul_i64 (unit_of_Z u) k), sdur (clamp (k * suf u)))
  | "eq"%string, [TZ c1; TZ n1; TZ c2; TZ n2] =>
      let va := pval c1 n1 in let vb := pval c2 n2 in
      Some ([tb (dur_eqb (from_parts c1 n1) (from_parts c2 n2))],
            [tb ((va =? vb) || ((Z.abs va <? SNPC) && (va =? - vb)))])
  | "cmp"%string, [TZ c1; TZ n1; TZ c2; TZ n2] =>
      Some ([tcmp (dur_cmp (from_parts c1 n1) (from_parts c2 n2))], [tcmp (Z.compare (pval c1 n1) (pval c2 n2))])
  | "min"%string, [TZ c1; TZ n1; TZ c2; TZ n2] =>
      Some (tdur (dur_min (from_parts c1 n1) (from_parts c2 n2)), sdur (Z.min (pval c1 n1) (pval c2 n2)))
  | "max"%string, [TZ c1; TZ n1; TZ c2; TZ n2] =>
      Some (tdur (dur_max (from_parts c1 n1) (from_parts c2 n2)), sdur (Z.max (pval c1 n1) (pval c2 n2)))
  | "floor"%string, [TZ c1; TZ n1; TZ c2; TZ n2] =>
      Some (tdur (dur_floor (from_parts c1 n1) (from_parts c2 n2)), sdur (spec_floor (pval c1 n1) (pval c2 n2)))
  | "ceil"%string, [TZ c1; TZ n1; TZ c2; TZ n2] =>
      Some (tdur (dur_ceil (from_parts c1 n1) (from_parts c2 n2)),
            if floor_saturates (pval c1 n1) (pval c2 n2) then nospec else sdur (spec_ceil (pval c1 n1) (pval c2 n2)))
  | "round"%string, [TZ c1; TZ n1; TZ c2; TZ n2] =>
      Some (tdur (dur_round (from_parts c1 n1) (from_parts c2 n2)),
            if floor_saturates (pval c1 n1) (pval c2 n2) || ceil_saturates (pval c1 n1) (pval c2 n2) then nospec
            else sdur (spec_round (pval c1 n1) (pval c2 n2)))
  | "approx"%string, [TZ c; TZ n] => Some (tdur (dur_approx (from_parts c n)), nospec)
  | "decompose"%string, [TZ c; TZ n] =>
      let '(sg, (d, h, mi, s, ms, us, ns)) := decompose (from_parts c n) in
      let v := Z.abs (pval c n) in
      Some ([TZ sg; TZ d; TZ h; TZ mi; TZ s; TZ ms; TZ us; TZ ns],
            [TSign (pval c n <? 0);
             TZ (v / 86400000000000); TZ (v / 3600000000000 mod 24); TZ (v / 60000000000 mod 60);
             TZ (v / 1000000000 mod 60); TZ (v / 1000000 mod 1000); TZ (v / 1000 mod 1000); TZ (v mod 1000)])
  | "signum"%string, [TZ c; TZ n] => Some ([TZ (signum (from_parts c n))], nospec)
  | "subdivision"%string, [TZ c; TZ n; TZ u] =>
      Some (match subdivision (from_parts c n) (unit_of_Z u) with Some d => TZ 1 :: tdur d | None => [TZ 0] end, nospec)
  | "eq_unit"%string, [TZ c; TZ n; TZ u] =>
      let va := pval c n in let vb := suf u in
      Some ([tb (dur_eq_unit (from_parts c n) (unit_of_Z u))], [tb ((va =? vb) || ((Z.abs va <? SNPC) && (va =? - vb)))])
  | "cmp_unit"%string, [TZ c; TZ n; TZ u] =>
      Some ([tcmp (dur_cmp_unit (from_parts c n) (unit_of_Z u))], [tcmp (Z.compare (pval c n) (suf u))])
  | "tz_offset"%string, [TZ sg; TZ h; TZ m] => Some (tdur (from_tz_offset sg h m), nospec)
  | _, _ => None
  end.

Definition dispatch (name : string) (a : list tok) : option (list tok * list tok) :=
  dispatch_duration name a.

(* decimal I/O helpers for the driver, so that the OCaml side needs no bignum code *)

Definition z_of_digits (neg : bool) (ds : list Z) : Z :=
  let v := fold_left (fun acc d => acc * 10 + d) ds 0 in if neg then - v else v.
Fixpoint pos_digits (fuel : nat) (z : Z) (acc : list Z) : list Z :=
  match fuel with
  | O => acc
  | S f => if z <? 10 then z :: acc else pos_digits f (z / 10) (z mod 10 :: acc)
  end.
(* digits of |z|, most significant first; fuel = bit length bounds the digit count *)
Definition z_digits (z : Z) : list Z := pos_digits (S (Z.to_nat (Z.log2 (Z.abs z + 1)))) (Z.abs z) [].
Definition z_is_neg (z : Z) : bool := z <? 0.
