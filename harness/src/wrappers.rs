//! Thin wrappers of the public API asserted against the generic entry points they are defined by
//! (a deviation of any of them shows up as PANIC against the expected "1").
use crate::epoch::{epoch, ts};
use crate::Args;
use hifitime::{Duration, Epoch, TimeScale, Unit};

fn same(a: Epoch, b: Epoch) -> bool {
    a.duration.to_parts() == b.duration.to_parts() && a.time_scale == b.time_scale
}
fn feq(a: f64, b: f64) -> bool {
    a.to_bits() == b.to_bits() || (a.is_nan() && b.is_nan())
}

pub fn run(name: &str, a: &Args) -> Option<String> {
    Some(match name {
        // float and part views of an epoch in each scale = the duration in that scale read with to_seconds / to_unit
        "wrappers" => {
            let e = epoch(a, 0);
            let float_scale = matches!(e.time_scale, TimeScale::ET | TimeScale::TDB);
            let tai = e.to_tai_duration();
            assert!(e.to_duration_since_j1900().to_parts() == tai.to_parts());
            assert!(e.to_tai_parts() == tai.to_parts());
            assert!(feq(e.to_tai_seconds(), tai.to_seconds()) && feq(e.to_tai_days(), tai.to_unit(Unit::Day)));
            for u in [Unit::Nanosecond, Unit::Second, Unit::Hour, Unit::Day, Unit::Century] {
                assert!(feq(e.to_tai(u), tai.to_unit(u)) && feq(e.to_utc(u), e.to_utc_duration().to_unit(u)));
            }
            let utc = e.to_utc_duration();
            assert!(feq(e.to_utc_seconds(), utc.to_unit(Unit::Second)) && feq(e.to_utc_days(), utc.to_unit(Unit::Day)));
            let tt = e.to_tt_duration();
            assert!(feq(e.to_tt_seconds(), tt.to_seconds()) && feq(e.to_tt_days(), tt.to_unit(Unit::Day)));
            assert!(feq(e.to_jde_tt_days(), e.to_jde_tt_duration().to_unit(Unit::Day)) && feq(e.to_mjd_tt_days(), e.to_mjd_tt_duration().to_unit(Unit::Day)));
            assert!(feq(e.to_jde_utc_seconds(), e.to_jde_utc_duration().to_seconds()));
            let g = e.to_gpst_duration();
            assert!(feq(e.to_gpst_seconds(), g.to_seconds()) && feq(e.to_gpst_days(), g.to_unit(Unit::Day)));
            let q = e.to_qzsst_duration();
            assert!(feq(e.to_qzsst_seconds(), q.to_seconds()) && feq(e.to_qzsst_days(), q.to_unit(Unit::Day)));
            let gs = e.to_gst_duration();
            assert!(feq(e.to_gst_seconds(), gs.to_seconds()) && feq(e.to_gst_days(), gs.to_unit(Unit::Day)));
            let b = e.to_bdt_duration();
            assert!(feq(e.to_bdt_seconds(), b.to_seconds()) && feq(e.to_bdt_days(), b.to_unit(Unit::Day)));
            assert!(e.weekday_in_time_scale(TimeScale::TAI) == e.weekday() && e.weekday_in_time_scale(TimeScale::UTC) == e.weekday_utc());
            if e.year().abs() < 100_000 {
                // (from_gregorian panics when the start of the year is not representable, right at the bounds of Duration)
                assert!(e.duration_in_year().to_parts() == (e.duration - Epoch::from_gregorian(e.year(), 1, 1, 0, 0, 0, 0, e.time_scale).duration).to_parts());
            }
            if a.len() > 3 && a.z(3) == 1 || float_scale {
                // ET / TDB views (C07, C17)
                let et = e.to_et_duration();
                let tdb = e.to_tdb_duration();
                assert!(et.to_parts() == e.to_time_scale(TimeScale::ET).duration.to_parts() && tdb.to_parts() == e.to_time_scale(TimeScale::TDB).duration.to_parts());
                assert!(feq(e.to_et_seconds(), et.to_seconds()) && feq(e.to_tdb_seconds(), tdb.to_seconds()));
                assert!(feq(e.to_et_days_since_j2000(), et.to_unit(Unit::Day)) && feq(e.to_et_centuries_since_j2000(), et.to_unit(Unit::Century)));
                assert!(feq(e.to_tdb_days_since_j2000(), tdb.to_unit(Unit::Day)) && feq(e.to_tdb_centuries_since_j2000(), tdb.to_unit(Unit::Century)));
                let j2000 = Duration::from_parts(0, 3_155_716_800_000_000_000);
                let jd1900 = Unit::Day * 2_415_020.5_f64;
                assert!(e.to_jde_et_duration().to_parts() == (et + jd1900 + j2000).to_parts());
                assert!(e.to_jde_tdb_duration().to_parts() == (tdb + jd1900 + j2000).to_parts());
                assert!(feq(e.to_jde_et_days(), e.to_jde_et_duration().to_unit(Unit::Day)) && feq(e.to_jde_tdb_days(), e.to_jde_tdb_duration().to_unit(Unit::Day)));
                assert!(feq(e.to_jde_et(Unit::Second), e.to_jde_et_duration().to_unit(Unit::Second)));
                // {:e} prints in TDB, {:E} in ET: the same text as Display of the epoch converted to that scale
                if e.year().abs() < 100_000 {
                    assert!(format!("{e:e}") == e.to_gregorian_str(TimeScale::TDB) && format!("{e:E}") == e.to_gregorian_str(TimeScale::ET));
                    assert!(format!("{e:e}") == format!("{}", e.to_time_scale(TimeScale::TDB)) && format!("{e:E}") == format!("{}", e.to_time_scale(TimeScale::ET)));
                }
            }
            // {:p} prints the UNIX seconds, {:o} the GPST nanoseconds
            assert!(format!("{e:p}") == format!("{}", e.to_unix_seconds()));
            if let Ok(gn) = e.to_gpst_nanoseconds() {
                assert!(format!("{e:o}") == format!("{gn}"));
            }
            "1".to_string()
        }
        // constructors taking a float count: the generic constructor on Unit * f64
        "wrappers_from" => {
            let x = f64::from_bits(a.z(0) as u64);
            if !x.is_finite() {
                return Some("1".to_string());
            }
            let (s, d) = (x * Unit::Second, x * Unit::Day);
            assert!(same(Epoch::from_tai_seconds(x), Epoch::from_tai_duration(s)) && same(Epoch::from_tai_days(x), Epoch::from_tai_duration(d)));
            assert!(same(Epoch::from_utc_seconds(x), Epoch::from_utc_duration(s)) && same(Epoch::from_utc_days(x), Epoch::from_utc_duration(d)));
            assert!(same(Epoch::from_tt_seconds(x), Epoch::from_tt_duration(s)));
            assert!(same(Epoch::from_gpst_seconds(x), Epoch::from_gpst_duration(s)) && same(Epoch::from_gpst_days(x), Epoch::from_gpst_duration(d)));
            assert!(same(Epoch::from_qzsst_seconds(x), Epoch::from_qzsst_duration(s)) && same(Epoch::from_qzsst_days(x), Epoch::from_qzsst_duration(d)));
            assert!(same(Epoch::from_gst_seconds(x), Epoch::from_gst_duration(s)) && same(Epoch::from_gst_days(x), Epoch::from_gst_duration(d)));
            assert!(same(Epoch::from_bdt_seconds(x), Epoch::from_bdt_duration(s)) && same(Epoch::from_bdt_days(x), Epoch::from_bdt_duration(d)));
            assert!(same(Epoch::from_et_seconds(x), Epoch::from_et_duration(s)) && same(Epoch::from_tdb_seconds(x), Epoch::from_tdb_duration(s)));
            for t in [TimeScale::TAI, TimeScale::UTC, TimeScale::GPST, TimeScale::QZSST, TimeScale::GST, TimeScale::BDT] {
                let (m, j) = (Epoch::from_mjd_in_time_scale(x, t), Epoch::from_jde_in_time_scale(x, t));
                let (m2, j2) = match t {
                    TimeScale::TAI => (Epoch::from_mjd_tai(x), Epoch::from_jde_tai(x)),
                    TimeScale::UTC => (Epoch::from_mjd_utc(x), Epoch::from_jde_utc(x)),
                    TimeScale::GPST => (Epoch::from_mjd_gpst(x), Epoch::from_jde_gpst(x)),
                    TimeScale::QZSST => (Epoch::from_mjd_qzsst(x), Epoch::from_jde_qzsst(x)),
                    TimeScale::GST => (Epoch::from_mjd_gst(x), Epoch::from_jde_gst(x)),
                    _ => (Epoch::from_mjd_bdt(x), Epoch::from_jde_bdt(x)),
                };
                assert!(same(m, m2) && same(j, j2));
            }
            assert!(same(Epoch::from_jde_et(x), Epoch::from_jde_tdb(x)));
            assert!(same(Epoch::from_jde_tdb(x), Epoch::from_jde_tai(x) - Unit::Microsecond * 32_184_935_i64));
            "1".to_string()
        }
        // remaining integer wrappers
        "wrappers_int" => {
            let (c, n) = (a.z(0) as i16, a.z(1) as u64);
            assert!(same(Epoch::from_tai_parts(c, n), Epoch::from_tai_duration(Duration::from_parts(c, n))));
            let (w, ns) = ((a.z(0).unsigned_abs() % 5000) as u32, n);
            assert!(same(Epoch::from_time_of_week_utc(w, ns), Epoch::from_time_of_week(w, ns, TimeScale::UTC)));
            let t = ts(a.z(2));
            assert!(t.uses_leap_seconds() == (t == TimeScale::UTC));
            assert!(t.is_gnss() == matches!(t, TimeScale::GPST | TimeScale::GST | TimeScale::BDT | TimeScale::QZSST));
            assert!(Duration::from_parts(c, n).is_negative() == (Duration::from_parts(c, n).total_nanoseconds() < 0));
            // a unit in seconds is the float view of one such unit, and from_seconds is its reciprocal
            let u = a.unit(2);
            let one = (u * 1_i64).to_seconds();   // (sub-second units: to_seconds multiplies the nanosecond count by 1e-9, one rounding away from the literal)
            assert!((u.in_seconds() - one).abs() <= one * 4.0 * f64::EPSILON && feq(u.from_seconds(), 1.0 / u.in_seconds()));
            assert!(u.in_seconds() == [1e-9, 1e-6, 1e-3, 1.0, 60.0, 3600.0, 86400.0, 604800.0, 3155760000.0][a.z(2) as usize]);
            // whole-valued float fields compose like the integer fields (every product is exact in f64)
            let (d, h, mi, sc, ms, us, nn) = (n % 40_000, (n / 7) % 30, (n / 11) % 70, (n / 13) % 70, (n / 17) % 1100, (n / 19) % 1100, (n / 23) % 1100);
            let sg = if c < 0 { -1_i8 } else { 1 };
            assert!(
                Duration::compose_f64(sg, d as f64, h as f64, mi as f64, sc as f64, ms as f64, us as f64, nn as f64).to_parts()
                    == Duration::compose(sg, d, h, mi, sc, ms, us, nn).to_parts()
            );
            "1".to_string()
        }
        _ => return None,
    })
}
