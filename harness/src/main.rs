//! Correspondence harness: reads one case per line ("name tok tok ..."), calls hifitime's public API
//! under catch_unwind and prints the canonical tokens of the result, one line per case.
//! Tokens: decimal integers; lists as [a,b,c]; PANIC; E<k>.
use hifitime::{Duration, Unit};
use std::io::{BufRead, Write};
use std::panic::{catch_unwind, AssertUnwindSafe};

mod dur;
mod epoch;
mod float;
mod views;
mod text;
mod ettdb;
mod leapfile;
mod wrappers;

pub enum Tok {
    Z(i128),
    L(Vec<i128>),
}

pub fn parse_tok(t: &str) -> Tok {
    if let Some(inner) = t.strip_prefix('[') {
        let inner = inner.strip_suffix(']').expect("unterminated list token");
        if inner.is_empty() {
            Tok::L(vec![])
        } else {
            Tok::L(inner.split(',').map(|x| x.parse::<i128>().expect("bad list element")).collect())
        }
    } else {
        Tok::Z(t.parse::<i128>().unwrap_or_else(|_| panic!("bad integer token {t}")))
    }
}

pub struct Args(pub Vec<Tok>);
impl Args {
    pub fn z(&self, i: usize) -> i128 {
        match &self.0[i] {
            Tok::Z(v) => *v,
            _ => panic!("expected integer at {i}"),
        }
    }
    pub fn l(&self, i: usize) -> &Vec<i128> {
        match &self.0[i] {
            Tok::L(v) => v,
            _ => panic!("expected list at {i}"),
        }
    }
    pub fn dur(&self, i: usize) -> Duration {
        Duration::from_parts(self.z(i) as i16, self.z(i + 1) as u64)
    }
    pub fn unit(&self, i: usize) -> Unit {
        match self.z(i) {
            0 => Unit::Nanosecond,
            1 => Unit::Microsecond,
            2 => Unit::Millisecond,
            3 => Unit::Second,
            4 => Unit::Minute,
            5 => Unit::Hour,
            6 => Unit::Day,
            7 => Unit::Week,
            _ => Unit::Century,
        }
    }
    pub fn len(&self) -> usize {
        self.0.len()
    }
}

pub fn pdur(d: Duration) -> String {
    let (c, n) = d.to_parts();
    format!("{c} {n}")
}

fn run(name: &str, a: &Args) -> Option<String> {
    dur::run(name, a).or_else(|| epoch::run(name, a)).or_else(|| float::run(name, a)).or_else(|| views::run(name, a)).or_else(|| text::run(name, a)).or_else(|| ettdb::run(name, a)).or_else(|| leapfile::run(name, a)).or_else(|| wrappers::run(name, a))
}

fn main() {
    // panics are results, not noise; HF_SHOW_PANIC=1 prints where they come from (debugging aid)
    if std::env::var("HF_SHOW_PANIC").is_ok() {
        std::panic::set_hook(Box::new(|i| eprintln!("{i}")));
    } else {
        std::panic::set_hook(Box::new(|_| {}));
    }
    let stdin = std::io::stdin();
    let stdout = std::io::stdout();
    let mut out = std::io::BufWriter::new(stdout.lock());
    for line in stdin.lock().lines() {
        let line = line.unwrap();
        let mut it = line.split_whitespace();
        let name = match it.next() {
            Some(n) => n,
            None => {
                writeln!(out, "SKIP").unwrap();
                continue;
            }
        };
        let args = Args(it.map(parse_tok).collect());
        let r = catch_unwind(AssertUnwindSafe(|| run(name, &args)));
        match r {
            Ok(Some(s)) => writeln!(out, "{s}").unwrap(),
            Ok(None) => writeln!(out, "UNKNOWN").unwrap(),
            Err(_) => writeln!(out, "PANIC").unwrap(),
        }
    }
}
