use crate::epoch::{epoch, pep, ts};
use crate::float::f;
use crate::{pdur, Args};
use hifitime::{Duration, Epoch, TimeScale, Unit};

fn fb(x: f64) -> String {
    format!("{}", x.to_bits())
}
fn pd3(d: Duration) -> String {
    format!("{} {}", pdur(d), d.total_nanoseconds())
}

pub fn run(name: &str, a: &Args) -> Option<String> {
    Some(match name {
        "v_jde_tai_dur" => pdur(epoch(a, 0).to_jde_tai_duration()),
        "v_jde_utc_dur" => pdur(epoch(a, 0).to_jde_utc_duration()),
        "v_jde_tt_dur" => pdur(epoch(a, 0).to_jde_tt_duration()),
        "v_mjd_tt_dur" => pdur(epoch(a, 0).to_mjd_tt_duration()),
        "v_tt_j2k" => pdur(epoch(a, 0).to_tt_since_j2k()),
        "v_mjd_tai" => {
            let (e, u) = (epoch(a, 0), a.unit(3));
            let r = e.to_mjd_tai(u);
            match u {
                Unit::Day => assert!(r.to_bits() == e.to_mjd_tai_days().to_bits()),
                Unit::Second => assert!(r.to_bits() == e.to_mjd_tai_seconds().to_bits()),
                _ => {}
            }
            fb(r)
        }
        "v_mjd_utc" => {
            let (e, u) = (epoch(a, 0), a.unit(3));
            let r = e.to_mjd_utc(u);
            match u {
                Unit::Day => assert!(r.to_bits() == e.to_mjd_utc_days().to_bits()),
                Unit::Second => assert!(r.to_bits() == e.to_mjd_utc_seconds().to_bits()),
                _ => {}
            }
            fb(r)
        }
        "v_jde_tai" => {
            let (e, u) = (epoch(a, 0), a.unit(3));
            let r = e.to_jde_tai(u);
            match u {
                Unit::Day => assert!(r.to_bits() == e.to_jde_tai_days().to_bits()),
                Unit::Second => assert!(r.to_bits() == e.to_jde_tai_seconds().to_bits()),
                _ => {}
            }
            fb(r)
        }
        "v_jde_utc_days" => fb(epoch(a, 0).to_jde_utc_days()),
        "v_unix" => {
            let (e, u) = (epoch(a, 0), a.unit(3));
            let r = e.to_unix(u);
            match u {
                Unit::Day => assert!(r.to_bits() == e.to_unix_days().to_bits()),
                Unit::Second => assert!(r.to_bits() == e.to_unix_seconds().to_bits()),
                Unit::Millisecond => assert!(r.to_bits() == e.to_unix_milliseconds().to_bits()),
                _ => {}
            }
            fb(r)
        }
        "v_tt_cent" => fb(epoch(a, 0).to_tt_centuries_j2k()),
        "from_mjd" => {
            let (x, t) = (f(a.z(0)), ts(a.z(1)));
            let e = Epoch::from_mjd_in_time_scale(x, t);
            match t {
                TimeScale::TAI => assert!(e == Epoch::from_mjd_tai(x)),
                TimeScale::UTC => assert!(e == Epoch::from_mjd_utc(x)),
                TimeScale::GPST => assert!(e == Epoch::from_mjd_gpst(x)),
                _ => {}
            }
            assert!(e.time_scale == t);
            pd3(e.duration)
        }
        "from_jde" => {
            let (x, t) = (f(a.z(0)), ts(a.z(1)));
            let e = Epoch::from_jde_in_time_scale(x, t);
            match t {
                TimeScale::TAI => assert!(e == Epoch::from_jde_tai(x)),
                TimeScale::UTC => assert!(e == Epoch::from_jde_utc(x)),
                _ => {}
            }
            assert!(e.time_scale == t);
            pd3(e.duration)
        }
        "from_unix_s" => {
            let e = Epoch::from_unix_seconds(f(a.z(0)));
            assert!(e.time_scale == TimeScale::UTC);
            pd3(e.duration)
        }
        "from_unix_ms" => {
            let e = Epoch::from_unix_milliseconds(f(a.z(0)));
            assert!(e.time_scale == TimeScale::UTC);
            pd3(e.duration)
        }
        "from_unix_d" => pep(Epoch::from_unix_duration(a.dur(0))),
        "doy" => {
            let e = crate::epoch::epoch(a, 0);
            // year_days_of_year is the pair (year(), day_of_year()); the day of year is the time elapsed in the year, in days, plus one
            let (y, d) = e.year_days_of_year();
            assert!(y == e.year() && d.to_bits() == e.day_of_year().to_bits(), "year_days_of_year differs from (year, day_of_year)");
            assert!(e.day_of_year().to_bits() == (e.duration_in_year().to_unit(hifitime::Unit::Day) + 1.0).to_bits(), "day_of_year differs from duration_in_year in days + 1");
            format!("{}", e.day_of_year().to_bits())
        }
        "from_doy" => {
            let e = hifitime::Epoch::from_day_of_year(a.z(0) as i32, f64::from_bits(a.z(1) as u64), crate::epoch::ts(a.z(2)));
            format!("1 {} {}", e.duration.total_nanoseconds(), u8::from(e.time_scale))
        }
        "doy_rt" => {
            let e = hifitime::Epoch::from_day_of_year(a.z(0) as i32, f64::from_bits(a.z(1) as u64), crate::epoch::ts(a.z(2)));
            let (y, d) = e.year_days_of_year();
            format!("{} {}", y, d.to_bits())
        }
        _ => return None,
    })
}
