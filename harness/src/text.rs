use crate::epoch::{epoch, ts};
use crate::Args;
use hifitime::efmt::{consts, Format, Formatter};
use hifitime::ParsingError;
use std::str::FromStr;

pub fn s_of(v: &[i128]) -> String {
    v.iter().map(|c| char::from_u32(*c as u32).expect("not a scalar value")).collect()
}
pub fn ps(s: &str) -> String {
    let v: Vec<String> = s.chars().map(|c| (c as u32).to_string()).collect();
    format!("[{}]", v.join(","))
}
pub fn konst(k: i128) -> Format {
    match k {
        0 => consts::ISO8601,
        1 => consts::ISO8601_FLEX,
        2 => consts::RFC3339,
        3 => consts::RFC3339_FLEX,
        4 => consts::ISO8601_DATE,
        5 => consts::ISO8601_ORDINAL,
        6 => consts::RFC2822,
        7 => consts::RFC2822_LONG,
        _ => consts::ISO8601_STD,
    }
}
fn render(f: Formatter) -> String {
    use std::fmt::Write;
    let mut out = String::new();
    match write!(out, "{f}") {
        Ok(()) => ps(&out),
        Err(_) => "E1".to_string(),
    }
}

pub fn run(name: &str, a: &Args) -> Option<String> {
    Some(match name {
        "disp_dur" => ps(&format!("{}", a.dur(0))),
        "disp_epoch" => {
            let e = epoch(a, 0);
            let s = format!("{e}");
            assert!(s == e.to_gregorian_str(e.time_scale), "Display differs from to_gregorian_str in own scale");
            ps(&s)
        }
        "greg_str" => {
            let (e, t2) = (epoch(a, 0), ts(a.z(3)));
            let s = e.to_gregorian_str(t2);
            match t2 {
                hifitime::TimeScale::UTC => assert!(s == format!("{e:?}"), "{{:?}} differs from the UTC rendering"),
                hifitime::TimeScale::TAI => assert!(s == format!("{e:x}"), "{{:x}} differs from the TAI rendering"),
                hifitime::TimeScale::TT => assert!(s == format!("{e:X}"), "{{:X}} differs from the TT rendering"),
                _ => {}
            }
            ps(&s)
        }
        "rfc3339" => ps(&epoch(a, 0).to_rfc3339()),
        "fmt_debug" => match Format::from_str(&s_of(a.l(0))) {
            Ok(f) => ps(&format!("{f:?}")),
            Err(ParsingError::UnknownFormat) => "E1".to_string(),
            Err(ParsingError::UnknownToken { token }) => format!("E2 {}", token as u32),
            Err(_) => "E9".to_string(),
        },
        "fmt_const" => ps(&format!("{:?}", konst(a.z(0)))),
        "fmt_render" => {
            let e = epoch(a, 0);
            match Format::from_str(&s_of(a.l(6))) {
                Ok(f) => render(if a.z(5) == 0 { Formatter::new(e, f) } else { Formatter::with_timezone(e, a.dur(3), f) }),
                Err(_) => "E9".to_string(),
            }
        }
        "fmt_render_const" => {
            let e = epoch(a, 0);
            let f = konst(a.z(6));
            render(if a.z(5) == 0 { Formatter::new(e, f) } else { Formatter::with_timezone(e, a.dur(3), f) })
        }
        _ => return None,
    })
}
