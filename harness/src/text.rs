use crate::epoch::{epoch, ts};
use crate::Args;
use hifitime::efmt::{consts, Format, Formatter};
use hifitime::ParsingError;
use std::str::FromStr;

/// The same JSON string delivered the ways serde_json can deliver it: borrowed text, an owned Value,
/// a reader, and text whose non-ASCII characters are written as \u escapes.
fn serde_paths<T: serde::de::DeserializeOwned>(js: &str, same: impl Fn(&T, &T) -> bool) -> Result<T, ()> {
    let a: Result<T, _> = serde_json::from_str(js);
    let v: serde_json::Value = serde_json::from_str(js).expect("a JSON string");
    let b: Result<T, _> = serde_json::from_value(v);
    let c: Result<T, _> = serde_json::from_reader(js.as_bytes());
    let mut esc = String::new();
    for ch in js.chars() {
        if ch.is_ascii() {
            esc.push(ch);
        } else {
            let mut buf = [0u16; 2];
            for u in ch.encode_utf16(&mut buf) {
                esc.push_str(&format!("\\u{:04x}", u));
            }
        }
    }
    let d: Result<T, _> = serde_json::from_str(&esc);
    for (name, o) in [("from_value", &b), ("from_reader", &c), ("escaped text", &d)] {
        match (&a, o) {
            (Ok(x), Ok(y)) => assert!(same(x, y), "serde_json {name} gives another value than from_str"),
            (Err(_), Err(_)) => {}
            _ => panic!("serde_json {name} and from_str disagree on acceptance"),
        }
    }
    a.map_err(|_| ())
}

pub fn s_of(v: &[i128]) -> String {
    v.iter().map(|c| char::from_u32(*c as u32).expect("not a scalar value")).collect()
}
pub fn ps(s: &str) -> String {
    let v: Vec<String> = s.chars().map(|c| (c as u32).to_string()).collect();
    format!("[{}]", v.join(","))
}
pub fn konst(k: i128) -> Format {
    match k {
        0 => consts::ISO8601,
        1 => consts::ISO8601_FLEX,
        2 => consts::RFC3339,
        3 => consts::RFC3339_FLEX,
        4 => consts::ISO8601_DATE,
        5 => consts::ISO8601_ORDINAL,
        6 => consts::RFC2822,
        7 => consts::RFC2822_LONG,
        _ => consts::ISO8601_STD,
    }
}
fn render(f: Formatter) -> String {
    use std::fmt::Write;
    let mut out = String::new();
    match write!(out, "{f}") {
        Ok(()) => ps(&out),
        Err(_) => "E1".to_string(),
    }
}

pub fn pe_code(e: &ParsingError) -> u32 {
    match e {
        ParsingError::UnknownFormat => 1,
        ParsingError::ValueError => 2,
        ParsingError::TimeSystem => 3,
        ParsingError::ISO8601 => 4,
        ParsingError::Lexical { .. } => 5,
        ParsingError::UnsupportedTimeSystem => 7,
        ParsingError::NothingToParse => 9,
        ParsingError::UnknownOrMissingUnit => 10,
        ParsingError::InvalidTimezone => 11,
        ParsingError::UnknownWeekday => 12,
        ParsingError::UnknownMonthName => 13,
        ParsingError::UnexpectedCharacter { .. } => 14,
        ParsingError::WeekdayMismatch { .. } => 15,
        ParsingError::UnknownToken { .. } => 16,
        _ => 99,
    }
}
pub fn perr(r: Result<String, hifitime::HifitimeError>) -> String {
    match r {
        Ok(s) => s,
        Err(hifitime::HifitimeError::InvalidGregorianDate) => "E6".to_string(),
        Err(hifitime::HifitimeError::Duration { .. }) => "E8".to_string(),
        Err(hifitime::HifitimeError::Parse { source, .. }) => format!("E{}", pe_code(&source)),
        Err(_) => "E98".to_string(),
    }
}

pub fn run(name: &str, a: &Args) -> Option<String> {
    Some(match name {
        "disp_dur" => ps(&format!("{}", a.dur(0))),
        "disp_epoch" => {
            let e = epoch(a, 0);
            let s = format!("{e}");
            assert!(s == e.to_gregorian_str(e.time_scale), "Display differs from to_gregorian_str in own scale");
            ps(&s)
        }
        "greg_str" => {
            let (e, t2) = (epoch(a, 0), ts(a.z(3)));
            let s = e.to_gregorian_str(t2);
            match t2 {
                hifitime::TimeScale::UTC => assert!(s == format!("{e:?}"), "{{:?}} differs from the UTC rendering"),
                hifitime::TimeScale::TAI => assert!(s == format!("{e:x}"), "{{:x}} differs from the TAI rendering"),
                hifitime::TimeScale::TT => assert!(s == format!("{e:X}"), "{{:X}} differs from the TT rendering"),
                _ => {}
            }
            ps(&s)
        }
        "rfc3339" => ps(&epoch(a, 0).to_rfc3339()),
        "fmt_debug" => match Format::from_str(&s_of(a.l(0))) {
            Ok(f) => ps(&format!("{f:?}")),
            Err(ParsingError::UnknownFormat) => "E1".to_string(),
            Err(ParsingError::UnknownToken { token }) => format!("E2 {}", token as u32),
            Err(_) => "E9".to_string(),
        },
        "fmt_const" => ps(&format!("{:?}", konst(a.z(0)))),
        "fmt_render" => {
            let e = epoch(a, 0);
            match Format::from_str(&s_of(a.l(6))) {
                Ok(f) => render(if a.z(5) == 0 { Formatter::new(e, f) } else { Formatter::with_timezone(e, a.dur(3), f) }),
                Err(_) => "E9".to_string(),
            }
        }
        "p_reject" => perr(hifitime::Epoch::from_str(&s_of(a.l(0))).map(|e| format!("1 {}", crate::epoch::pep(e)))),
        "p_reject_fmt" => perr(hifitime::Epoch::from_format_str(&s_of(a.l(1)), &s_of(a.l(0))).map(|e| format!("1 {}", crate::epoch::pep(e)))),
        "p_dur_v" => perr(hifitime::Duration::from_str(&s_of(a.l(0))).map(|d| format!("1 {}", d.total_nanoseconds()))),
        "p_num" => {
            let form = match a.z(0) { 1 => "JD", 2 => "MJD", _ => "SEC" };
            let mut txt = format!("{form} {}{}", if a.z(1) == 1 { "-" } else { "" }, s_of(a.l(2)));
            if !a.l(3).is_empty() {
                txt.push('.');
                txt.push_str(&s_of(a.l(3)));
            }
            txt.push(' ');
            txt.push_str(&format!("{}", crate::epoch::ts(a.z(4))));
            perr(hifitime::Epoch::from_str(&txt).map(|e| format!("1 {} {}", e.duration.total_nanoseconds(), u8::from(e.time_scale))))
        }
        "iso_vs_display" => {
            let e = crate::epoch::epoch(a, 0);
            let x = format!("{}", Formatter::new(e, consts::ISO8601));
            // to_isoformat: the first 26 characters of the ISO8601_STD rendering (microsecond resolution)
            let std = format!("{}", Formatter::new(e, consts::ISO8601_STD));
            if std.len() >= 26 && std.is_char_boundary(26) {
                assert!(e.to_isoformat() == std[..26], "to_isoformat differs from the ISO8601_STD rendering cut at 26");
            }
            (if x == format!("{e}") { "1" } else { "0" }).to_string()
        }
        "fmt_render_const" => {
            let e = epoch(a, 0);
            let f = konst(a.z(6));
            render(if a.z(5) == 0 { Formatter::new(e, f) } else { Formatter::with_timezone(e, a.dur(3), f) })
        }
        "p_epoch" => perr(hifitime::Epoch::from_str(&s_of(a.l(0))).map(|e| format!("1 {}", crate::epoch::pep(e)))),
        "p_greg" => perr(hifitime::Epoch::from_gregorian_str(&s_of(a.l(0))).map(|e| format!("1 {}", crate::epoch::pep(e)))),
        "p_dur" => perr(hifitime::Duration::from_str(&s_of(a.l(0))).map(|d| format!("1 {}", crate::pdur(d)))),
        "p_ts" => match hifitime::TimeScale::from_str(&s_of(a.l(0))) {
            Ok(t) => format!("1 {}", u8::from(t)),
            Err(e) => format!("E{}", pe_code(&e)),
        },
        "p_wd" => match hifitime::Weekday::from_str(&s_of(a.l(0))) {
            Ok(w) => format!("1 {}", u8::from(w)),
            Err(e) => format!("E{}", pe_code(&e)),
        },
        "p_month" => match hifitime::MonthName::from_str(&s_of(a.l(0))) {
            Ok(m) => format!("1 {}", m as u8 + 1),
            Err(e) => format!("E{}", pe_code(&e)),
        },
        "rt_disp" => {
            let e = epoch(a, 0);
            let s = format!("{e}");
            let r = hifitime::Epoch::from_str(&s);
            // the serde form is the same string, quoted
            let js = serde_json::to_string(&e).expect("serialize");
            assert!(js == format!("\"{s}\""), "serde_json form differs from Display");
            let back: Result<hifitime::Epoch, ()> =
                serde_paths(&js, |x: &hifitime::Epoch, y: &hifitime::Epoch| x.duration.to_parts() == y.duration.to_parts() && x.time_scale == y.time_scale);
            match (&r, &back) {
                (Ok(x), Ok(y)) => assert!(x.duration.to_parts() == y.duration.to_parts() && x.time_scale == y.time_scale),
                (Err(_), Err(_)) => {}
                _ => panic!("serde_json and from_str disagree"),
            }
            // the Gregorian string in its own scale parses the same way
            let r2 = hifitime::Epoch::from_gregorian_str(&e.to_gregorian_str(e.time_scale));
            match (&r, &r2) {
                (Ok(x), Ok(y)) => assert!(x.duration.to_parts() == y.duration.to_parts() && x.time_scale == y.time_scale),
                (Err(_), Err(_)) => {}
                _ => panic!("from_gregorian_str and from_str disagree"),
            }
            perr(r.map(|e| format!("1 {}", crate::epoch::pep(e))))
        }
        "rt_rfc3339" => {
            let e = hifitime::Epoch::from_duration(a.dur(0), hifitime::TimeScale::UTC);
            perr(hifitime::Epoch::from_str(&e.to_rfc3339()).map(|e| format!("1 {}", crate::epoch::pep(e))))
        }
        "rt_iso" => {
            let e = epoch(a, 0);
            let s = format!("{}", Formatter::new(e, consts::ISO8601));
            perr(hifitime::Epoch::from_str(&s).map(|e| format!("1 {}", crate::epoch::pep(e))))
        }
        "rt_dur" => {
            let d = a.dur(0);
            let s = format!("{d}");
            let r = hifitime::Duration::from_str(&s);
            let js = serde_json::to_string(&d).expect("serialize");
            assert!(js == format!("\"{s}\""), "serde_json form differs from Display");
            let back: Result<hifitime::Duration, ()> = serde_paths(&js, |x: &hifitime::Duration, y: &hifitime::Duration| x.to_parts() == y.to_parts());
            match (&r, &back) {
                (Ok(x), Ok(y)) => assert!(x.to_parts() == y.to_parts()),
                (Err(_), Err(_)) => {}
                _ => panic!("serde_json and from_str disagree"),
            }
            perr(r.map(|d| format!("1 {}", crate::pdur(d))))
        }
        "iso_parse" => {
            let z = |i: usize| a.z(i);
            let mut s = format!("{:04}-{:02}-{:02}{}{:02}:{:02}:{:02}", z(0), z(1), z(2), if z(12) == 0 { 'T' } else { ' ' }, z(3), z(4), z(5));
            if z(7) > 0 {
                s.push_str(&format!(".{:0width$}", z(6), width = z(7) as usize));
            }
            match z(8) {
                1 => s.push('Z'),
                2 => s.push_str(&format!("+{:02}:{:02}", z(9), z(10))),
                3 => s.push_str(&format!("-{:02}:{:02}", z(9), z(10))),
                _ => {}
            }
            if z(11) != 99 {
                s.push_str(&format!(" {}", ts(z(11))));
            }
            perr(hifitime::Epoch::from_str(&s).map(|e| format!("1 {}", crate::epoch::pep(e))))
        }
        "p_fmt" => {
            let r = hifitime::Epoch::from_format_str(&s_of(a.l(1)), &s_of(a.l(0)));
            if let Ok(f) = Format::from_str(&s_of(a.l(0))) {
                // from_str_with_format is the same parser given the Format value
                let r2 = hifitime::Epoch::from_str_with_format(&s_of(a.l(1)), f);
                assert!(r.is_ok() == r2.is_ok());
            }
            perr(r.map(|e| format!("1 {}", crate::epoch::pep(e))))
        }
        "p_fmt_const" => perr(konst(a.z(0)).parse(&s_of(a.l(1))).map(|e| format!("1 {}", crate::epoch::pep(e)))),
        "rt_fmt" => {
            let e = hifitime::Epoch::from_duration(a.dur(0), hifitime::TimeScale::UTC);
            match Format::from_str(&s_of(a.l(2))) {
                Ok(f) => {
                    let s = format!("{}", Formatter::new(e, f));
                    perr(f.parse(&s).map(|e| format!("1 {}", crate::epoch::pep(e))))
                }
                Err(_) => "*".to_string(),
            }
        }
        "rt_fmt_const" => {
            let e = hifitime::Epoch::from_duration(a.dur(0), hifitime::TimeScale::UTC);
            let f = konst(a.z(2));
            let s = format!("{}", Formatter::new(e, f));
            perr(f.parse(&s).map(|e| format!("1 {}", crate::epoch::pep(e))))
        }
        "lex_i32" => match lexical_core::parse::<i32>(s_of(a.l(0)).as_bytes()) {
            Ok(v) => format!("1 {v}"),
            Err(_) => "0".to_string(),
        },
        "lex_i64" => match lexical_core::parse::<i64>(s_of(a.l(0)).as_bytes()) {
            Ok(v) => format!("1 {v}"),
            Err(_) => "0".to_string(),
        },
        "lex_u64" => match lexical_core::parse::<u64>(s_of(a.l(0)).as_bytes()) {
            Ok(v) => format!("1 {v}"),
            Err(_) => "0".to_string(),
        },
        "lex_f64" => match lexical_core::parse::<f64>(s_of(a.l(0)).as_bytes()) {
            Ok(v) => format!("1 {}", if v.is_nan() { 0x7ff8000000000000u64 } else { v.to_bits() }),
            Err(_) => "0".to_string(),
        },
        "std_i32" => match s_of(a.l(0)).parse::<i32>() {
            Ok(v) => format!("1 {v}"),
            Err(_) => "0".to_string(),
        },
        "uni_class" => {
            let c = char::from_u32(a.z(0) as u32).expect("scalar");
            format!("{} {} {}", c.is_numeric() as u8, c.is_whitespace() as u8, c.is_ascii_alphabetic() as u8)
        }
        _ => return None,
    })
}
