use crate::dur::ord;
use crate::{pdur, Args};
use hifitime::{Duration, Epoch, TimeScale, TimeSeries, Unit, Weekday};

pub fn ts(z: i128) -> TimeScale {
    TimeScale::from(if (0..=255).contains(&z) { z as u8 } else { 0 })
}
pub fn epoch(a: &Args, i: usize) -> Epoch {
    Epoch::from_duration(a.dur(i), ts(a.z(i + 2)))
}
pub fn pep(e: Epoch) -> String {
    format!("{} {}", pdur(e.duration), u8::from(e.time_scale))
}
fn b(x: bool) -> String {
    (if x { "1" } else { "0" }).to_string()
}
fn wd(z: i128) -> Weekday {
    Weekday::from((z.rem_euclid(7)) as u8)
}

/// The built-in leap-second table read every way an iterator can be read: the same entries in the same order, 28 of them
/// announced by IERS with offsets 10, 11, ..., 37 s at strictly increasing instants, the others (SOFA) all before them.
fn builtin_table_walks() {
    use hifitime::leap_seconds::{LatestLeapSeconds, LeapSecond};
    let v: Vec<LeapSecond> = LatestLeapSeconds::default().collect();
    let t = LatestLeapSeconds::default();
    let mut k = 0;
    for ls in LatestLeapSeconds::default() {
        assert!(k < v.len() && ls == v[k] && t[k] == v[k], "for loop / index and collect disagree on the built-in table");
        k += 1;
    }
    assert!(k == v.len());
    let mut back: Vec<LeapSecond> = LatestLeapSeconds::default().rev().collect();
    back.reverse();
    assert!(back == v, "rev() walks other entries than the forward iteration");
    for k in 0..=v.len() + 1 {
        assert!(LatestLeapSeconds::default().skip(k).next() == v.get(k).copied(), "skip() disagrees with next()");
        let mut it = LatestLeapSeconds::default();
        assert!(it.nth(k) == v.get(k).copied() && it.next() == v.get(k + 1).copied(), "nth() disagrees with next()");
        let rest: Vec<LeapSecond> = LatestLeapSeconds::default().skip(k).collect();
        assert!(rest.len() == v.len().saturating_sub(k) && rest.iter().zip(v.iter().skip(k)).all(|(x, y)| x == y));
    }
    let every_other: Vec<LeapSecond> = LatestLeapSeconds::default().step_by(2).collect();
    assert!(every_other.len() == (v.len() + 1) / 2 && every_other.iter().enumerate().all(|(i, x)| *x == v[2 * i]), "step_by(2) disagrees with next()");
    assert!(LatestLeapSeconds::default().count() == v.len() && LatestLeapSeconds::default().last() == v.last().copied());
    let iers: Vec<&LeapSecond> = v.iter().filter(|l| l.announced_by_iers).collect();
    assert!(iers.len() == 28 && iers.iter().enumerate().all(|(i, l)| l.delta_at == (10 + i) as f64), "the announced entries are not 10 s .. 37 s");
    assert!(iers.windows(2).all(|w| w[0].timestamp_tai_s < w[1].timestamp_tai_s));
    assert!(v.iter().filter(|l| !l.announced_by_iers).all(|l| l.timestamp_tai_s < iers[0].timestamp_tai_s && l.delta_at < 10.0));
}

pub fn run(name: &str, a: &Args) -> Option<String> {
    Some(match name {
        "conv" => {
            let e = epoch(a, 0);
            let t = ts(a.z(3));
            let r = e.to_time_scale(t);
            assert!(r.duration == e.to_duration_in_time_scale(t));
            // the from_*_duration constructors are from_duration with the scale fixed; reference_epoch is the zero of the scale
            let same = |x: Epoch| x.duration == e.duration && x.time_scale == e.time_scale;
            match e.time_scale {
                TimeScale::TAI => assert!(same(Epoch::from_tai_duration(e.duration))),
                TimeScale::TT => assert!(same(Epoch::from_tt_duration(e.duration))),
                TimeScale::UTC => assert!(same(Epoch::from_utc_duration(e.duration))),
                TimeScale::GPST => assert!(same(Epoch::from_gpst_duration(e.duration))),
                TimeScale::QZSST => assert!(same(Epoch::from_qzsst_duration(e.duration))),
                TimeScale::GST => assert!(same(Epoch::from_gst_duration(e.duration))),
                TimeScale::BDT => assert!(same(Epoch::from_bdt_duration(e.duration))),
                _ => {}
            }
            assert!(t.reference_epoch().duration == Duration::ZERO && t.reference_epoch().time_scale == t);
            match t {
                TimeScale::TAI => assert!(r.duration == e.to_tai_duration()),
                TimeScale::TT => assert!(r.duration == e.to_tt_duration()),
                TimeScale::UTC => assert!(r.duration == e.to_utc_duration()),
                TimeScale::GPST => assert!(r.duration == e.to_gpst_duration()),
                TimeScale::GST => assert!(r.duration == e.to_gst_duration()),
                TimeScale::QZSST => assert!(r.duration == e.to_qzsst_duration()),
                _ => {}
            }
            pep(r)
        }
        "eadd" => {
            let r = epoch(a, 0) + a.dur(3);
            let mut r2 = epoch(a, 0);
            r2 += a.dur(3);
            assert!(r.duration.to_parts() == r2.duration.to_parts() && r.time_scale == r2.time_scale);
            pep(r)
        }
        "esub" => {
            let r = epoch(a, 0) - a.dur(3);
            let mut r2 = epoch(a, 0);
            r2 -= a.dur(3);
            assert!(r.duration.to_parts() == r2.duration.to_parts() && r.time_scale == r2.time_scale);
            pep(r)
        }
        "eadd_unit" => {
            let r = epoch(a, 0) + a.unit(3);
            let mut r2 = epoch(a, 0);
            r2 += a.unit(3);
            assert!(r.duration.to_parts() == r2.duration.to_parts());
            pep(r)
        }
        "esub_unit" => {
            let r = epoch(a, 0) - a.unit(3);
            let mut r2 = epoch(a, 0);
            r2 -= a.unit(3);
            assert!(r.duration.to_parts() == r2.duration.to_parts());
            pep(r)
        }
        "ediff" => pdur(epoch(a, 0) - epoch(a, 3)),
        "ecmp" => {
            let (x, y) = (epoch(a, 0), epoch(a, 3));
            let o = x.cmp(&y);
            assert!(x.partial_cmp(&y) == Some(o));
            assert!((x < y) == (o == std::cmp::Ordering::Less) && (x > y) == (o == std::cmp::Ordering::Greater));
            assert!((x == y) == (o == std::cmp::Ordering::Equal), "== disagrees with cmp");
            assert!((x <= y) == (o != std::cmp::Ordering::Greater) && (x >= y) == (o != std::cmp::Ordering::Less), "<= / >= disagree with cmp");
            assert!(y.cmp(&x) == o.reverse(), "cmp is not antisymmetric");
            // what the standard library builds on the comparison: sorting, clamp, iterator min / max
            let mut v = [x, y];
            v.sort();
            assert!(
                v[0].cmp(&v[1]) != std::cmp::Ordering::Greater
                    && match o {
                        std::cmp::Ordering::Less => v[0] == x && v[1] == y,
                        std::cmp::Ordering::Greater => v[0] == y && v[1] == x,
                        std::cmp::Ordering::Equal => true,
                    },
                "sort() disagrees with cmp"
            );
            let mut w = [y, x];
            w.sort_by(|p, q| p.partial_cmp(q).expect("a total order"));
            assert!(w[0] == v[0] && w[1] == v[1], "sort_by(partial_cmp) disagrees with sort()");
            assert!(x.clamp(v[0], v[1]) == x && y.clamp(v[0], v[1]) == y, "clamp moves a value inside its bounds");
            assert!([x, y].iter().min().map(|e| *e == v[0]) == Some(true) && [x, y].iter().max().map(|e| *e == v[1]) == Some(true));
            ord(o)
        }
        "eeq" => {
            let (x, y) = (epoch(a, 0), epoch(a, 3));
            assert!((x == y) != (x != y));
            b(x == y)
        }
        "emin" => {
            let (x, y) = (epoch(a, 0), epoch(a, 3));
            // Ord::min (by value) is what method syntax resolves to; Epoch::min is the inherent one
            assert!(Ord::min(x, y) == Epoch::min(&x, y));
            pep(Epoch::min(&x, y))
        }
        "emax" => {
            let (x, y) = (epoch(a, 0), epoch(a, 3));
            assert!(Ord::max(x, y) == Epoch::max(&x, y));
            pep(Epoch::max(&x, y))
        }
        "leap" => {
            builtin_table_walks();
            let e = epoch(a, 0);
            let n = e.leap_seconds_iers();
            // the f64 accessor restricted to the announced entries is the same number
            assert!(e.leap_seconds(true).unwrap_or(0.0) == f64::from(n));
            // with the SOFA entries allowed as well: they all precede 1972, so from the first announced entry on they change nothing,
            // and before it they give either nothing (before 1960) or one of their own sub-ten-second values
            let all = e.leap_seconds(false);
            if n > 0 {
                assert!(all == e.leap_seconds(true), "the SOFA entries influence the offset after 1972");
            } else {
                assert!(all.map_or(true, |x| x > 0.0 && x < 10.0));
            }
            format!("{n}")
        }
        "tow_build" => pep(Epoch::from_time_of_week(a.z(0) as u32, a.z(1) as u64, ts(a.z(2)))),
        "tow_split" => {
            let (w, n) = epoch(a, 0).to_time_of_week();
            format!("{w} {n}")
        }
        "from_ns" => {
            let n = a.z(0) as u64;
            pep(match ts(a.z(1)) {
                TimeScale::GPST => Epoch::from_gpst_nanoseconds(n),
                TimeScale::QZSST => Epoch::from_qzsst_nanoseconds(n),
                TimeScale::GST => Epoch::from_gst_nanoseconds(n),
                TimeScale::BDT => Epoch::from_bdt_nanoseconds(n),
                t => Epoch::from_duration(Duration::from_parts(0, n), t),
            })
        }
        "to_ns" => {
            let e = epoch(a, 0);
            let r = match ts(a.z(3)) {
                TimeScale::GPST => e.to_gpst_nanoseconds(),
                TimeScale::QZSST => e.to_qzsst_nanoseconds(),
                TimeScale::GST => e.to_gst_nanoseconds(),
                TimeScale::BDT => e.to_bdt_nanoseconds(),
                t => {
                    // same logic through the public API
                    let (c, n) = e.to_duration_in_time_scale(t).to_parts();
                    if c != 0 {
                        return Some("0".to_string());
                    } else {
                        Ok(n)
                    }
                }
            };
            match r {
                Ok(n) => format!("1 {n}"),
                Err(_) => "0".to_string(),
            }
        }
        "to_bdt" => pdur(epoch(a, 0).to_bdt_duration()),
        "efloor" => pep(epoch(a, 0).floor(a.dur(3))),
        "eceil" => pep(epoch(a, 0).ceil(a.dur(3))),
        "eround" => pep(epoch(a, 0).round(a.dur(3))),
        "tseries" => {
            let (s, e, step) = (epoch(a, 0), epoch(a, 3), a.dur(6));
            let mut it = if a.z(8) != 0 {
                TimeSeries::inclusive(s, e, step)
            } else {
                TimeSeries::exclusive(s, e, step)
            };
            let whole = it.clone();
            let mut out = Vec::new();
            let mut items = Vec::new();
            let mut ended = false;
            for _ in 0..a.z(9) {
                match it.next() {
                    Some(x) => {
                        assert!(!ended, "an item after the series had ended");
                        items.push(x);
                        out.push(format!("1 {}", pep(x)))
                    }
                    None => {
                        ended = true;
                        out.push("0".to_string())
                    }
                }
            }
            // a for loop and collect see the same items as repeated next()
            let same = |x: &Epoch, y: &Epoch| x.duration.to_parts() == y.duration.to_parts() && x.time_scale == y.time_scale;
            let mut k = 0;
            for x in whole.clone().take(items.len() + 1) {
                assert!(k < items.len() || !ended, "the for loop yields more items than next()");
                if k < items.len() {
                    assert!(same(&x, &items[k]), "the for loop and next() disagree");
                }
                k += 1;
            }
            assert!(k >= items.len());
            if ended {
                // the other ways of consuming the iterator (nth, skip, step_by, last, count) see the same sequence
                for k in [0, 1, items.len().saturating_sub(1), items.len(), items.len() + 1] {
                    let got = whole.clone().nth(k);
                    assert!(got.is_some() == (k < items.len()) && got.map_or(true, |x| same(&x, &items[k])), "nth() and next() disagree");
                    let got = whole.clone().skip(k).next();
                    assert!(got.is_some() == (k < items.len()) && got.map_or(true, |x| same(&x, &items[k])), "skip() and next() disagree");
                }
                let every_other: Vec<Epoch> = whole.clone().step_by(2).collect();
                assert!(every_other.len() == (items.len() + 1) / 2 && every_other.iter().enumerate().all(|(i, x)| same(x, &items[2 * i])), "step_by(2) and next() disagree");
                assert!(whole.clone().count() == items.len(), "count() and next() disagree");
                let last = whole.clone().last();
                assert!(last.is_some() == !items.is_empty() && last.map_or(true, |x| same(&x, &items[items.len() - 1])), "last() and next() disagree");
                let v: Vec<Epoch> = whole.collect();
                assert!(v.len() == items.len() && v.iter().zip(items.iter()).all(|(x, y)| same(x, y)), "collect() and next() disagree");
            }
            out.join(" ")
        }
        "is_valid" => b(hifitime::is_gregorian_valid(
            a.z(0) as i32,
            a.z(1) as u8,
            a.z(2) as u8,
            a.z(3) as u8,
            a.z(4) as u8,
            a.z(5) as u8,
            a.z(6) as u32,
        )),
        "from_greg" => {
            let t = ts(a.z(7));
            match Epoch::maybe_from_gregorian(
                a.z(0) as i32,
                a.z(1) as u8,
                a.z(2) as u8,
                a.z(3) as u8,
                a.z(4) as u8,
                a.z(5) as u8,
                a.z(6) as u32,
                t,
            ) {
                Ok(e) => {
                    // every other Gregorian constructor is this one with some arguments fixed
                    let (y, mo, d, h, mi, sec, ns) = (a.z(0) as i32, a.z(1) as u8, a.z(2) as u8, a.z(3) as u8, a.z(4) as u8, a.z(5) as u8, a.z(6) as u32);
                    let same = |x: Epoch| x.duration == e.duration && x.time_scale == e.time_scale;
                    assert!(same(Epoch::from_gregorian(y, mo, d, h, mi, sec, ns, t)));
                    if ns == 0 {
                        assert!(same(Epoch::from_gregorian_hms(y, mo, d, h, mi, sec, t)));
                        if (h, mi, sec) == (0, 0, 0) {
                            assert!(same(Epoch::from_gregorian_at_midnight(y, mo, d, t)));
                        }
                        if (h, mi, sec) == (12, 0, 0) {
                            assert!(same(Epoch::from_gregorian_at_noon(y, mo, d, t)));
                        }
                    }
                    match t {
                        TimeScale::UTC => {
                            assert!(same(Epoch::maybe_from_gregorian_utc(y, mo, d, h, mi, sec, ns).unwrap()));
                            assert!(same(Epoch::from_gregorian_utc(y, mo, d, h, mi, sec, ns)));
                            if ns == 0 {
                                assert!(same(Epoch::from_gregorian_utc_hms(y, mo, d, h, mi, sec)));
                                if (h, mi, sec) == (0, 0, 0) {
                                    assert!(same(Epoch::from_gregorian_utc_at_midnight(y, mo, d)));
                                }
                                if (h, mi, sec) == (12, 0, 0) {
                                    assert!(same(Epoch::from_gregorian_utc_at_noon(y, mo, d)));
                                }
                            }
                        }
                        TimeScale::TAI => {
                            assert!(same(Epoch::maybe_from_gregorian_tai(y, mo, d, h, mi, sec, ns).unwrap()));
                            assert!(same(Epoch::from_gregorian_tai(y, mo, d, h, mi, sec, ns)));
                            if ns == 0 {
                                assert!(same(Epoch::from_gregorian_tai_hms(y, mo, d, h, mi, sec)));
                                if (h, mi, sec) == (0, 0, 0) {
                                    assert!(same(Epoch::from_gregorian_tai_at_midnight(y, mo, d)));
                                }
                                if (h, mi, sec) == (12, 0, 0) {
                                    assert!(same(Epoch::from_gregorian_tai_at_noon(y, mo, d)));
                                }
                            }
                        }
                        _ => {}
                    }
                    // the fields of an epoch built from valid fields are those fields (an inserted second reads back as :59)
                    if sec < 60 && !(mo == 2 && d > 29) && h < 24 && ns < 1_000_000_000 {
                        let f = greg_fields(e);
                        assert!(f == (y as i64, mo, d, h, mi, sec, ns), "fields read back differ from the fields given");
                    }
                    format!("1 {}", pep(e))
                }
                Err(hifitime::HifitimeError::InvalidGregorianDate) => "E1".to_string(),
                Err(hifitime::HifitimeError::Duration { source: hifitime::DurationError::Underflow }) => "E2".to_string(),
                Err(hifitime::HifitimeError::Duration { source: hifitime::DurationError::Overflow }) => "E3".to_string(),
                Err(_) => "E9".to_string(),
            }
        }
        "to_greg" => {
            let e = epoch(a, 0);
            // compute_gregorian is private: observe it through to_gregorian_str in the epoch's own scale and the accessors
            let (y, m, d, h, mi, s, ns) = greg_fields(e);
            // the fields, used to build an epoch in the same scale, give back the identical epoch
            // (only within 3 000 000 years of 1900, the range the model's closed-form day count covers: "*" beyond)
            let back = if (y - 1900).abs() > 3_000_000 {
                "*".to_string()
            } else {
                match Epoch::maybe_from_gregorian(y as i32, m, d, h, mi, s, ns, e.time_scale) {
                    Ok(b) => format!("1 {}", pep(b)),
                    Err(_) => "0".to_string(),
                }
            };
            format!("{y} {m} {d} {h} {mi} {s} {ns} {back}")
        }
        "weekday" => format!("{}", u8::from(epoch(a, 0).weekday())),
        "weekday_utc" => format!("{}", u8::from(epoch(a, 0).weekday_utc())),
        "next" => pep(epoch(a, 0).next(wd(a.z(3)))),
        "prev" => pep(epoch(a, 0).previous(wd(a.z(3)))),
        "next_at" => {
            let (e, w) = (epoch(a, 0), wd(a.z(3)));
            pep(if a.z(4) == 0 { e.next_weekday_at_midnight(w) } else { e.next_weekday_at_noon(w) })
        }
        "prev_at" => {
            let (e, w) = (epoch(a, 0), wd(a.z(3)));
            pep(if a.z(4) == 0 { e.previous_weekday_at_midnight(w) } else { e.previous_weekday_at_noon(w) })
        }
        "with_hms" => pep(epoch(a, 0).with_hms_strict(a.z(3) as u64, a.z(4) as u64, a.z(5) as u64)),
        "accessors" => {
            let e = epoch(a, 0);
            let (y, doy) = e.year_days_of_year();
            assert!(y == e.year() && doy.to_bits() == e.day_of_year().to_bits());
            format!("{} {} {} {} {} {} {} {}", e.year(), (e.month_name() as u8), e.hours(), e.minutes(), e.seconds(),
                    e.milliseconds(), e.microseconds(), e.nanoseconds())
        }
        "eadd_f64" => {
            let x = f64::from_bits(a.z(3) as u64);
            let r = epoch(a, 0) + x;
            pep(r)
        }
        "wd_from_u8" => format!("{}", u8::from(Weekday::from(a.z(0) as u8))),
        "wd_from_i8" => format!("{}", u8::from(Weekday::from(a.z(0) as i8))),
        "wd_add" => format!("{}", u8::from(wd(a.z(0)) + wd(a.z(1)))),
        "wd_add_u8" => {
            let r = wd(a.z(0)) + (a.z(1) as u8);
            let mut r2 = wd(a.z(0));
            r2 += a.z(1) as u8;
            assert!(r == r2);
            format!("{}", u8::from(r))
        }
        "wd_sub_u8" => {
            let r = wd(a.z(0)) - (a.z(1) as u8);
            let mut r2 = wd(a.z(0));
            r2 -= a.z(1) as u8;
            assert!(r == r2);
            format!("{}", u8::from(r))
        }
        "wd_diff" => pdur(wd(a.z(0)) - wd(a.z(1))),
        _ => return None,
    })
}

/// Gregorian fields of an epoch in its own time scale, read back from the rendered string
/// (compute_gregorian itself is crate-private); cross-checked with to_gregorian_utc/tai where they apply.
pub fn greg_fields(e: Epoch) -> (i64, u8, u8, u8, u8, u8, u32) {
    let s = e.to_gregorian_str(e.time_scale);
    // [-]YYYY-MM-DDTHH:MM:SS[.fffffffff] TS
    let (date, rest) = s.split_at(s.find('T').expect("no T"));
    let neg = date.starts_with('-');
    let date = date.trim_start_matches('-');
    let mut dp = date.split('-');
    let y: i64 = dp.next().unwrap().parse().unwrap();
    let m: u8 = dp.next().unwrap().parse().unwrap();
    let d: u8 = dp.next().unwrap().parse().unwrap();
    let time = rest[1..].split(' ').next().unwrap();
    let (hms, frac) = match time.split_once('.') {
        Some((x, f)) => (x, f.parse::<u32>().unwrap()),
        None => (time, 0),
    };
    let mut tp = hms.split(':');
    let h: u8 = tp.next().unwrap().parse().unwrap();
    let mi: u8 = tp.next().unwrap().parse().unwrap();
    let sec: u8 = tp.next().unwrap().parse().unwrap();
    let y = if neg { -y } else { y };
    match e.time_scale {
        TimeScale::UTC => assert!(e.to_gregorian_utc() == (y as i32, m, d, h, mi, sec, frac)),
        TimeScale::TAI => assert!(e.to_gregorian_tai() == (y as i32, m, d, h, mi, sec, frac)),
        _ => {}
    }
    assert!(e.year() as i64 == y, "year() disagrees with the rendered year");
    let _ = Unit::Day;
    (y, m, d, h, mi, sec, frac)
}
