use crate::{pdur, Args};
use hifitime::{Duration, TimeUnits, Unit};

pub fn f(bits: i128) -> f64 {
    f64::from_bits(bits as u64)
}
fn pd3(d: Duration) -> String {
    format!("{} {}", pdur(d), d.total_nanoseconds())
}

pub fn run(name: &str, a: &Args) -> Option<String> {
    Some(match name {
        "unit_mul_f64" => {
            let (u, q) = (a.unit(0), f(a.z(1)));
            let r = u * q;
            let r2 = q * u;
            assert!(r.to_parts() == r2.to_parts(), "f64 * Unit differs from Unit * f64");
            let r3 = match u {
                Unit::Nanosecond => q.nanoseconds(),
                Unit::Microsecond => q.microseconds(),
                Unit::Millisecond => q.milliseconds(),
                Unit::Second => q.seconds(),
                Unit::Minute => q.minutes(),
                Unit::Hour => q.hours(),
                Unit::Day => q.days(),
                Unit::Week => q.weeks(),
                Unit::Century => q.centuries(),
            };
            assert!(r.to_parts() == r3.to_parts(), "TimeUnits method differs from Unit * f64");
            match u {
                Unit::Second => assert!(Duration::from_seconds(q).to_parts() == r.to_parts()),
                Unit::Day => assert!(Duration::from_days(q).to_parts() == r.to_parts()),
                Unit::Hour => assert!(Duration::from_hours(q).to_parts() == r.to_parts()),
                Unit::Millisecond => assert!(Duration::from_milliseconds(q).to_parts() == r.to_parts()),
                Unit::Microsecond => assert!(Duration::from_microseconds(q).to_parts() == r.to_parts()),
                Unit::Nanosecond => assert!(Duration::from_nanoseconds(q).to_parts() == r.to_parts()),
                _ => {}
            }
            pd3(r)
        }
        "dur_mul_f64" => {
            let (d, q) = (a.dur(0), f(a.z(2)));
            let r = d * q;
            let r2 = q * d;
            assert!(r.to_parts() == r2.to_parts(), "f64 * Duration differs from Duration * f64");
            pd3(r)
        }
        "to_seconds" => format!("{}", a.dur(0).to_seconds().to_bits()),
        "to_unit" => format!("{}", a.dur(0).to_unit(a.unit(2)).to_bits()),
        _ => return None,
    })
}
