use crate::epoch::{epoch, ts};
use crate::Args;
use hifitime::{Epoch, TimeScale};

fn total(e: Epoch) -> String {
    format!("{}", e.duration.total_nanoseconds())
}

pub fn run(name: &str, a: &Args) -> Option<String> {
    Some(match name {
        // one conversion where the source or the target is ET / TDB; prints the total nanoseconds
        "convf" => {
            let e = epoch(a, 0);
            let t = ts(a.z(3));
            let r = e.to_time_scale(t);
            assert!(r.time_scale == t);
            match t {
                TimeScale::ET => assert!(r.duration == e.to_et_duration()),
                TimeScale::TDB => assert!(r.duration == e.to_tdb_duration()),
                TimeScale::TAI => assert!(r.duration == e.to_tai_duration()),
                _ => {}
            }
            match e.time_scale {
                TimeScale::ET => assert!(Epoch::from_et_duration(e.duration) == e),
                TimeScale::TDB => assert!(Epoch::from_tdb_duration(e.duration) == e),
                _ => {}
            }
            total(r)
        }
        // there and back
        "rtf" => {
            let e = epoch(a, 0);
            let t = ts(a.z(3));
            total(e.to_time_scale(t).to_time_scale(e.time_scale))
        }
        // order of two converted instants: -1 / 0 / 1 on the converted durations
        "ordf" => {
            let t1 = ts(a.z(4));
            let t2 = ts(a.z(5));
            let x = Epoch::from_duration(a.dur(0), t1).to_time_scale(t2);
            let y = Epoch::from_duration(a.dur(2), t1).to_time_scale(t2);
            format!("{}", match x.duration.cmp(&y.duration) { core::cmp::Ordering::Less => -1, core::cmp::Ordering::Equal => 0, core::cmp::Ordering::Greater => 1 })
        }
        // Ord on epochs of which at least one is in ET / TDB
        "ecmpf" => {
            let (x, y) = (epoch(a, 0), epoch(a, 3));
            let c = x.cmp(&y);
            assert!((c == core::cmp::Ordering::Equal) == (x == y));
            assert!(y.cmp(&x) == c.reverse());
            format!("{}", match c { core::cmp::Ordering::Less => -1, core::cmp::Ordering::Equal => 0, core::cmp::Ordering::Greater => 1 })
        }
        _ => return None,
    })
}
