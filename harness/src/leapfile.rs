use crate::text::perr;
use crate::Args;
use hifitime::prelude::*;
use hifitime::leap_seconds::LeapSecondsFile;
use hifitime::Epoch;
use std::io::Write;

fn content(a: &Args, i: usize) -> String {
    a.l(i).iter().map(|c| char::from_u32(*c as u32).unwrap_or('\u{fffd}')).collect()
}
/// LeapSecondsFile only reads from a path: the case's content is written to a scratch file first
fn load(text: &str) -> Result<LeapSecondsFile, hifitime::HifitimeError> {
    let p = std::env::temp_dir().join(format!("hf-leapfile-{}-{:?}.list", std::process::id(), std::thread::current().id()));
    {
        let mut f = std::fs::File::create(&p).expect("scratch file");
        f.write_all(text.as_bytes()).expect("scratch write");
    }
    let r = LeapSecondsFile::from_path(&p);
    let _ = std::fs::remove_file(&p);
    r
}

pub fn run(name: &str, a: &Args) -> Option<String> {
    Some(match name {
        // parse: "1 [ts,delta,ts,delta,...]" or E<k>
        "leapfile" | "leapfile_iers" => perr(load(&content(a, 0)).map(|f| {
            let mut v = Vec::new();
            for ls in f {
                assert!(ls.announced_by_iers);
                v.push(format!("{}", ls.timestamp_tai_s as u128));
                v.push(format!("{}", ls.delta_at as u128));
            }
            format!("1 [{}]", v.join(","))
        })),
        // lookup through the parsed file for a TAI epoch: "1 delta" / "0" (no entry) or E<k>
        "leapfile_lookup" => perr(load(&content(a, 0)).map(|f| {
            let e = Epoch::from_tai_duration(a.dur(1));
            // every entry of a file is an announced one: the flag changes nothing
            let f2 = load(&content(a, 0)).expect("loaded once already");
            assert!(e.leap_seconds_with(false, f2) == e.leap_seconds_with(true, load(&content(a, 0)).expect("loaded once already")));
            match e.leap_seconds_with(true, f) {
                Some(d) => format!("1 {}", d as i128),
                None => "0".to_string(),
            }
        })),
        _ => return None,
    })
}
