use crate::{pdur, Args};
use hifitime::{Duration, Unit};
use std::cmp::Ordering;

fn b(x: bool) -> String {
    (if x { "1" } else { "0" }).to_string()
}
pub fn ord(o: Ordering) -> String {
    match o {
        Ordering::Less => "-1",
        Ordering::Equal => "0",
        Ordering::Greater => "1",
    }
    .to_string()
}

/// The same duration built through the other public constructors (integer count, 64-bit count, whole units, arithmetic).
fn same_value(d: Duration) -> Vec<Duration> {
    let t = d.total_nanoseconds();
    let mut v = vec![Duration::from_total_nanoseconds(t), d + Duration::ZERO, Duration::ZERO + d, d - Duration::ZERO];
    if let Ok(n) = i64::try_from(t) {
        v.push(Duration::from_truncated_nanoseconds(n));
        v.push(n * Unit::Nanosecond);
    }
    for (u, f) in [
        (Unit::Microsecond, 1_000_i128),
        (Unit::Millisecond, 1_000_000),
        (Unit::Second, 1_000_000_000),
        (Unit::Minute, 60_000_000_000),
        (Unit::Hour, 3_600_000_000_000),
        (Unit::Day, 86_400_000_000_000),
        (Unit::Week, 604_800_000_000_000),
        (Unit::Century, 3_155_760_000_000_000_000),
    ] {
        if t % f == 0 {
            if let Ok(q) = i64::try_from(t / f) {
                v.push(q * u);
                v.push(u * q);
            }
        }
    }
    if d != Duration::MIN && d != Duration::MAX {
        v.push(-(-d));
    }
    // the compound-assignment operators, reaching the value from either side
    let (lo, hi) = (Duration::MIN.total_nanoseconds(), Duration::MAX.total_nanoseconds());
    for r in [1_i128, 1_000, 1_577_880_000_000_000_000] {
        if t - r >= lo {
            let mut z = Duration::from_total_nanoseconds(t - r);
            z += Duration::from_total_nanoseconds(r);
            v.push(z);
        }
        if t + r <= hi {
            let mut z = Duration::from_total_nanoseconds(t + r);
            z -= Duration::from_total_nanoseconds(r);
            v.push(z);
        }
    }
    if t - 1 >= lo {
        let mut z = Duration::from_total_nanoseconds(t - 1);
        z += Unit::Nanosecond;
        v.push(z);
    }
    if t + 1 <= hi {
        let mut z = Duration::from_total_nanoseconds(t + 1);
        z -= Unit::Nanosecond;
        v.push(z);
    }
    v
}

pub fn run(name: &str, a: &Args) -> Option<String> {
    Some(match name {
        "from_parts" => pdur(a.dur(0)),
        "from_total" => pdur(Duration::from_total_nanoseconds(a.z(0))),
        "total" => format!("{}", a.dur(0).total_nanoseconds()),
        "from_trunc" => pdur(Duration::from_truncated_nanoseconds(a.z(0) as i64)),
        "try_trunc" => match a.dur(0).try_truncated_nanoseconds() {
            Ok(v) => format!("1 {v}"),
            Err(_) => "0".to_string(),
        },
        "trunc" => format!("{}", a.dur(0).truncated_nanoseconds()),
        "add" => {
            let r = a.dur(0) + a.dur(2);
            let mut r2 = a.dur(0);
            r2 += a.dur(2);
            assert!(r.to_parts() == r2.to_parts(), "AddAssign differs from Add");
            pdur(r)
        }
        "sub" => {
            let r = a.dur(0) - a.dur(2);
            let mut r2 = a.dur(0);
            r2 -= a.dur(2);
            assert!(r.to_parts() == r2.to_parts(), "SubAssign differs from Sub");
            pdur(r)
        }
        "neg" => pdur(-a.dur(0)),
        "abs" => pdur(a.dur(0).abs()),
        "mul" => {
            let r = a.dur(0) * (a.z(2) as i64);
            let r2 = (a.z(2) as i64) * a.dur(0);
            assert!(r.to_parts() == r2.to_parts(), "i64 * Duration differs from Duration * i64");
            pdur(r)
        }
        "div" => pdur(a.dur(0) / (a.z(2) as i64)),
        "add_unit" => {
            let r = a.dur(0) + a.unit(2);
            let mut r2 = a.dur(0);
            r2 += a.unit(2);
            assert!(r.to_parts() == r2.to_parts());
            pdur(r)
        }
        "sub_unit" => {
            let r = a.dur(0) - a.unit(2);
            let mut r2 = a.dur(0);
            r2 -= a.unit(2);
            assert!(r.to_parts() == r2.to_parts());
            pdur(r)
        }
        "unit_mul" => {
            let r = a.unit(0) * (a.z(1) as i64);
            let r2 = (a.z(1) as i64) * a.unit(0);
            assert!(r.to_parts() == r2.to_parts());
            {
                use hifitime::TimeUnits;
                let k = a.z(1) as i64;
                let r3 = match a.unit(0) {
                    Unit::Nanosecond => k.nanoseconds(),
                    Unit::Microsecond => k.microseconds(),
                    Unit::Millisecond => k.milliseconds(),
                    Unit::Second => k.seconds(),
                    Unit::Minute => k.minutes(),
                    Unit::Hour => k.hours(),
                    Unit::Day => k.days(),
                    Unit::Week => k.weeks(),
                    Unit::Century => k.centuries(),
                };
                assert!(r.to_parts() == r3.to_parts(), "TimeUnits method differs from Unit * i64");
            }
            pdur(r)
        }
        "eq" => {
            let x = a.dur(0) == a.dur(2);
            assert!(x != (a.dur(0) != a.dur(2)));
            // the answer depends on the values only, not on how they were built
            for p in same_value(a.dur(0)) {
                for q in same_value(a.dur(2)) {
                    assert!((p == q) == x, "== differs between two constructions of the same values");
                }
            }
            b(x)
        }
        "cmp" => {
            let (x, y) = (a.dur(0), a.dur(2));
            let o = x.cmp(&y);
            assert!(x.partial_cmp(&y) == Some(o));
            assert!((x < y) == (o == Ordering::Less) && (x > y) == (o == Ordering::Greater));
            assert!((x <= y) == (o != Ordering::Greater) && (x >= y) == (o != Ordering::Less));
            for p in same_value(x) {
                for q in same_value(y) {
                    assert!(p.cmp(&q) == o && p.partial_cmp(&q) == Some(o), "cmp differs between two constructions of the same values");
                }
            }
            assert!(y.cmp(&x) == o.reverse(), "cmp is not antisymmetric");
            // what the standard library builds on the comparison: Ord::min / max, sorting, clamp, iterator min / max
            let (lo, hi) = if o == Ordering::Greater { (y, x) } else { (x, y) };
            assert!(Ord::min(x, y).to_parts() == lo.to_parts() && Ord::max(x, y).to_parts() == hi.to_parts(), "Ord::min / max disagree with cmp");
            let mut v = [y, x];
            v.sort();
            assert!(v[0].total_nanoseconds() <= v[1].total_nanoseconds(), "sort() does not order by the signed value");
            let mut w = [x, y];
            w.sort_by(|p, q| p.partial_cmp(q).expect("a total order"));
            assert!(w[0].to_parts() == v[0].to_parts() && w[1].to_parts() == v[1].to_parts(), "sort_by(partial_cmp) disagrees with sort()");
            assert!(x.clamp(lo, hi).to_parts() == x.to_parts() && y.clamp(lo, hi).to_parts() == y.to_parts(), "clamp moves a value inside its bounds");
            assert!([x, y].iter().min().map(|d| d.total_nanoseconds()) == Some(lo.total_nanoseconds()));
            assert!([x, y].iter().max().map(|d| d.total_nanoseconds()) == Some(hi.total_nanoseconds()));
            ord(o)
        }
        "min" => pdur(a.dur(0).min(a.dur(2))),
        "max" => pdur(a.dur(0).max(a.dur(2))),
        "floor" => pdur(a.dur(0).floor(a.dur(2))),
        "ceil" => pdur(a.dur(0).ceil(a.dur(2))),
        "round" => pdur(a.dur(0).round(a.dur(2))),
        "approx" => pdur(a.dur(0).approx()),
        "decompose" => {
            let (s, d, h, m, sec, ms, us, ns) = a.dur(0).decompose();
            format!("{s} {d} {h} {m} {sec} {ms} {us} {ns}")
        }
        "compose" => pdur(Duration::compose(
            a.z(0) as i8, a.z(1) as u64, a.z(2) as u64, a.z(3) as u64, a.z(4) as u64, a.z(5) as u64, a.z(6) as u64, a.z(7) as u64,
        )),
        "compose_decompose" => {
            let (s, d, h, m, sec, ms, us, ns) = a.dur(0).decompose();
            pdur(Duration::compose(s, d, h, m, sec, ms, us, ns))
        }
        "to_std" => {
            let s: std::time::Duration = a.dur(0).into();
            format!("{} {}", s.as_secs(), s.subsec_nanos())
        }
        "from_std" => {
            let d: Duration = std::time::Duration::new(a.z(0) as u64, a.z(1) as u32).into();
            pdur(d)
        }
        "signum" => format!("{}", a.dur(0).signum()),
        "subdivision" => match a.dur(0).subdivision(a.unit(2)) {
            Some(d) => format!("1 {}", pdur(d)),
            None => "0".to_string(),
        },
        "eq_unit" => b(a.dur(0) == a.unit(2)),
        "cmp_unit" => ord(a.dur(0).partial_cmp(&a.unit(2)).unwrap()),
        "tz_offset" => pdur(Duration::from_tz_offset(a.z(0) as i8, a.z(1) as i64, a.z(2) as i64)),
        _ => return None,
    })
}
#[allow(dead_code)]
fn _unused(_: Unit) {}
