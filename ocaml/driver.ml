(* driver.ml -- reads one case per line "name tok tok ...", prints "model-tokens | spec-tokens".
   Tokens: decimal integers; lists as [a,b,c]; PANIC; E<k>; * (no spec); <0 / >=0 (sign only). *)
open Model
type str = Stdlib.String.t
module S = Stdlib.String

let small n = (* 0..255 -> z *)
  let rec pos n = if n = 1 then XH else if n land 1 = 0 then XO (pos (n lsr 1)) else XI (pos (n lsr 1)) in
  if n = 0 then Z0 else Zpos (pos n)

let z_of_string (s : str) : z =
  let neg = S.length s > 0 && s.[0] = '-' in
  let start = if neg || (S.length s > 0 && s.[0] = '+') then 1 else 0 in
  let ds = ref [] in
  for i = S.length s - 1 downto start do
    let c = Char.code s.[i] - 48 in
    if c < 0 || c > 9 then failwith ("bad integer token: " ^ s);
    ds := small c :: !ds
  done;
  z_of_digits neg !ds

let rec int_of_pos = function XH -> 1 | XO p -> 2 * int_of_pos p | XI p -> 2 * int_of_pos p + 1
let int_of_z = function Z0 -> 0 | Zpos p -> int_of_pos p | Zneg p -> - (int_of_pos p)

let string_of_z (v : z) : str =
  let b = Buffer.create 24 in
  if z_is_neg v then Buffer.add_char b '-';
  List.iter (fun d -> Buffer.add_char b (Char.chr (48 + int_of_z d))) (z_digits v);
  Buffer.contents b

let coq_string (s : str) : Model.string =
  let r = ref EmptyString in
  for i = S.length s - 1 downto 0 do
    let c = Char.code s.[i] in
    let bit k = (c lsr k) land 1 = 1 in
    r := String (Ascii (bit 0, bit 1, bit 2, bit 3, bit 4, bit 5, bit 6, bit 7), !r)
  done;
  !r

let parse_tok (t : str) : tok =
  if t = "PANIC" then TPanic
  else if S.length t > 0 && t.[0] = '[' then begin
    let inner = S.sub t 1 (S.length t - 2) in
    if inner = "" then TL []
    else TL (List.map z_of_string (S.split_on_char ',' inner))
  end else TZ (z_of_string t)

let print_tok b (t : tok) =
  match t with
  | TZ v -> Buffer.add_string b (string_of_z v)
  | TL l -> Buffer.add_char b '['; Buffer.add_string b (S.concat "," (List.map string_of_z l)); Buffer.add_char b ']'
  | TPanic -> Buffer.add_string b "PANIC"
  | TErr k -> Buffer.add_char b 'E'; Buffer.add_string b (string_of_z k)
  | TNoSpec -> Buffer.add_char b '*'
  | TSign neg -> Buffer.add_string b (if neg then "<0" else ">=0")
  | TErrAny -> Buffer.add_char b 'E'
  | TRange (lo, hi) -> Buffer.add_string b ("r~" ^ string_of_z lo ^ "~" ^ string_of_z hi)
  | TFRange (lo, hi) -> Buffer.add_string b ("f~" ^ string_of_z lo ^ "~" ^ string_of_z hi)
  | TNoPanic -> Buffer.add_string b "!P"

(* the platform sine on IEEE bit patterns: the oracle the ET / TDB model is parametrised by *)
let sin_bits (v : z) : z =
  let x = Int64.float_of_bits (Int64.of_string ("0u" ^ string_of_z v)) in
  z_of_string (Printf.sprintf "%Lu" (Int64.bits_of_float (sin x)))

let print_toks b ts =
  List.iteri (fun i t -> if i > 0 then Buffer.add_char b ' '; print_tok b t) ts

let () =
  let b = Buffer.create 256 in
  (try
    while true do
      let line = input_line stdin in
      Buffer.clear b;
      (match S.split_on_char ' ' (S.trim line) with
       | [] | [""] -> Buffer.add_string b "SKIP"
       | name :: rest ->
         let args = List.map parse_tok (List.filter (fun s -> s <> "") rest) in
         (match dispatch sin_bits (coq_string name) args with
          | None -> Buffer.add_string b "UNKNOWN"
          | Some (m, s) -> print_toks b m; Buffer.add_string b " | "; print_toks b s));
      print_endline (Buffer.contents b)
    done
  with End_of_file -> ())
