"""Known findings: genuine defects of /repo that are recorded rather than repaired (see
KNOWN_FINDINGS.txt and DESIGN.md).  Each entry has a *narrow* predicate over case lines; a
violation outside every predicate is still reported.  Never written at run time."""
from common import *


def _floor_near_min(line):
    t = line.split()
    if t[0] in ("efloor", "eceil", "eround") and len(t) == 6:      # the Epoch forms act on the elapsed time in the epoch's own scale
        t = [t[0][1:], t[1], t[2], t[4], t[5]]
    if t[0] not in ("floor", "ceil", "round") or len(t) != 5:
        return False
    d = val_of_parts(int(t[1]), int(t[2]))
    s = abs(val_of_parts(int(t[3]), int(t[4])))
    if s == 0:
        return False
    fl = d - d % s
    # the floor lies exactly one step above MIN (or the step below it is MIN): result saturates to MIN
    return MINV < fl <= MINV + s


def _feb30_leap_year(line):
    t = line.split()
    if t[0] not in ("from_greg", "is_valid") or len(t) < 8:
        return False
    y, m, d = int(t[1]), int(t[2]), int(t[3])
    return m == 2 and d in (30, 31) and is_leap(y)


def _iso_display_whole_second(line):
    t = line.split()
    if t[0] != "iso_vs_display" or len(t) != 4:
        return False
    # every scale's calendar zero is a whole second: the sub-second part of the fields is the count modulo one second
    return val_of_parts(int(t[1]), int(t[2])) % SEC == 0


def _feb30_text(line):
    """the same defect seen through the parsers: text naming 30 or 31 February of a leap year is accepted"""
    t = line.split()
    if t[0] not in ("p_reject", "p_reject_fmt"):
        return False
    import re as _re
    txt = "".join(chr(int(c)) for c in t[-1].strip("[]").split(",") if c)
    m = _re.match(r"^(-?\d+)-02-(30|31)[T ]", txt)
    return bool(m) and is_leap(int(m.group(1)))


def _name_after_two_separators(line):
    """(repaired by fix 41672ac; kept as the description of the shape, no longer listed) Format::parse only skipped the second separator character of the previous token when the character also ends the current
    token's text; before a weekday or month name (whose text ends at its own separator) it is kept, and the name is not recognised"""
    t = line.split(" ", 3)
    if t[0] != "rt_fmt" or len(t) != 4:
        return False
    f = "".join(chr(int(c)) for c in t[3].strip("[]").split(",") if c)
    toks = []
    i = 0
    while i < len(f):
        if f[i] == "%" and i + 1 < len(f):
            k = i + 2
            while k < len(f) and f[k] != "%":
                k += 1
            toks.append((f[i + 1], f[i + 2:k]))
            i = k
        else:
            i += 1
    return any(toks[i][0] in "AaBb" and len(toks[i - 1][1]) >= 2 and i < len(toks) - 1 for i in range(1, len(toks)))


KNOWN = [
    {"status": "known", "property": "C13", "id": "feb-30-31-leap-year", "pred": _feb30_text,
     "what": "text naming 30 or 31 February of a leap year is parsed into 1 or 2 March instead of being rejected (the C08 finding "
             "feb-30-31-leap-year seen through Epoch::from_str / from_format_str; tests/epoch.rs:1092 pins the constructor)"},
    {"status": "known", "property": "C19", "id": "iso8601-vs-display-whole-seconds", "pred": _iso_display_whole_second,
     "what": "Formatter::new(e, ISO8601) prints '.000000000' for epochs with a zero sub-second part while Display omits the fraction "
             "(1900-01-01T00:00:00 TAI): the two outputs differ; Display's form is pinned by tests/epoch.rs:607-611 and the non-optional %f of "
             "ISO8601 by the unit test in src/efmt/format.rs (epoch_format_from_str), so neither side can change with the suite unedited"},
    {"status": "known", "property": "C08", "id": "feb-30-31-leap-year", "pred": _feb30_leap_year,
     "what": "is_gregorian_valid / maybe_from_gregorian accept 30 and 31 February in leap years (2020-02-30 -> 2020-03-01); "
             "tests/epoch.rs:1092 (test_range) builds 2012-02-30, so it cannot be repaired with the suite unedited"},
    {"status": "known", "property": "C14", "id": "floor-one-step-above-min", "pred": _floor_near_min,
     "what": "Duration::floor/ceil/round: when the floor is within one step above Duration::MIN the result saturates to MIN "
             "((MIN + 10 s).floor(10 s) == MIN, pinned by tests/duration.rs:378)"},
]
