"""Shared pieces of the case generators: one PRNG stream, boundary pools, duration values."""
import random

NPC = 3155760000000000000
NPD = 86400 * 10**9
U64_MAX = 2**64 - 1
I64_MAX = 2**63 - 1
I64_MIN = -2**63
I128_MAX = 2**127 - 1
I128_MIN = -2**127
MINV = -32768 * NPC
MAXV = 32768 * NPC
UNIT_FACTORS = [1, 10**3, 10**6, 10**9, 60 * 10**9, 3600 * 10**9, NPD, 7 * NPD, NPC]


class Gen:
    def __init__(self, seed):
        self.r = random.Random(seed)

    # raw constructor inputs (i16, u64)
    C_POOL = [-32768, -32767, -20000, -12769, -3, -2, -1, 0, 1, 2, 3, 12768, 20000, 32766, 32767]
    N_POOL = [0, 1, 2, 10**9, NPD, NPC // 2, NPC - 2, NPC - 1, NPC, NPC + 1, 2 * NPC - 1, 2 * NPC,
              2 * NPC + 1, 5 * NPC + 7, U64_MAX]

    def parts_pool(self):
        return [(c, n) for c in self.C_POOL for n in self.N_POOL]

    def small_parts_pool(self):
        cs = [-32768, -32767, -2, -1, 0, 1, 32766, 32767]
        ns = [0, 1, NPC - 1, NPC, U64_MAX]
        return [(c, n) for c in cs for n in ns]

    def rand_parts(self):
        r = self.r
        k = r.random()
        if k < 0.3:
            c = r.choice(self.C_POOL)
        elif k < 0.6:
            c = r.randint(-40, 40)
        else:
            c = r.randint(-32768, 32767)
        k = r.random()
        if k < 0.25:
            n = r.choice(self.N_POOL)
        elif k < 0.5:
            n = max(0, min(U64_MAX, r.choice([0, NPC, 2 * NPC, NPD * r.randint(0, 36525)]) + r.randint(-3, 3)))
        elif k < 0.9:
            n = r.randint(0, NPC - 1)
        else:
            n = r.randint(0, U64_MAX)
        return (c, n)

    def rand_val_parts(self, lo, hi):
        """canonical parts of a uniformly random count in [lo, hi]"""
        v = self.r.randint(lo, hi)
        return divmod(v, NPC)

    K_POOL = [1, -1, 2, -2, 3, -3, 7, -7, 1000, -1000, 2**31, -2**31, 2**32, -2**32, I64_MAX, I64_MIN,
              I64_MIN + 1, NPC, -NPC, 10**9, 36525]

    def rand_i64(self):
        r = self.r
        k = r.random()
        if k < 0.3:
            return r.choice(self.K_POOL + [0])
        if k < 0.6:
            return r.randint(-100, 100)
        if k < 0.8:
            e = r.randint(1, 62)
            return r.choice([-1, 1]) * (2**e + r.randint(-2, 2))
        return r.randint(I64_MIN, I64_MAX)

    def rand_i128(self):
        r = self.r
        k = r.random()
        base = [0, NPC, 2 * NPC, 3 * NPC, I64_MAX, -I64_MIN, MAXV, -MINV, I128_MAX]
        if k < 0.4:
            v = r.choice([-1, 1]) * r.choice(base) + r.randint(-2, 2)
        elif k < 0.7:
            v = r.randint(MINV - 5 * NPC, MAXV + 5 * NPC)
        elif k < 0.85:
            v = r.randint(-4 * NPC, 4 * NPC)
        else:
            v = r.randint(I128_MIN, I128_MAX)
        return max(I128_MIN, min(I128_MAX, v))


def val_of_parts(c, n):
    """the clamped count from_parts(c, n) denotes"""
    return max(MINV, min(MAXV, c * NPC + n))


# ---- epochs ----
SCALES = {"TAI": 0, "TT": 1, "ET": 2, "TDB": 3, "UTC": 4, "GPST": 5, "GST": 6, "BDT": 7, "QZSST": 8}
UNIFORM = [0, 1, 5, 6, 7, 8]
INT_SCALES = [0, 1, 4, 5, 6, 7, 8]
LEAP_TS = [2272060800, 2287785600, 2303683200, 2335219200, 2366755200, 2398291200, 2429913600, 2461449600,
           2492985600, 2524521600, 2571782400, 2603318400, 2634854400, 2698012800, 2776982400, 2840140800,
           2871676800, 2918937600, 2950473600, 2982009600, 3029443200, 3076704000, 3124137600, 3345062400,
           3439756800, 3550089600, 3644697600, 3692217600]
LEAP_DELTA = list(range(10, 38))
SEC = 10**9
REF_NS = {0: 0, 1: 0, 4: 0, 5: 2524953619 * SEC, 8: 2524953619 * SEC, 6: 3144268819 * SEC, 7: NPC + 189302433 * SEC,
          2: 3155716800 * SEC, 3: 3155716800 * SEC}


def parts_of(v):
    v = max(MINV, min(MAXV - 1, v))
    return divmod(v, NPC)


def days_from_civil(y, m, d):
    y2 = y - 1 if m <= 2 else y
    era = y2 // 400
    yoe = y2 % 400
    doy = (153 * (m - 3 if m > 2 else m + 9) + 2) // 5 + d - 1
    doe = yoe * 365 + yoe // 4 - yoe // 100 + doy
    return era * 146097 + doe - 693901


def is_leap(y):
    return (y % 4 == 0 and y % 100 != 0) or y % 400 == 0


def mlen(y, m):
    return [31, 29 if is_leap(y) else 28, 31, 30, 31, 30, 31, 31, 30, 31, 30, 31][m - 1]


class EGen(Gen):
    def epoch_vals_pool(self):
        """signed counts (ns) of interest in an epoch's own scale"""
        vs = set()
        for base in [0, NPC, -NPC, 2 * NPC, -2 * NPC, NPD, -NPD, 36524 * NPD, 25567 * NPD]:
            for d in (-1, 0, 1, -SEC, SEC, 37 * SEC, -37 * SEC):
                vs.add(base + d)
        return sorted(vs)

    def leap_neighbourhood(self, quick=True):
        """counts around every leap second threshold, at ns resolution"""
        subs = [0, 1, SEC // 2, SEC - 1]
        offs = list(range(-40, 41)) if not quick else [-40, -38, -37, -36, -35, -20, -11, -10, -9, -2, -1, 0, 1, 2, 9, 10, 11, 35, 36, 37, 38, 40]
        out = []
        for ts in LEAP_TS:
            for o in offs:
                for s in subs:
                    out.append((ts + o) * SEC + s)
        return out

    def rand_epoch_val(self):
        r = self.r
        k = r.random()
        if k < 0.25:
            return r.choice(LEAP_TS) * SEC + r.randint(-40 * SEC, 40 * SEC)
        if k < 0.5:
            return r.choice(list(REF_NS.values())) + r.choice([-1, 1]) * int(10 ** r.uniform(0, 20))
        if k < 0.8:
            return r.randint(-3 * NPC, 3 * NPC)
        if k < 0.95:
            return r.randint(-100 * NPC, 100 * NPC)
        return r.randint(MINV, MAXV - 1)

    def rand_epoch(self, scales=None):
        v = self.rand_epoch_val()
        c, n = parts_of(v)
        return (c, n, self.r.choice(scales or INT_SCALES))
