"""Shared pieces of the case generators: one PRNG stream, boundary pools, duration values."""
import random

NPC = 3155760000000000000
NPD = 86400 * 10**9
U64_MAX = 2**64 - 1
I64_MAX = 2**63 - 1
I64_MIN = -2**63
I128_MAX = 2**127 - 1
I128_MIN = -2**127
MINV = -32768 * NPC
MAXV = 32768 * NPC
UNIT_FACTORS = [1, 10**3, 10**6, 10**9, 60 * 10**9, 3600 * 10**9, NPD, 7 * NPD, NPC]


class Gen:
    def __init__(self, seed):
        self.r = random.Random(seed)

    # raw constructor inputs (i16, u64)
    C_POOL = [-32768, -32767, -20000, -12769, -3, -2, -1, 0, 1, 2, 3, 12768, 20000, 32766, 32767]
    N_POOL = [0, 1, 2, 10**9, NPD, NPC // 2, NPC - 2, NPC - 1, NPC, NPC + 1, 2 * NPC - 1, 2 * NPC,
              2 * NPC + 1, 5 * NPC + 7, U64_MAX]

    def parts_pool(self):
        return [(c, n) for c in self.C_POOL for n in self.N_POOL]

    def small_parts_pool(self):
        cs = [-32768, -32767, -2, -1, 0, 1, 32766, 32767]
        ns = [0, 1, NPC - 1, NPC, U64_MAX]
        return [(c, n) for c in cs for n in ns]

    def rand_parts(self):
        r = self.r
        k = r.random()
        if k < 0.3:
            c = r.choice(self.C_POOL)
        elif k < 0.6:
            c = r.randint(-40, 40)
        else:
            c = r.randint(-32768, 32767)
        k = r.random()
        if k < 0.25:
            n = r.choice(self.N_POOL)
        elif k < 0.5:
            n = max(0, min(U64_MAX, r.choice([0, NPC, 2 * NPC, NPD * r.randint(0, 36525)]) + r.randint(-3, 3)))
        elif k < 0.9:
            n = r.randint(0, NPC - 1)
        else:
            n = r.randint(0, U64_MAX)
        return (c, n)

    def rand_val_parts(self, lo, hi):
        """canonical parts of a uniformly random count in [lo, hi]"""
        v = self.r.randint(lo, hi)
        return divmod(v, NPC)

    K_POOL = [1, -1, 2, -2, 3, -3, 7, -7, 1000, -1000, 2**31, -2**31, 2**32, -2**32, I64_MAX, I64_MIN,
              I64_MIN + 1, NPC, -NPC, 10**9, 36525]

    def rand_i64(self):
        r = self.r
        k = r.random()
        if k < 0.3:
            return r.choice(self.K_POOL + [0])
        if k < 0.6:
            return r.randint(-100, 100)
        if k < 0.8:
            e = r.randint(1, 62)
            return r.choice([-1, 1]) * (2**e + r.randint(-2, 2))
        return r.randint(I64_MIN, I64_MAX)

    def rand_i128(self):
        r = self.r
        k = r.random()
        base = [0, NPC, 2 * NPC, 3 * NPC, I64_MAX, -I64_MIN, MAXV, -MINV, I128_MAX]
        if k < 0.4:
            v = r.choice([-1, 1]) * r.choice(base) + r.randint(-2, 2)
        elif k < 0.7:
            v = r.randint(MINV - 5 * NPC, MAXV + 5 * NPC)
        elif k < 0.85:
            v = r.randint(-4 * NPC, 4 * NPC)
        else:
            v = r.randint(I128_MIN, I128_MAX)
        return max(I128_MIN, min(I128_MAX, v))


def val_of_parts(c, n):
    """the clamped count from_parts(c, n) denotes"""
    return max(MINV, min(MAXV, c * NPC + n))
