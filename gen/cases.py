"""Case generators, one function per property.  Every generator returns a list of case lines
("name tok tok ...").  Order: corpus (past failures) first, boundary cross-products, then seeded
random.  The deterministic part does not depend on the seed."""
import itertools, os
from common import *

HERE = os.path.dirname(os.path.abspath(__file__))


def corpus(prop):
    p = os.path.join(HERE, "corpus", prop + ".txt")
    if not os.path.exists(p):
        return []
    return [l.strip() for l in open(p) if l.strip() and not l.startswith("#")]


def budget(tier, quick, thorough):
    return thorough if tier == "thorough" else quick


def p2(a):
    return f"{a[0]} {a[1]}"


def gen_C01(tier, seed):
    g = Gen(seed)
    out = corpus("C01")
    pool = g.parts_pool()
    small = g.small_parts_pool()
    pairs = list(itertools.product(pool, pool)) if tier == "thorough" else \
        list(itertools.product(small, pool)) + list(itertools.product(pool, small))
    for a, b in pairs:
        out.append(f"add {p2(a)} {p2(b)}")
        out.append(f"sub {p2(a)} {p2(b)}")
    for a in pool:
        out.append(f"neg {p2(a)}")
        out.append(f"abs {p2(a)}")
        out.append(f"from_parts {p2(a)}")
        for k in g.K_POOL:
            out.append(f"mul {p2(a)} {k}")
            out.append(f"div {p2(a)} {k}")
        out.append(f"mul {p2(a)} 0")
        for u in range(9):
            out.append(f"add_unit {p2(a)} {u}")
            out.append(f"sub_unit {p2(a)} {u}")
    n = budget(tier, 60000, 3000000)
    for _ in range(n):
        a, b = g.rand_parts(), g.rand_parts()
        k = g.r.random()
        if k < 0.3:
            out.append(f"add {p2(a)} {p2(b)}")
        elif k < 0.6:
            out.append(f"sub {p2(a)} {p2(b)}")
        elif k < 0.65:
            out.append(f"neg {p2(a)}")
        elif k < 0.7:
            out.append(f"abs {p2(a)}")
        elif k < 0.82:
            out.append(f"mul {p2(a)} {g.rand_i64()}")
        elif k < 0.94:
            q = g.rand_i64()
            if q != 0:
                out.append(f"div {p2(a)} {q}")
        else:
            out.append(f"{g.r.choice(['add_unit','sub_unit'])} {p2(a)} {g.r.randint(0, 8)}")
    return out


def gen_C02(tier, seed):
    g = Gen(seed)
    out = corpus("C02")
    pool = g.parts_pool()
    for a in pool:
        for f in ("from_parts", "total", "try_trunc", "trunc"):
            out.append(f"{f} {p2(a)}")
    zs = set()
    for base in [0, NPC, 2 * NPC, 3 * NPC, I64_MAX, -I64_MIN, MAXV, -MINV, 32767 * NPC, I128_MAX, -I128_MIN]:
        for sg in (1, -1):
            for d in (-2, -1, 0, 1, 2):
                v = sg * base + d
                if I128_MIN <= v <= I128_MAX:
                    zs.add(v)
    for v in sorted(zs):
        out.append(f"from_total {v}")
        if I64_MIN <= v <= I64_MAX:
            out.append(f"from_trunc {v}")
    for u in range(9):
        for k in g.K_POOL + [0]:
            out.append(f"unit_mul {u} {k}")
        f = UNIT_FACTORS[u]
        for k in (MAXV // f, MINV // f, I64_MAX // f, I64_MIN // f):
            for d in (-1, 0, 1):
                if I64_MIN <= k + d <= I64_MAX:
                    out.append(f"unit_mul {u} {k + d}")
    n = budget(tier, 60000, 3000000)
    for _ in range(n):
        k = g.r.random()
        if k < 0.25:
            out.append(f"from_total {g.rand_i128()}")
        elif k < 0.35:
            out.append(f"from_trunc {g.rand_i64()}")
        elif k < 0.55:
            out.append(f"unit_mul {g.r.randint(0, 8)} {g.rand_i64()}")
        else:
            a = g.rand_parts()
            out.append(f"{g.r.choice(['from_parts','total','try_trunc','trunc'])} {p2(a)}")
    return out


def gen_C03(tier, seed):
    g = Gen(seed)
    out = corpus("C03")
    pool = g.parts_pool()
    small = g.small_parts_pool()
    pairs = list(itertools.product(pool, pool)) if tier == "thorough" else \
        list(itertools.product(small, pool)) + list(itertools.product(pool, small))
    for a, b in pairs:
        out.append(f"eq {p2(a)} {p2(b)}")
        out.append(f"cmp {p2(a)} {p2(b)}")
    for a, b in itertools.product(small, small):
        out.append(f"min {p2(a)} {p2(b)}")
        out.append(f"max {p2(a)} {p2(b)}")
    # pairs whose century fields differ by exactly one, opposite pairs, equal counts
    for c in (-3, -2, -1, 0, 1, 2):
        for d in (1, 10, NPC // 2, NPC - 10, NPC - 1):
            out.append(f"eq {c} {d} {c + 1} {NPC - d}")
            out.append(f"eq {c + 1} {NPC - d} {c} {d}")
            out.append(f"eq {c} {d} {c - 1} {NPC - d}")
            out.append(f"cmp {c} {d} {c + 1} {NPC - d}")
    for a in pool:
        for u in range(9):
            out.append(f"eq_unit {p2(a)} {u}")
            out.append(f"cmp_unit {p2(a)} {u}")
    for u in range(9):
        f = UNIT_FACTORS[u]
        for v in (f, -f, f - 1, f + 1, -f + 1):
            c, n = divmod(v, NPC)
            out.append(f"eq_unit {c} {n} {u}")
            out.append(f"cmp_unit {c} {n} {u}")
    n = budget(tier, 60000, 3000000)
    for _ in range(n):
        a = g.rand_parts()
        k = g.r.random()
        if k < 0.3:
            b = g.rand_parts()
        elif k < 0.5:
            v = val_of_parts(*a)
            b = divmod(max(MINV, min(MAXV - 1, -v)), NPC)      # exact opposite
        elif k < 0.7:
            v = val_of_parts(*a)
            b = divmod(max(MINV, min(MAXV - 1, v + g.r.choice([-1, 0, 1, NPC, -NPC]))), NPC)
        else:
            b = (a[0] + g.r.choice([-1, 1]), NPC - a[1] if 0 <= NPC - a[1] else a[1])
            if not (-32768 <= b[0] <= 32767):
                b = g.rand_parts()
        f = g.r.choice(["eq", "eq", "cmp", "cmp", "min", "max"])
        out.append(f"{f} {p2(a)} {p2(b)}")
    return out


def gen_C14(tier, seed):
    g = Gen(seed)
    out = corpus("C14")
    pool = g.parts_pool()
    small = g.small_parts_pool()
    steps = [(0, 0), (0, 1), (0, 2), (0, 3), (0, 10**9), (0, 6 * 10**9), (0, 3600 * 10**9), (0, NPD), (0, NPC - 1),
             (1, 0), (1, 1), (2, 5), (100, 7), (32767, 0), (32767, NPC), (-1, NPC - 1), (-1, NPC - 3), (-1, NPC - 10**9),
             (-1, NPC - 3600 * 10**9), (-1, 0), (-2, 5), (-32768, 0), (-32768, 1)]
    ds = pool if tier == "thorough" else small + [(-1, NPC - 5400 * 10**9), (0, 5400 * 10**9), (-2, 17), (-5, 0), (5, 12345)]
    for d in ds:
        for s in steps:
            for f in ("floor", "ceil", "round"):
                out.append(f"{f} {p2(d)} {p2(s)}")
    for d in pool:
        out.append(f"approx {p2(d)}")
    n = budget(tier, 40000, 2000000)
    for _ in range(n):
        # d = k*s + delta around multiples and half-multiples of the step
        r = g.r
        sv = r.choice([1, 2, 3, 7, 10**3, 10**9, 60 * 10**9, 3600 * 10**9, NPD, NPC, r.randint(1, 10**6), r.randint(1, 4 * NPC),
                       r.randint(1, MAXV)])
        k = r.choice([0, 1, -1, 2, -2, r.randint(-10**6, 10**6), r.randint(MINV // sv, MAXV // sv)])
        delta = r.choice([0, 1, -1, sv // 2, -(sv // 2), sv // 2 + 1, sv // 2 - 1, -(sv // 2) - 1, r.randint(-sv, sv)])
        dv = max(MINV, min(MAXV - 1, k * sv + delta))
        sgn = r.choice([1, 1, -1])
        sval = max(MINV, min(MAXV - 1, sgn * sv))
        d = divmod(dv, NPC)
        s = divmod(sval, NPC)
        f = r.choice(["floor", "ceil", "round", "round"])
        out.append(f"{f} {p2(d)} {p2(s)}")
        if r.random() < 0.1:
            out.append(f"approx {p2(d)}")
    return out


GENERATORS = {"C01": gen_C01, "C02": gen_C02, "C03": gen_C03, "C14": gen_C14}
