"""Case generators, one function per property.  Every generator returns a list of case lines
("name tok tok ...").  Order: corpus (past failures) first, boundary cross-products, then seeded
random.  The deterministic part does not depend on the seed."""
import itertools, os, random
from common import *

HERE = os.path.dirname(os.path.abspath(__file__))


def corpus(prop):
    p = os.path.join(HERE, "corpus", prop + ".txt")
    if not os.path.exists(p):
        return []
    return [l.strip() for l in open(p) if l.strip() and not l.startswith("#")]


def budget(tier, quick, thorough):
    return thorough if tier == "thorough" else quick


def p2(a):
    return f"{a[0]} {a[1]}"


def gen_C01(tier, seed):
    g = Gen(seed)
    out = corpus("C01")
    pool = g.parts_pool()
    small = g.small_parts_pool()
    pairs = list(itertools.product(pool, pool)) if tier == "thorough" else \
        list(itertools.product(small, pool)) + list(itertools.product(pool, small))
    for a, b in pairs:
        out.append(f"add {p2(a)} {p2(b)}")
        out.append(f"sub {p2(a)} {p2(b)}")
    for a in pool:
        out.append(f"neg {p2(a)}")
        out.append(f"abs {p2(a)}")
        out.append(f"from_parts {p2(a)}")
        for k in g.K_POOL:
            out.append(f"mul {p2(a)} {k}")
            out.append(f"div {p2(a)} {k}")
        out.append(f"mul {p2(a)} 0")
        for u in range(9):
            out.append(f"add_unit {p2(a)} {u}")
            out.append(f"sub_unit {p2(a)} {u}")
    n = budget(tier, 60000, 3000000)
    for _ in range(n):
        a, b = g.rand_parts(), g.rand_parts()
        k = g.r.random()
        if k < 0.3:
            out.append(f"add {p2(a)} {p2(b)}")
        elif k < 0.6:
            out.append(f"sub {p2(a)} {p2(b)}")
        elif k < 0.65:
            out.append(f"neg {p2(a)}")
        elif k < 0.7:
            out.append(f"abs {p2(a)}")
        elif k < 0.82:
            out.append(f"mul {p2(a)} {g.rand_i64()}")
        elif k < 0.94:
            q = g.rand_i64()
            if q != 0:
                out.append(f"div {p2(a)} {q}")
        else:
            out.append(f"{g.r.choice(['add_unit','sub_unit'])} {p2(a)} {g.r.randint(0, 8)}")
    return out


def gen_C02(tier, seed):
    g = Gen(seed)
    out = corpus("C02")
    pool = g.parts_pool()
    for a in pool:
        for f in ("from_parts", "total", "try_trunc", "trunc"):
            out.append(f"{f} {p2(a)}")
    zs = set()
    for base in [0, NPC, 2 * NPC, 3 * NPC, I64_MAX, -I64_MIN, MAXV, -MINV, 32767 * NPC, I128_MAX, -I128_MIN]:
        for sg in (1, -1):
            for d in (-2, -1, 0, 1, 2):
                v = sg * base + d
                if I128_MIN <= v <= I128_MAX:
                    zs.add(v)
    for v in sorted(zs):
        out.append(f"from_total {v}")
        if I64_MIN <= v <= I64_MAX:
            out.append(f"from_trunc {v}")
    for u in range(9):
        for k in g.K_POOL + [0]:
            out.append(f"unit_mul {u} {k}")
        f = UNIT_FACTORS[u]
        for k in (MAXV // f, MINV // f, I64_MAX // f, I64_MIN // f):
            for d in (-1, 0, 1):
                if I64_MIN <= k + d <= I64_MAX:
                    out.append(f"unit_mul {u} {k + d}")
    # compose: field pools incl. u64::MAX in every position; std::time conversions
    r = g.r
    U = [0, 1, 23, 24, 59, 60, 999, 1000, 106751, 106752, 11967969, 11967970, 2**32, 2**53, 2**63 - 1, 2**63, U64_MAX - 1, U64_MAX]
    for sg in (-1, 0, 1):
        for pos in range(7):
            for v in U:
                f = [0] * 7; f[pos] = v
                out.append(f"compose {sg} " + " ".join(map(str, f)))
        out.append(f"compose {sg} " + " ".join([str(U64_MAX)] * 7))
        out.append(f"compose {sg} 106751 23 47 16 854 775 807")
        out.append(f"compose {sg} 106751 23 47 16 854 775 808")
        out.append(f"compose {sg} 11967969 23 59 59 999 999 999")
        out.append(f"compose {sg} 11967970 0 0 0 0 0 0")
        out.append(f"compose {sg} 11967970 0 0 0 0 0 1")
    for a in pool:
        out.append(f"to_std {p2(a)}")
        out.append(f"compose_decompose {p2(a)}")
    for secs in [0, 1, 59, 10**9, MAXV // 10**9 - 1, MAXV // 10**9, MAXV // 10**9 + 1, 2**63, U64_MAX - 1, U64_MAX]:
        for sub in (0, 1, 999999999):
            out.append(f"from_std {secs} {sub}")
    n = budget(tier, 60000, 3000000)
    for _ in range(n):
        k = g.r.random()
        if k < 0.1:
            f = [r.choice([0, 0, r.randint(0, 100), r.randint(0, 10**6), r.choice(U), r.randint(0, U64_MAX)]) for _ in range(7)]
            out.append(f"compose {r.choice([-1, 0, 1, -128, 127])} " + " ".join(map(str, f)))
        elif k < 0.17:
            out.append(f"{r.choice(['to_std', 'compose_decompose'])} {p2(g.rand_parts())}")
        elif k < 0.2:
            out.append(f"from_std {r.choice([r.randint(0, 2 * MAXV // 10**9), r.randint(0, U64_MAX), r.randint(0, 10**10)])} {r.randint(0, 999999999)}")
        elif k < 0.25:
            out.append(f"from_total {g.rand_i128()}")
        elif k < 0.35:
            out.append(f"from_trunc {g.rand_i64()}")
        elif k < 0.55:
            out.append(f"unit_mul {g.r.randint(0, 8)} {g.rand_i64()}")
        else:
            a = g.rand_parts()
            out.append(f"{g.r.choice(['from_parts','total','try_trunc','trunc'])} {p2(a)}")
    return out


def gen_C03(tier, seed):
    g = Gen(seed)
    out = corpus("C03")
    pool = g.parts_pool()
    small = g.small_parts_pool()
    pairs = list(itertools.product(pool, pool)) if tier == "thorough" else \
        list(itertools.product(small, pool)) + list(itertools.product(pool, small))
    for a, b in pairs:
        out.append(f"eq {p2(a)} {p2(b)}")
        out.append(f"cmp {p2(a)} {p2(b)}")
    for a, b in itertools.product(small, small):
        out.append(f"min {p2(a)} {p2(b)}")
        out.append(f"max {p2(a)} {p2(b)}")
    # exact multiples of each unit (the harness rebuilds both operands through every public constructor that can express them)
    for k in (-32768, -3, -2, -1, 0, 1, 2, 3, 32767):
        for u in range(9):
            for dlt in (0, 1, -1):
                v = k * UNIT_FACTORS[u] + dlt
                if MINV <= v <= MAXV:
                    for w in (v, 0, k * UNIT_FACTORS[8]):
                        if MINV <= w <= MAXV:
                            out.append(f"eq {p2(parts_of(v))} {p2(parts_of(w))}")
                            out.append(f"cmp {p2(parts_of(v))} {p2(parts_of(w))}")
    # pairs whose century fields differ by exactly one, opposite pairs, equal counts
    for c in (-3, -2, -1, 0, 1, 2):
        for d in (1, 10, NPC // 2, NPC - 10, NPC - 1):
            out.append(f"eq {c} {d} {c + 1} {NPC - d}")
            out.append(f"eq {c + 1} {NPC - d} {c} {d}")
            out.append(f"eq {c} {d} {c - 1} {NPC - d}")
            out.append(f"cmp {c} {d} {c + 1} {NPC - d}")
    for a in pool:
        for u in range(9):
            out.append(f"eq_unit {p2(a)} {u}")
            out.append(f"cmp_unit {p2(a)} {u}")
    for u in range(9):
        f = UNIT_FACTORS[u]
        for v in (f, -f, f - 1, f + 1, -f + 1):
            c, n = divmod(v, NPC)
            out.append(f"eq_unit {c} {n} {u}")
            out.append(f"cmp_unit {c} {n} {u}")
    n = budget(tier, 60000, 3000000)
    for _ in range(n):
        a = g.rand_parts()
        k = g.r.random()
        if k < 0.3:
            b = g.rand_parts()
        elif k < 0.5:
            v = val_of_parts(*a)
            b = divmod(max(MINV, min(MAXV - 1, -v)), NPC)      # exact opposite
        elif k < 0.7:
            v = val_of_parts(*a)
            b = divmod(max(MINV, min(MAXV - 1, v + g.r.choice([-1, 0, 1, NPC, -NPC]))), NPC)
        else:
            b = (a[0] + g.r.choice([-1, 1]), NPC - a[1] if 0 <= NPC - a[1] else a[1])
            if not (-32768 <= b[0] <= 32767):
                b = g.rand_parts()
        f = g.r.choice(["eq", "eq", "cmp", "cmp", "min", "max"])
        out.append(f"{f} {p2(a)} {p2(b)}")
    return out


def gen_C14(tier, seed):
    g = Gen(seed)
    out = corpus("C14")
    pool = g.parts_pool()
    small = g.small_parts_pool()
    steps = [(0, 0), (0, 1), (0, 2), (0, 3), (0, 10**9), (0, 6 * 10**9), (0, 3600 * 10**9), (0, NPD), (0, NPC - 1),
             (1, 0), (1, 1), (2, 5), (100, 7), (32767, 0), (32767, NPC), (-1, NPC - 1), (-1, NPC - 3), (-1, NPC - 10**9),
             (-1, NPC - 3600 * 10**9), (-1, 0), (-2, 5), (-32768, 0), (-32768, 1)]
    ds = pool if tier == "thorough" else small + [(-1, NPC - 5400 * 10**9), (0, 5400 * 10**9), (-2, 17), (-5, 0), (5, 12345)]
    for d in ds:
        for s in steps:
            for f in ("floor", "ceil", "round"):
                out.append(f"{f} {p2(d)} {p2(s)}")
    for d in pool:
        out.append(f"approx {p2(d)}")
    n = budget(tier, 40000, 2000000)
    for _ in range(n):
        # d = k*s + delta around multiples and half-multiples of the step
        r = g.r
        sv = r.choice([1, 2, 3, 7, 10**3, 10**9, 60 * 10**9, 3600 * 10**9, NPD, NPC, r.randint(1, 10**6), r.randint(1, 4 * NPC),
                       r.randint(1, MAXV)])
        k = r.choice([0, 1, -1, 2, -2, r.randint(-10**6, 10**6), r.randint(MINV // sv, MAXV // sv)])
        delta = r.choice([0, 1, -1, sv // 2, -(sv // 2), sv // 2 + 1, sv // 2 - 1, -(sv // 2) - 1, r.randint(-sv, sv)])
        dv = max(MINV, min(MAXV - 1, k * sv + delta))
        sgn = r.choice([1, 1, -1])
        sval = max(MINV, min(MAXV - 1, sgn * sv))
        d = divmod(dv, NPC)
        s = divmod(sval, NPC)
        f = r.choice(["floor", "ceil", "round", "round"])
        out.append(f"{f} {p2(d)} {p2(s)}")
        if r.random() < 0.1:
            out.append(f"approx {p2(d)}")
    # exact ties of Epoch::round (elapsed time half a step from two multiples), before and after the reference, both step signs
    for t in (0, 1, 4, 5, 6, 7, 8):
        for st in (2, 10, 2 * SEC, 3600 * SEC, NPD, 2 * NPC):
            for k in (-40000, -3, -2, -1, 0, 1, 2, 40000):
                for dlt in (0, 1, -1):
                    v = k * st + st // 2 + dlt
                    if MINV < v < MAXV:
                        out.append(f"eround {p3(parts_of(v) + (t,))} {p2(parts_of(st))}")
                        out.append(f"eround {p3(parts_of(v) + (t,))} {p2(parts_of(-st))}")
    # the same operations on epochs: they act on the elapsed time in the epoch's own scale, before and after its reference
    re_ = random.Random(seed * 41 + 14)
    for t in (0, 1, 4, 5, 7):
        for v in (0, 1, -1, SEC, -SEC, NPD + 5, -NPD - 5, NPC + 7, -NPC - 7, 3 * NPC + 123456789, -3 * NPC - 123456789):
            for st in (1, 1000, SEC, 60 * SEC, 3600 * SEC, NPD, 7 * NPD, NPC, -SEC, 10 * SEC + 1):
                e = parts_of(v) + (t,)
                for f in ("efloor", "eceil", "eround"):
                    out.append(f"{f} {p3(e)} {p2(parts_of(st))}")
    for _ in range(budget(tier, 5000, 400000)):
        e = g.rand_epoch() if hasattr(g, "rand_epoch") else parts_of(re_.randint(-3 * NPC, 3 * NPC)) + (re_.choice([0, 1, 4, 5, 6, 7, 8]),)
        st = re_.choice([1, 1000, SEC, 60 * SEC, 3600 * SEC, NPD, 7 * NPD, NPC, re_.randint(1, 10**12), -re_.randint(1, 10**12)])
        out.append(f"{re_.choice(['efloor', 'eceil', 'eround'])} {p3(e)} {p2(parts_of(st))}")
    return out


GENERATORS = {"C01": gen_C01, "C02": gen_C02, "C03": gen_C03, "C14": gen_C14}


# ------------------------------------------------------------------------------ epochs
def p3(e):
    return f"{e[0]} {e[1]} {e[2]}"


def gen_C04(tier, seed):
    g = EGen(seed)
    out = corpus("C04")
    vals = g.epoch_vals_pool()
    durs = [(0, 0), (0, 1), (-1, NPC - 1), (0, SEC), (-1, NPC - SEC), (0, NPD), (1, 0), (-1, 0), (1, 5), (-2, 7), (100, 3), (-100, 9)]
    for t in range(9):
        for v in vals:
            e = parts_of(v) + (t,)
            for d in durs:
                out.append(f"eadd {p3(e)} {p2(d)}")
                out.append(f"esub {p3(e)} {p2(d)}")
            for u in (0, 3, 6, 8):
                out.append(f"eadd_unit {p3(e)} {u}")
                out.append(f"esub_unit {p3(e)} {u}")
    for t1 in INT_SCALES:
        for t2 in INT_SCALES:
            for v1 in vals[::5]:
                for v2 in vals[::7]:
                    out.append(f"ediff {p3(parts_of(v1) + (t1,))} {p3(parts_of(v2) + (t2,))}")
    # operands whose century fields are as far apart as an i16 difference can hold, and one beyond (the true results are
    # within a few nanoseconds of the bounds, representable or not depending on the nanosecond fields)
    for c1, c2 in ((16384, -16384), (16383, -16384), (16385, -16384), (16384, -16385), (32767, -1), (32767, -2), (32766, -2), (0, -32768),
                   (-1, -32768), (1, -32767), (32767, -32768), (20000, -20000)):
        for n1, n2 in ((0, 5), (5, 0), (7, 7), (0, 0), (NPC - 1, 0), (0, NPC - 1)):
            for t in (0, 4, 5):
                a, b = (c1, n1, t), (c2, n2, t)
                out.append(f"ediff {p3(a)} {p3(b)}")
                out.append(f"ediff {p3(b)} {p3(a)}")
                out.append(f"esub {p3(a)} {c2} {n2}")
                out.append(f"esub {p3(b)} {c1} {n1}")
                out.append(f"eadd {p3(a)} {-c2 - 1} {(NPC - n2) % NPC}")
                out.append(f"eadd {p3(b)} {c1} {n1}")
    # sums and differences landing exactly on (or one nanosecond beside) a century multiple
    rb = random.Random(seed * 29 + 4)
    for _ in range(budget(tier, 600, 20000)):
        v = g.rand_epoch_val()
        k = rb.choice([-32768, -32767, -101, -2, -1, 0, 1, 2, 3, 21, 100, 32766, 32767])
        tgt = k * NPC + rb.choice([-1, 0, 0, 1])
        t = rb.choice(list(range(9)))
        if MINV <= tgt - v <= MAXV:
            out.append(f"eadd {p3(parts_of(v) + (t,))} {p2(parts_of(tgt - v))}")
        if MINV <= v - tgt <= MAXV:
            out.append(f"esub {p3(parts_of(v) + (t,))} {p2(parts_of(v - tgt))}")
            if MINV <= tgt <= MAXV:
                out.append(f"ediff {p3(parts_of(v) + (t,))} {p3(parts_of(v - tgt) + (t,))}")
    n = budget(tier, 30000, 1500000)
    for _ in range(n):
        e = g.rand_epoch(list(range(9)))
        k = g.r.random()
        if k < 0.35:
            out.append(f"eadd {p3(e)} {p2(g.rand_parts())}")
        elif k < 0.7:
            out.append(f"esub {p3(e)} {p2(g.rand_parts())}")
        elif k < 0.8:
            out.append(f"{g.r.choice(['eadd_unit','esub_unit'])} {p3(e)} {g.r.randint(0, 8)}")
        else:
            out.append(f"ediff {p3(g.rand_epoch())} {p3(g.rand_epoch())}")
    # Epoch + f64: integer-valued seconds (exact clause) and a few others (model = code only)
    rf = random.Random(seed * 17 + 4)
    ks = [0, 1, -1, 2, 59, 60, 86400, -86400, 9007199, -9007199, 9007200, 4294967296, 4611686018, 4611686019, 5000000001, 10**10, -10**10, 2**40, 2**53, 2**53 + 2,
          3155760000, 315576000000, -315576000000]
    for e in [(0, 0, 0), (-1, NPC - 1, 0), (0, 1, 4), (1, 5, 5), (-3, 17, 1), (32767, 0, 0), (-32768, 0, 7)]:
        for k in ks:
            out.append(f"eadd_f64 {p3(e)} {fbits(float(k))}")
        for x in (0.5, -0.5, 1e-9, 0.1, 1.0000000001, 1e300, -1e300, float('inf'), float('nan'), 5e-324):
            out.append(f"eadd_f64 {p3(e)} {fbits(x)}")
    for _ in range(budget(tier, 3000, 200000)):
        e = g.rand_epoch()
        k = rf.choice([rf.randint(-10**7, 10**7), rf.randint(-10**10, 10**10), rf.randint(-2**53, 2**53), rf.randint(-100, 100)])
        x = float(k) if rf.random() < 0.85 else k + rf.random()
        out.append(f"eadd_f64 {p3(e)} {fbits(x)}")
    return out


def gen_C05(tier, seed):
    g = EGen(seed)
    out = corpus("C05")
    vals = g.epoch_vals_pool() + [MINV, MAXV - 1, MINV + NPC, MAXV - NPC]
    for t1 in UNIFORM:
        for t2 in UNIFORM:
            for v in vals:
                out.append(f"conv {p3(parts_of(v) + (t1,))} {t2}")
    # the converted count lands exactly on (or one nanosecond beside) a century multiple in the target scale:
    # the result must carry into the next century, not read {k-1, a whole century of nanoseconds}
    zero = {0: 0, 1: -32184000000, 5: REF_NS[5], 8: REF_NS[8], 6: REF_NS[6], 7: REF_NS[7]}
    for t1 in UNIFORM:
        for t2 in UNIFORM:
            for k in (-32768, -32767, -100, -2, -1, 0, 1, 2, 3, 21, 100, 32766, 32767):
                for d in (-1, 0, 1):
                    v = k * NPC + d + zero[t2] - zero[t1]
                    if MINV <= v <= MAXV:
                        out.append(f"conv {p3(parts_of(v) + (t1,))} {t2}")
    for t in UNIFORM:
        out.append(f"conv 0 0 {t} 0")      # the scale's zero on the TAI axis
        for v in vals[:12]:
            out.append(f"to_greg {p2(parts_of(v))} {t}")   # the zero reads 00:00:00 of its date in the scale itself
            out.append(f"to_bdt {p2(parts_of(v))} {t}")
        out.append(f"to_greg 0 0 {t}")
    n = budget(tier, 40000, 2000000)
    for _ in range(n):
        e = g.rand_epoch(UNIFORM)
        out.append(f"conv {p3(e)} {g.r.choice(UNIFORM)}")
        if g.r.random() < 0.05:
            out.append(f"to_bdt {p3(e)}")
    return out


def gen_C06(tier, seed):
    g = EGen(seed)
    out = corpus("C06")
    for v in g.leap_neighbourhood(quick=(tier != "thorough")):
        c, n = parts_of(v)
        out.append(f"conv {c} {n} 4 0")      # UTC -> TAI
        out.append(f"conv {c} {n} 0 4")      # TAI -> UTC
        out.append(f"leap {c} {n} 4")
        out.append(f"leap {c} {n} 0")
    for v in [0, -1, 1, -NPC, LEAP_TS[0] * SEC - NPD, (LEAP_TS[0] - 365 * 86400 * 10) * SEC, 1893369600 * SEC, 2148508800 * SEC + 5,
              LEAP_TS[-1] * SEC + NPD, 2 * NPC, 5 * NPC, MINV, MAXV - 1]:
        c, n = parts_of(v)
        for t1, t2 in ((4, 0), (0, 4)):
            out.append(f"conv {c} {n} {t1} {t2}")
        out.append(f"leap {c} {n} 4")
    # results landing exactly on (or beside) a century multiple after the leap-second offset is applied or removed
    for k in (-32768, -100, -1, 0, 1, 2, 3, 100, 32766):
        for off in (0, 10, 32, 36, 37):
            for d in (-1, 0, 1):
                for v, t1, t2 in ((k * NPC + off * SEC + d, 0, 4), (k * NPC - off * SEC + d, 4, 0)):
                    if MINV <= v <= MAXV:
                        out.append(f"conv {p2(parts_of(v))} {t1} {t2}")
    for t in (1, 5, 6, 7, 8):
        for v in g.leap_neighbourhood()[::37]:
            c, n = parts_of(v)
            out.append(f"conv {c} {n} 4 {t}")
            out.append(f"conv {c} {n} {t} 4")
    n = budget(tier, 40000, 2000000)
    for _ in range(n):
        v = g.rand_epoch_val()
        c, n_ = parts_of(v)
        k = g.r.random()
        if k < 0.4:
            out.append(f"conv {c} {n_} 4 0")
        elif k < 0.8:
            out.append(f"conv {c} {n_} 0 4")
        elif k < 0.9:
            out.append(f"leap {c} {n_} {g.r.choice([0, 4])}")
        else:
            t = g.r.choice([1, 5, 6, 7, 8])
            out.append(f"conv {c} {n_} {g.r.choice([4, t])} {g.r.choice([4, t])}")
    return out


def gen_C12(tier, seed):
    g = EGen(seed)
    out = corpus("C12")
    # same instant in two scales, 1 ns apart, symmetric about each reference epoch, either side of leap seconds
    tai_instants = []
    for t, ref in REF_NS.items():
        for d in (-1000, -1, 0, 1, 1000):
            tai_instants.append(ref + d)
    for v in g.leap_neighbourhood()[::11]:
        tai_instants.append(v)
    def to_scale(i, t):
        # count in scale t of TAI instant i (python mirror of the spec, uniform scales only; UTC via table)
        if t == 4:
            d = 0
            for ts, dl in zip(LEAP_TS, LEAP_DELTA):
                if (ts + d) * SEC <= i:
                    d = dl
                else:
                    break
            return i - d * SEC
        zero = {0: 0, 1: -32184000000, 5: REF_NS[5], 8: REF_NS[8], 6: REF_NS[6], 7: REF_NS[7]}[t]
        return i - zero
    for i in tai_instants[:: (1 if tier == "thorough" else 3)]:
        for t1 in INT_SCALES:
            for t2 in INT_SCALES:
                for d in (-1, 0, 1):
                    a = parts_of(to_scale(i, t1)) + (t1,)
                    b = parts_of(to_scale(i + d, t2)) + (t2,)
                    out.append(f"ecmp {p3(a)} {p3(b)}")
                    out.append(f"eeq {p3(a)} {p3(b)}")
    # a UTC epoch in the last UTC second before an insertion against another scale's epoch exactly one second later, inside the
    # leap second: TAI -> UTC maps both instants to the same UTC count, so anything decided in the UTC operand's scale sees a tie
    prev = 0
    for ts_, dl in zip(LEAP_TS, LEAP_DELTA):
        L = (ts_ + prev) * SEC      # the insertion starts here on the TAI axis
        prev = dl
        for frac in (0, 1, 500000000, SEC - 1):
            x = L - SEC + frac
            for t2 in (0, 1, 5, 6, 7, 8):
                for dy in (SEC, SEC - 1, SEC + 1, 2 * SEC):
                    a = parts_of(to_scale(x, 4)) + (4,)
                    b = parts_of(to_scale(x + dy, t2)) + (t2,)
                    for f in ("ecmp", "eeq", "emin", "emax"):
                        out.append(f"{f} {p3(a)} {p3(b)}")
                        out.append(f"{f} {p3(b)} {p3(a)}")
    # two epochs of one scale so close to the Duration bounds that converting them to another scale saturates: still distinct, still ordered
    for t in INT_SCALES:
        for base, sg in ((MAXV, -1), (MINV, 1)):
            for d1, d2 in ((NPD, 2 * NPD), (SEC, 2 * SEC), (0, 1), (1, 2), (10 * NPD, 40 * 365 * NPD), (NPC // 2, NPC)):
                a = parts_of(base + sg * d1) + (t,); b = parts_of(base + sg * d2) + (t,)
                for f in ("ecmp", "eeq", "emin", "emax"):
                    out.append(f"{f} {p3(a)} {p3(b)}")
                    out.append(f"{f} {p3(b)} {p3(a)}")
    # symmetric about the reference in the same scale (the old Duration == quirk)
    for t in range(9):
        for d in (1, 1000, SEC, NPC - 1):
            a = parts_of(-d) + (t,); b = parts_of(d) + (t,)
            out.append(f"eeq {p3(a)} {p3(b)}")
            out.append(f"ecmp {p3(a)} {p3(b)}")
            out.append(f"emin {p3(a)} {p3(b)}")
            out.append(f"emax {p3(a)} {p3(b)}")
    n = budget(tier, 40000, 2000000)
    for _ in range(n):
        a = g.rand_epoch()
        k = g.r.random()
        if k < 0.5:
            b = g.rand_epoch()
        else:
            va = a[0] * NPC + a[1]
            b = parts_of(va + g.r.choice([-1, 0, 1, 37 * SEC, -37 * SEC, 19 * SEC, REF_NS[5], -REF_NS[5], 32184000000])) + (g.r.choice(INT_SCALES),)
        f = g.r.choice(["ecmp", "eeq", "ecmp", "eeq", "emin", "emax"])
        out.append(f"{f} {p3(a)} {p3(b)}")
    # operands in ET / TDB: the statement holds for instants more than 100 ns apart
    rc = random.Random(seed * 43 + 12)
    J2000 = 3155716800 * SEC
    for _ in range(budget(tier, 2500, 30000)):
        i1 = J2000 + rc.choice([rc.randint(-10**19, 10**19), rc.randint(-3 * 10**20, 3 * 10**20), rc.randint(-10**12, 10**12)])
        dd = rc.choice([-1, 1]) * rc.choice([101, 150, 200, 1000, 10**6, 10**9, 40 * 10**9, rc.randint(101, 10**10), 0, 50, 99])
        ta = rc.choice([2, 3]); tb = rc.choice([0, 1, 2, 3, 4, 5, 6, 7, 8])
        if tb == ta and rc.random() < 0.7:
            tb = 0
        # counts: float scale from J2000 (approximately, the spec computes the exact instant), integer scales from their zero
        va = i1 - J2000 - 32184000000
        vb = (i1 + dd - J2000 - 32184000000) if tb in (2, 3) else (i1 + dd - REF_NS.get(tb, 0) - (0 if tb != 4 else 0))
        pair = (parts_of(va) + (ta,), parts_of(vb) + (tb,))
        if rc.random() < 0.5:
            pair = (pair[1], pair[0])
        out.append(f"ecmpf {p3(pair[0])} {p3(pair[1])}")
    return out


def gen_C15(tier, seed):
    g = EGen(seed)
    out = corpus("C15")
    starts = [(0, 0, 0), (1, 5, 4), (-1, NPC - 7, 5), (0, LEAP_TS[-1] * SEC - 3 * SEC, 4), (0, LEAP_TS[-1] * SEC - 3 * SEC, 0),
              (0, NPC - 2 * SEC, 1), (-1, NPC - 2 * SEC, 7), (2, 123456789, 8), (1, 0, 6)]
    steps = [1, 2, 3, 7, 1000, SEC, 60 * SEC, NPD, NPC, 10 * SEC + 1]
    cnt = 12 if tier != "thorough" else 40
    for s in starts:
        for st in steps:
            for k in (0, 1, 2, 5, 10):
                for delta in (-1, 0, 1):
                    span = k * st + delta
                    if span < 0:
                        continue
                    sv = s[0] * NPC + s[1]
                    for t2 in (s[2], 0, 4, 5):
                        # the end given in another scale: same count shifted is fine, the spec re-expresses it
                        e = parts_of(sv + span) + (s[2],)
                        for incl in (0, 1):
                            sc, sn = parts_of(st)
                            if t2 == s[2]:
                                out.append(f"tseries {p3(s)} {p3(e)} {sc} {sn} {incl} {cnt}")
                            else:
                                e2 = parts_of(sv + span) + (t2,)
                                out.append(f"tseries {p3(s)} {p3(e2)} {sc} {sn} {incl} {cnt}")
    n = budget(tier, 3000, 100000)
    for _ in range(n):
        s = g.rand_epoch()
        st = g.r.choice(steps + [g.r.randint(1, 10**12)])
        k = g.r.randint(0, 30)
        span = k * st + g.r.choice([-1, 0, 1, g.r.randint(0, st)])
        if span < 0:
            span = 0
        sv = s[0] * NPC + s[1]
        e = parts_of(sv + span) + (g.r.choice([s[2], s[2], g.r.choice(INT_SCALES)]),)
        sc, sn = parts_of(st)
        out.append(f"tseries {p3(s)} {p3(e)} {sc} {sn} {g.r.randint(0, 1)} {g.r.randint(1, 40)}")
    return out


def gen_C20(tier, seed):
    g = EGen(seed)
    out = corpus("C20")
    weeks = [0, 1, 2, 1023, 1024, 2047, 2048, 5000, 2**31, 2**32 - 1]
    nss = [0, 1, 604800 * SEC - 1, 604800 * SEC, 604800 * SEC + 1, NPC, U64_MAX]
    for w in weeks:
        for ns in nss:
            for t in (0, 4, 5, 6, 7, 8):
                out.append(f"tow_build {w} {ns} {t}")
    for v in [0, 1, 604800 * SEC - 1, 604800 * SEC, 604800 * SEC + 1, NPC - 1, NPC, NPC + 1, 2 * NPC + 5, MAXV - 1, 1023 * 604800 * SEC, 1024 * 604800 * SEC - 1]:
        for t in (0, 4, 5, 6, 7, 8):
            c, n = parts_of(v)
            out.append(f"tow_split {c} {n} {t}")
    counters = [0, 1, SEC, NPC - 1, NPC, NPC + 1, 2 * NPC, U64_MAX, 2**63, 2**63 - 1]
    for n_ in counters:
        for t in (5, 6, 7, 8):
            out.append(f"from_ns {n_} {t}")
    for t2 in (5, 6, 7, 8):
        for t1 in INT_SCALES:
            for v in [REF_NS[t2], 0, -1, 1, NPC - 1, NPC, NPC + 1, REF_NS[t2] - 1, REF_NS[t2] + 1, REF_NS[t2] + NPC - 1, REF_NS[t2] + NPC,
                      REF_NS[t2] - REF_NS.get(t1, 0), REF_NS[t2] - REF_NS.get(t1, 0) - 1, REF_NS[t2] - REF_NS.get(t1, 0) + NPC - 1, REF_NS[t2] - REF_NS.get(t1, 0) + NPC]:
                c, n = parts_of(v)
                out.append(f"to_ns {c} {n} {t1} {t2}")
    n = budget(tier, 40000, 2000000)
    for _ in range(n):
        k = g.r.random()
        if k < 0.3:
            out.append(f"tow_build {g.r.choice(weeks + [g.r.randint(0, 2**32 - 1), g.r.randint(0, 6000)])} {g.r.choice(nss + [g.r.randint(0, 604800 * SEC), g.r.randint(0, U64_MAX)])} {g.r.choice([0, 4, 5, 6, 7, 8])}")
        elif k < 0.6:
            v = abs(g.rand_epoch_val())
            c, n_ = parts_of(v)
            out.append(f"tow_split {c} {n_} {g.r.choice([0, 4, 5, 6, 7, 8])}")
        elif k < 0.7:
            out.append(f"from_ns {g.r.choice(counters + [g.r.randint(0, U64_MAX)])} {g.r.choice([5, 6, 7, 8])}")
        else:
            e = g.rand_epoch()
            out.append(f"to_ns {p3(e)} {g.r.choice([5, 6, 7, 8])}")
    # day of year: float accessor, construction from (year, day of year), and the round trip
    rd = random.Random(seed * 37 + 20)
    for t in INT_SCALES:
        for y in (1, 4, 100, 400, 1899, 1900, 1972, 2000, 2016, 2023, 2024, 9999):
            for x in (1.0, 1.5, 2.0, 59.0, 60.0, 60.99999, 365.0, 365.5, 365.999999, 366.0, 366.5):
                if x < (367 if is_leap(y) else 366):
                    out.append(f"from_doy {y} {fbits(x)} {t}")
                    out.append(f"doy_rt {y} {fbits(x)} {t}")
            for off in (0, 1, NPD - 1, NPD, 59 * NPD, 364 * NPD + NPD - 1, 365 * NPD - 1):
                v = days_from_civil(y, 1, 1) * NPD + off - REF_NS.get(t, 0)
                out.append(f"doy {p3(parts_of(v) + (t,))}")
    for _ in range(budget(tier, 6000, 600000)):
        y = rd.choice([rd.randint(1, 9999), rd.randint(1890, 2110)]); t = rd.choice(INT_SCALES)
        k = rd.random()
        if k < 0.4:
            v = days_from_civil(y, 1, 1) * NPD + rd.randint(0, (366 if is_leap(y) else 365) * NPD - 1) - REF_NS.get(t, 0)
            out.append(f"doy {p3(parts_of(v) + (t,))}")
        else:
            x = rd.choice([float(rd.randint(1, 365)), rd.uniform(1.0, 366.0 if is_leap(y) else 365.0), rd.randint(1, 365) + rd.randint(0, 86399) / 86400.0])
            out.append(f"{'from_doy' if k < 0.7 else 'doy_rt'} {y} {fbits(x)} {t}")
    return out


# ------------------------------------------------------------------------------ calendar
def day_iter(y0, y1, step):
    n0 = days_from_civil(y0, 1, 1)
    n1 = days_from_civil(y1 + 1, 1, 1)
    return range(n0, n1, step)


def civil_from_days(n):
    z = n + 693901
    era = z // 146097
    doe = z % 146097
    yoe = (doe - doe // 1460 + doe // 36524 - doe // 146096) // 365
    doy = doe - (365 * yoe + yoe // 4 - yoe // 100)
    mp = (5 * doy + 2) // 153
    d = doy - (153 * mp + 2) // 5 + 1
    m = mp + 3 if mp < 10 else mp - 9
    y = yoe + era * 400 + (1 if m <= 2 else 0)
    return y, m, d


LEAP_DATES = [civil_from_days(ts // 86400 - 1) for ts in LEAP_TS]


def gen_C08(tier, seed):
    g = EGen(seed)
    out = corpus("C08")
    step = 7 if tier == "thorough" else 197
    tods = [(0, 0, 0, 0), (23, 59, 59, 999999999)]
    for n in day_iter(1, 9999, step):
        y, m, d = civil_from_days(n)
        for tod in tods:
            out.append(f"from_greg {y} {m} {d} {tod[0]} {tod[1]} {tod[2]} {tod[3]} 0")
        if n % 97 == 0:
            for t in range(1, 9):
                out.append(f"from_greg {y} {m} {d} 12 34 56 789 {t}")
    # all month ends and starts of a 400-year cycle, all nine scales on a few
    for y in list(range(1896, 1906)) + [1600, 1700, 1800, 2000, 2100, 2400, 1, 4, 100, 400, 9999, 9996]:
        for m in range(1, 13):
            for d in (1, 28, 29, 30, 31):
                for t in (0, 4, 5):
                    out.append(f"from_greg {y} {m} {d} 0 0 0 0 {t}")
    for (y, m, d) in LEAP_DATES:
        for t in range(9):
            out.append(f"from_greg {y} {m} {d} 23 59 60 0 {t}")
            out.append(f"from_greg {y} {m} {d} 23 59 60 999999999 {t}")
        out.append(f"from_greg {y} {m} {d} 23 58 60 0 4")
        out.append(f"from_greg {y} {m} {d} 22 59 60 0 4")
        out.append(f"from_greg {y} {m} {d - 1} 23 59 60 0 4")
        out.append(f"from_greg {y + 1} {m} {d} 23 59 60 0 4" if (y + 1, m, d) not in LEAP_DATES else "from_greg 2001 6 30 23 59 60 0 4")
    # rejection stream: all (month, day) pairs x kinds of years x field overflows
    for y in (2019, 2020, 1900, 2000, 2100, 1, 4, 9999, -4, 0, 30000, -30000):
        for m in range(0, 14):
            for d in range(0, 34):
                out.append(f"is_valid {y} {m} {d} 0 0 0 0")
                out.append(f"from_greg {y} {m} {d} 12 0 0 0 4")
        for h, mi, s, ns in [(24, 0, 0, 0), (25, 0, 0, 0), (23, 60, 0, 0), (23, 59, 60, 0), (23, 59, 61, 0), (0, 0, 0, 10**9), (0, 0, 0, 10**9 + 1),
                             (255, 0, 0, 0), (0, 255, 0, 0), (0, 0, 255, 0), (0, 0, 0, 2**32 - 1), (12, 30, 60, 0)]:
            out.append(f"is_valid {y} 6 30 {h} {mi} {s} {ns}")
            out.append(f"from_greg {y} 6 30 {h} {mi} {s} {ns} 0")
    # years beyond +/-3 000 000 of 1900 take the model's slow loop path (minutes each): thorough tier only
    for y in (-30000, -12345, -1, 0, 10000, 12345, 30000, 2**31 - 1, -2**31, 2999000, -2997000) + ((3001901, -2998102) if tier == "thorough" else ()):
        for (m, d) in ((1, 1), (2, 28), (3, 1), (12, 31), (6, 15)):
            out.append(f"from_greg {y} {m} {d} 0 0 0 0 0")
    n = budget(tier, 8000, 300000)
    for _ in range(n):
        r = g.r
        k = r.random()
        y = r.randint(1, 9999) if k < 0.7 else r.randint(-30000, 30000)
        m = r.randint(1, 12)
        d = r.randint(1, mlen(y, m)) if r.random() < 0.9 else r.randint(0, 32)
        h, mi, s, ns = r.randint(0, 23), r.randint(0, 59), r.randint(0, 59), r.choice([0, 1, 999999999, r.randint(0, 999999999)])
        if r.random() < 0.05:
            h, mi, s = r.choice([(24, 0, 0), (23, 59, 60), (r.randint(0, 30), r.randint(0, 70), r.randint(0, 70))])
        out.append(f"from_greg {y} {m} {d} {h} {mi} {s} {ns} {r.randint(0, 8)}")
    return out


def gen_doy_accessor(tier, seed):
    """day-of-year accessor cases (C09 states it agrees with the fields, C20 states its value): first and last instants of years,
    and UTC epochs after each inserted second, mid-year insertions in particular (the count in the year must not include it)"""
    out = []
    rd = random.Random(seed * 41 + 9)
    for t in INT_SCALES:
        for y in (1, 4, 100, 400, 1899, 1900, 1972, 1981, 1992, 1997, 2000, 2012, 2015, 2016, 2023, 2024, 9999):
            for off in (0, 1, NPD - 1, NPD, 59 * NPD, 181 * NPD, 182 * NPD, 183 * NPD + 5, 364 * NPD + NPD - 1, 365 * NPD - 1):
                v = days_from_civil(y, 1, 1) * NPD + off - REF_NS.get(t, 0)
                out.append(f"doy {p3(parts_of(v) + (t,))}")
    for ts_ in LEAP_TS:                      # UTC counts shortly after each insertion and half a year later
        for off in (0, 1, SEC, NPD, 100 * NPD, 183 * NPD):
            out.append(f"doy {p3(parts_of(ts_ * SEC + off) + (4,))}")
    for _ in range(budget(tier, 1500, 100000)):
        y = rd.choice([rd.randint(1, 9999), rd.randint(1960, 2030)]); t = rd.choice(INT_SCALES)
        v = days_from_civil(y, 1, 1) * NPD + rd.randint(0, (366 if is_leap(y) else 365) * NPD - 1) - REF_NS.get(t, 0)
        out.append(f"doy {p3(parts_of(v) + (t,))}")
    return out


def gen_C09(tier, seed):
    g = EGen(seed)
    out = corpus("C09") + gen_doy_accessor(tier, seed)
    step = 1 if tier == "thorough" else 17
    for n in day_iter(1, 9999, step):
        for tod in (0, NPD - 1):
            c, nn = parts_of(n * NPD + tod)
            out.append(f"to_greg {c} {nn} 0")
        if n % 89 == 0:
            for t in range(1, 9):
                c, nn = parts_of(n * NPD + g.r.randint(0, NPD - 1) - REF_NS.get(t, 0))
                out.append(f"to_greg {c} {nn} {t}")
    for y in (-30000, -10000, -1, 0, 1, 10000, 30000, 5000000, -5000000):
        for off in (-1, 0, 1, NPD - 1, NPD):
            v = days_from_civil(y, 1, 1) * NPD + off
            if MINV <= v < MAXV:
                c, nn = parts_of(v)
                out.append(f"to_greg {c} {nn} 0")
    for v in (MINV, MINV + 1, MAXV - 1, MAXV, 0, -1, 1):
        for t in range(9):
            c, nn = parts_of(v)
            out.append(f"to_greg {c} {nn} {t}")
    # the text forms: Display (own scale), to_gregorian_str / {:?} {:x} {:X} (UTC, TAI, TT), RFC 3339
    for n in day_iter(1, 9999, 1511 if tier != "thorough" else 97):
        for tod in (0, NPD - 1, 12 * 3600 * SEC + 500 * 10**6):
            for t in INT_SCALES:
                e = parts_of(n * NPD + tod - REF_NS.get(t, 0)) + (t,)
                out.append(f"disp_epoch {p3(e)}")
                out.append(f"greg_str {p3(e)} {g.r.choice([0, 1, 4, 5])}")
                out.append(f"rfc3339 {p3(e)}")
    for y in (-30000, -1, 0, 10000, 30000):
        e = parts_of(days_from_civil(y, 3, 1) * NPD + 1) + (0,)
        out.append(f"disp_epoch {p3(e)}")
    n = budget(tier, 30000, 1500000)
    for _ in range(n):
        r = g.r
        day = r.randint(days_from_civil(1, 1, 1), days_from_civil(9999, 12, 31)) if r.random() < 0.8 else r.randint(days_from_civil(-30000, 1, 1), days_from_civil(30000, 1, 1))
        tod = r.choice([0, 1, NPD - 1, r.randint(0, NPD - 1), r.randint(0, 86399) * SEC])
        t = r.randint(0, 8)
        c, nn = parts_of(day * NPD + tod - REF_NS.get(t, 0))
        out.append(f"to_greg {c} {nn} {t}")
    # year(), month_name(), hours() .. nanoseconds()
    ra = random.Random(seed * 13 + 9)
    for t in INT_SCALES:
        for v in g.epoch_vals_pool()[::3] + [days_from_civil(y, m, 1) * NPD + off for y in (-400, 1, 1899, 1900, 2000, 2024, 9999) for m in (1, 2, 3, 12) for off in (0, NPD - 1)]:
            out.append(f"accessors {p3(parts_of(v) + (t,))}")
    for _ in range(budget(tier, 3000, 300000)):
        out.append(f"accessors {p3(g.rand_epoch())}")
    return out


def gen_C16(tier, seed):
    g = EGen(seed)
    out = corpus("C16")
    for a in range(7):
        for n in range(256):
            out.append(f"wd_add_u8 {a} {n}")
            out.append(f"wd_sub_u8 {a} {n}")
        for b in range(7):
            out.append(f"wd_add {a} {b}")
            out.append(f"wd_diff {a} {b}")
    for n in range(256):
        out.append(f"wd_from_u8 {n}")
        out.append(f"wd_from_i8 {n - 128}")
    step = 1 if tier == "thorough" else 23
    for n in day_iter(1, 9999, step):
        for tod in (0, NPD - 1):
            c, nn = parts_of(n * NPD + tod)
            out.append(f"weekday {c} {nn} 0")
        if n % 7 == 3:
            c, nn = parts_of(n * NPD + NPD - 1)
            out.append(f"weekday_utc {c} {nn} 4")
            out.append(f"weekday {c} {nn} {g.r.choice(INT_SCALES)}")
    for v in g.leap_neighbourhood()[::3]:
        c, nn = parts_of(v)
        out.append(f"weekday_utc {c} {nn} 4")
        out.append(f"weekday_utc {c} {nn} 0")
        out.append(f"weekday {c} {nn} 4")
    n = budget(tier, 20000, 1000000)
    for _ in range(n):
        e = g.rand_epoch()
        k = g.r.random()
        if k < 0.3:
            out.append(f"weekday {p3(e)}")
        elif k < 0.45:
            out.append(f"weekday_utc {p3(e)}")
        elif k < 0.75:
            out.append(f"next {p3(e)} {g.r.randint(0, 6)}")
        else:
            out.append(f"prev {p3(e)} {g.r.randint(0, 6)}")
    # next/previous weekday at midnight / noon, with_hms_strict (model = code; with_hms has a spec)
    rw = random.Random(seed * 11 + 16)
    for t in (0, 4, 5):
        for v in [0, 1, -1, NPD, -NPD, NPD // 2, -NPD // 2, -NPD - 1, 36524 * NPD + 43200 * SEC, 3 * NPC + 5, -3 * NPC - 5]:
            e = parts_of(v) + (t,)
            for w in range(7):
                for h in (0, 12):
                    out.append(f"next_at {p3(e)} {w} {h}")
                    out.append(f"prev_at {p3(e)} {w} {h}")
            for hms in ((0, 0, 0), (12, 0, 0), (23, 59, 59), (24, 0, 0), (1, 61, 61), (2**40, 0, 0), (0, 0, 2**63)):
                out.append(f"with_hms {p3(e)} {hms[0]} {hms[1]} {hms[2]}")
    for _ in range(budget(tier, 3000, 300000)):
        e = g.rand_epoch()
        k = rw.random()
        if k < 0.35:
            out.append(f"next_at {p3(e)} {rw.randint(0, 6)} {rw.choice([0, 12])}")
        elif k < 0.7:
            out.append(f"prev_at {p3(e)} {rw.randint(0, 6)} {rw.choice([0, 12])}")
        else:
            out.append(f"with_hms {p3(e)} {rw.choice([rw.randint(0, 23), rw.randint(0, 10**6)])} {rw.choice([rw.randint(0, 59), rw.randint(0, 10**6)])} {rw.choice([rw.randint(0, 59), rw.randint(0, 10**9)])}")
    return out


GENERATORS.update({"C04": gen_C04, "C05": gen_C05, "C06": gen_C06, "C12": gen_C12, "C15": gen_C15, "C20": gen_C20,
                   "C08": gen_C08, "C09": gen_C09, "C16": gen_C16})


# ------------------------------------------------------------------------------ floats
import struct


def fbits(x):
    return struct.unpack("<Q", struct.pack("<d", x))[0]


def gen_C18(tier, seed):
    g = EGen(seed)
    r = g.r
    out = corpus("C18")
    specials = [0.0, -0.0, 5e-324, -5e-324, 2.2250738585072014e-308, 1.0, -1.0, 0.5, 1.5, 2.0**53, 2.0**53 + 2, 2.0**53 - 1, -(2.0**53),
                1e-9, 1e-10, 0.1, 0.3, 1e-300, -1e-300, -1e-40, 1e-20, 1e300, -1e300, 1.7976931348623157e308, -1.7976931348623157e308,
                float("inf"), float("-inf"), float("nan"), 9.223372036854775e18, 9.223372036854776e18, 9.223372036854778e18,
                -9.223372036854775e18, -9.223372036854776e18, 1.0341e23, -1.0341e23, 3.2768e4, 32768.0, -32768.0, 32767.999999999996]
    for u in range(9):
        f = UNIT_FACTORS[u]
        vals = specials + [MAXV / f, -MAXV / f, (2.0**63) / f, -(2.0**63) / f, 1.7976931348623157e308 / f, -1.7976931348623157e308 / f]
        for x in vals:
            b = fbits(x)
            for db in (-1, 0, 1):
                bb = b + db
                if 0 <= bb < 2**64:
                    out.append(f"unit_mul_f64 {u} {bb}")
        for k in (1, 2, 3, 7, 10, 59, 60, 86399, 86400, 10**6, 10**9 + 1, 2**40 + 1):
            out.append(f"unit_mul_f64 {u} {fbits(float(k))}")
            out.append(f"unit_mul_f64 {u} {fbits(-float(k))}")
            out.append(f"unit_mul_f64 {u} {fbits(k + 0.5)}")
            out.append(f"unit_mul_f64 {u} {fbits(k / 1024.0)}")
    pool = g.parts_pool()
    for d in pool:
        out.append(f"to_seconds {p2(d)}")
        for u in range(9):
            out.append(f"to_unit {p2(d)} {u}")
    durs10k = [parts_of(v) for v in (0, 1, -1, SEC, -SEC, NPD - 1, -NPD + 1, NPC, -NPC, 100 * NPC - 1, -100 * NPC + 1, 3 * 10**20, -3 * 10**20, 36525 * NPD + 7)]
    for d in durs10k:
        for x in specials:
            out.append(f"dur_mul_f64 {p2(d)} {fbits(x)}")
    n = budget(tier, 40000, 2000000)
    for _ in range(n):
        k = r.random()
        if k < 0.35:
            # random bit patterns, plus values near integers
            kk = r.random()
            if kk < 0.4:
                b = r.getrandbits(64)
            elif kk < 0.7:
                b = fbits(r.choice([-1, 1]) * (r.randint(0, 10**12) + r.choice([0, 0, 0.5, 2**-20, -2**-20, 1e-9])))
            else:
                b = fbits(r.choice([-1, 1]) * 10 ** r.uniform(-30, 25))
            out.append(f"unit_mul_f64 {r.randint(0, 8)} {b}")
        elif k < 0.6:
            d = g.rand_parts() if r.random() < 0.5 else parts_of(r.randint(-3 * 10**20, 3 * 10**20))
            if r.random() < 0.5:
                out.append(f"to_seconds {p2(d)}")
            else:
                out.append(f"to_unit {p2(d)} {r.randint(0, 8)}")
        else:
            d = parts_of(r.choice([r.randint(-3 * 10**20, 3 * 10**20), r.randint(-10**12, 10**12), g.rand_epoch_val()]))
            kk = r.random()
            if kk < 0.3:
                b = r.getrandbits(64)
            elif kk < 0.7:
                b = fbits(r.choice([-1, 1]) * 10 ** r.uniform(-25, 12))
            else:
                b = fbits(r.choice([-1, 1]) * (r.randint(0, 1000) + r.choice([0, 0.5, 0.25, 0.1, 1e-9])))
            out.append(f"dur_mul_f64 {p2(d)} {b}")
    return out


GENERATORS["C18"] = gen_C18


def gen_C17(tier, seed):
    g = EGen(seed)
    r = g.r
    out = corpus("C17")
    vals = g.epoch_vals_pool() + [days_from_civil(y, 1, 1) * NPD + off for y in (-8100, -1000, 1, 1600, 1858, 1969, 1970, 1972, 2000, 2017, 5000, 11900)
                                  for off in (0, 1, NPD // 2, NPD - 1)]
    for t in INT_SCALES:
        for v in vals:
            e = parts_of(v) + (t,)
            for f in ("v_jde_tai_dur", "v_jde_utc_dur", "v_jde_tt_dur", "v_mjd_tt_dur", "v_tt_j2k", "v_jde_utc_days", "v_tt_cent"):
                out.append(f"{f} {p3(e)}")
            for u in (3, 6):
                for f in ("v_mjd_tai", "v_mjd_utc", "v_jde_tai", "v_unix"):
                    out.append(f"{f} {p3(e)} {u}")
    xs = [0.0, 15020.0, 15020.5, 51544.5, 40587.0, 2415020.5, 2451545.0, 2440587.5, 1.0, -1.0, 60000.123456789, 2460000.987654321, -678576.0, 5373484.5,
          1e-9, 123456789.125, -3652425.0, 3652425.0]
    for x in xs:
        for t in INT_SCALES:
            out.append(f"from_mjd {fbits(x)} {t}")
            out.append(f"from_jde {fbits(x)} {t}")
        out.append(f"from_unix_s {fbits(x)}")
        out.append(f"from_unix_ms {fbits(x)}")
    for d in g.small_parts_pool() + g.parts_pool()[::5]:
        out.append(f"from_unix_d {p2(d)}")
    for k in range(60):
        out.append(f"from_unix_s {fbits(float(k * 86400 * 365))}")
        out.append(f"from_unix_ms {fbits(k * 1000.5)}")
    n = budget(tier, 30000, 1500000)
    for _ in range(n):
        k = r.random()
        if k < 0.6:
            v = r.choice([r.randint(-3 * 10**20, 3 * 10**20), g.rand_epoch_val()])
            e = parts_of(v) + (r.choice(INT_SCALES),)
            f = r.choice(["v_jde_tai_dur", "v_jde_utc_dur", "v_jde_tt_dur", "v_mjd_tt_dur", "v_tt_j2k", "v_jde_utc_days", "v_tt_cent",
                          "v_mjd_tai", "v_mjd_utc", "v_jde_tai", "v_unix"])
            if f in ("v_mjd_tai", "v_mjd_utc", "v_jde_tai", "v_unix"):
                out.append(f"{f} {p3(e)} {r.randint(0, 8)}")
            else:
                out.append(f"{f} {p3(e)}")
        elif k < 0.8:
            x = r.choice([r.uniform(-3.6e6, 3.7e6), r.uniform(2.4e6, 2.5e6), float(r.randint(-3600000, 3700000)), r.randint(0, 10**6) / 1024.0 + 15020])
            out.append(f"{r.choice(['from_mjd', 'from_jde'])} {fbits(x)} {r.choice(INT_SCALES)}")
        elif k < 0.95:
            x = r.choice([r.uniform(-3e11, 3e11), float(r.randint(-10**10, 10**10)), r.randint(0, 2**40) / 1024.0])
            out.append(f"{r.choice(['from_unix_s', 'from_unix_ms'])} {fbits(x)}")
        else:
            out.append(f"from_unix_d {p2(g.rand_parts())}")
    return out


GENERATORS["C17"] = gen_C17


# ------------------------------------------------------------------------------ text
def enc(s):
    return "[" + ",".join(str(ord(c)) for c in s) + "]"


DOC_FORMATS = ["%Y-%m-%dT%H:%M:%S.%f %T", "%Y-%m-%dT%H:%M:%S.%f? %T?", "%Y-%m-%dT%H:%M:%S.%f%z", "%Y-%m-%dT%H:%M:%S.%f?%z",
               "%Y-%m-%d", "%Y-%j", "%a, %d %b %Y %H:%M:%S", "%A, %d %B %Y %H:%M:%S", "%Y-%m-%dT%H:%M:%S.%f"]
SUPPORTED = "YmdHMSfjAaBbTz"
SEPS = "-:/ T,._;|#"


def rand_format(r, ntok=None, full=False):
    n = ntok or r.randint(1, 16)
    toks = [r.choice(SUPPORTED) for _ in range(n)]
    if full:
        base = list("YmdHMSf")
        r.shuffle(base)
        toks = base + [r.choice("jAaBbT") for _ in range(r.randint(0, 3))]
    out = ""
    for i, t in enumerate(toks):
        out += "%" + t
        if i < len(toks) - 1:
            k = r.choice([0, 1, 1, 1, 2]) if not full else r.choice([1, 1, 2])
            out += "".join(r.choice(SEPS) for _ in range(k))
    return out


def epoch_pool_calendar(g, n):
    out = []
    for _ in range(n):
        day = g.r.randint(days_from_civil(1, 1, 1), days_from_civil(9999, 12, 31))
        tod = g.r.choice([0, 1, NPD - 1, g.r.randint(0, NPD - 1), g.r.randint(0, 86399) * SEC, 12 * 3600 * SEC + 500 * 10**6])
        t = g.r.choice(INT_SCALES)
        out.append(parts_of(day * NPD + tod - REF_NS.get(t, 0)) + (t,))
    return out


def gen_C19(tier, seed):
    g = EGen(seed)
    r = g.r
    out = corpus("C19")
    for k in range(9):
        out.append(f"fmt_const {k}")
    for f in DOC_FORMATS:
        out.append(f"fmt_debug {enc(f)}")
    fixed = [(1, 536457599999999999, 4), (1, 536457600000000000, 0), (0, 0, 0), (-1, NPC - 1, 4), (0, 2524953619000000000, 5), (1, 2, 7),
             parts_of(days_from_civil(2000, 2, 29) * NPD + 53849 * SEC + 37) + (4,), parts_of(days_from_civil(1999, 12, 31) * NPD + NPD - 1) + (0,),
             parts_of(days_from_civil(2023, 4, 27) * NPD + 46526 * SEC) + (4,), parts_of(days_from_civil(1, 1, 1) * NPD) + (4,),
             parts_of(days_from_civil(9999, 12, 31) * NPD + NPD - 1) + (4,)]
    offsets = [(0, 0), (0, 5 * 3600 * SEC), (-1, NPC - 5 * 3600 * SEC), (0, 23 * 3600 * SEC + 59 * 60 * SEC), (-1, NPC - (23 * 3600 + 59 * 60) * SEC),
               (0, 90 * 60 * SEC), (0, 36 * 3600 * SEC + 15 * 60 * SEC), (0, 3600 * SEC + 30 * SEC)]
    for e in fixed:
        for k in range(9):
            out.append(f"fmt_render_const {p3(e)} 0 0 0 {k}")
            for o in offsets[:5]:
                out.append(f"fmt_render_const {p3(e)} {p2(o)} 1 {k}")
        for f in DOC_FORMATS + ["%j, %T", "%A %j", "%a", "%T", "%z", "%j", "%w", "%y", "%H:%M", "%Y%m%d", "%d/%m/%Y %H:%M:%S", "%B %d, %Y", "%b-%d",
                                "%Y-%m-%dT%H:%M:%S %T %A %a %B %b %j %z %f %Y %m %d"]:
            out.append(f"fmt_render {p3(e)} 0 0 0 {enc(f)}")
    for f in ["", "%", "%%", "%Q", "abc", "%Y-", "%Y--", "%Y---%m", "%A, ", "%A,?", "%y,?", "%p", "%Y?", "%?", "%Y?-", "%é", "%Yé%m", "x%Y",
              "%Y" * 16, "%Y" * 17, "%Y-" * 16, "%Y-%m" * 9, "%f?" * 16, "%J", "%Y %J"]:
        out.append(f"fmt_debug {enc(f)}")
    utc_pool = [parts_of(r.randint(days_from_civil(1, 1, 1), days_from_civil(9999, 12, 31)) * NPD + r.choice([0, 1, NPD - 1, r.randint(0, NPD - 1)])) for _ in range(200)]
    # calendar boundary days (the 366th day of leap years in particular: formats with %j must read it back), first and last nanosecond
    boundary = [parts_of(days_from_civil(y, mo, d) * NPD + tod) for y in (1904, 2000, 2016, 2020, 2024, 2023, 1900, 9996)
                for (mo, d) in ((12, 31), (1, 1), (2, 28), (2, 29), (3, 1), (12, 30)) if not (mo == 2 and d == 29 and not is_leap(y))
                for tod in (0, NPD - 1, 86398 * SEC + 123456789)]
    for e in boundary:
        for f in ["%Y-%m-%d %j %H:%M:%S.%f", "%j/%Y %m-%dT%H:%M:%S.%f", "%A, %d %B %Y (%j) %H:%M:%S.%f", "%Y-%m-%dT%H:%M:%S.%f", "%Y-%j"]:
            out.append(f"rt_fmt {p2(e)} {enc(f)}")
        out.append(f"rt_fmt_const {p2(e)} 7")
    utc_pool = boundary[::5] + utc_pool
    for e in utc_pool[:40]:
        for k in range(9):
            out.append(f"rt_fmt_const {p2(e)} {k}")
        for f in ["%Y-%m-%dT%H:%M:%S.%f", "%d/%m/%Y %H:%M:%S.%f", "%f %S %M %H %d %m %Y", "%Y_%m_%d_%H_%M_%S_%f", "%H:%M:%S.%f %Y/%m/%d"]:
            out.append(f"rt_fmt {p2(e)} {enc(f)}")
    for _ in range(budget(tier, 4000, 200000)):
        e = r.choice(utc_pool)
        out.append(f"rt_fmt {p2(e)} {enc(rand_format(r, full=(r.random() < 0.7)))}")
    n = budget(tier, 15000, 500000)
    pool = epoch_pool_calendar(g, 300)
    for _ in range(n):
        # keep the year within 2.9 million years of 1900: beyond that the model of from_gregorian(year, 1, 1) (used by %j)
        # takes its slow loop path
        e = r.choice(pool) if r.random() < 0.8 else parts_of(max(-9 * 10**22, min(9 * 10**22, g.rand_epoch_val()))) + (r.choice(INT_SCALES),)
        f = rand_format(r)
        k = r.random()
        if k < 0.1:
            out.append(f"fmt_debug {enc(f)}")
        elif k < 0.8:
            out.append(f"fmt_render {p3(e)} 0 0 0 {enc(f)}")
        elif k < 0.9:
            o = r.choice(offsets + [parts_of(r.choice([-1, 1]) * (r.randint(0, 23) * 3600 + r.randint(0, 59) * 60) * SEC)])
            out.append(f"fmt_render {p3(e)} {p2(o)} 1 {enc(f)}")
        else:
            o = r.choice(offsets)
            out.append(f"fmt_render_const {p3(e)} {p2(o)} {r.randint(0, 1)} {r.randint(0, 8)}")
    # ISO 8601 formatter against Display: whole seconds (known finding) and fractional epochs, all integer scales
    rr = random.Random(seed * 31 + 19)
    for t in INT_SCALES:
        for v in (0, 1, SEC, SEC + 1, -SEC, -1, NPD, NPD - 1, 3786825600 * SEC, 3786825600 * SEC + 37, -59958230400 * SEC + 5):
            out.append(f"iso_vs_display {p3(parts_of(v) + (t,))}")
    for _ in range(budget(tier, 600, 60000)):
        v = rr.randint(-59958230400, 253402300799 - 3155716800) * SEC + rr.choice([0, 0, 1, 999999999, rr.randint(0, SEC - 1), 500000000, 1000, 1000000])
        out.append(f"iso_vs_display {p3(parts_of(v) + (rr.choice(INT_SCALES),))}")
    return out


def durs10k_c11():
    return [parts_of(v) for v in (0, 1, -1, 999, 1000, SEC, -SEC, NPD - 1, -NPD + 1, NPD, NPC, -NPC, 100 * NPC - 1, -100 * NPC + 1, 3 * 10**20, -3 * 10**20, 36525 * NPD + 7,
                                  86399999999999, 3155759999999999999, -3155759999999999999)]


def gen_C11(tier, seed):
    g = EGen(seed)
    r = g.r
    out = corpus("C11")
    for d in g.parts_pool():
        out.append(f"decompose {p2(d)}")
        out.append(f"disp_dur {p2(d)}")
        out.append(f"signum {p2(d)}")
        for u in range(9):
            out.append(f"subdivision {p2(d)} {u}")
    # values within a few ns of a whole number of each unit, both signs, up to 10 000 years and beyond
    for u in range(7):
        f = UNIT_FACTORS[u]
        for k in (1, 2, 23, 24, 59, 60, 999, 1000, 36524, 36525, 3000000, 3652425, 10**7 + 1):
            for dl in (-3, -1, 0, 1, 3):
                for sg in (1, -1):
                    v = sg * (k * f + dl)
                    if abs(v) < MAXV:
                        d = parts_of(v)
                        out.append(f"decompose {p2(d)}")
                        out.append(f"disp_dur {p2(d)}")
    n = budget(tier, 40000, 2000000)
    for _ in range(n):
        k = r.random()
        if k < 0.5:
            u = r.randint(0, 6)
            v = r.choice([-1, 1]) * (int(10 ** r.uniform(0, 9)) * UNIT_FACTORS[u] + r.randint(-3, 3))
            v = max(MINV, min(MAXV - 1, v))
        elif k < 0.9:
            v = r.randint(-3 * 10**20, 3 * 10**20)
        else:
            v = r.randint(MINV, MAXV - 1)
        d = parts_of(v)
        out.append(f"{r.choice(['decompose', 'disp_dur', 'disp_dur', 'compose_decompose'])} {p2(d)}")
    # parse-back of the printed form (durations up to 10 000 years) and the documented grammar against the value it denotes
    from fractions import Fraction
    rp = random.Random(seed * 29 + 11)
    SPELL = {"d": NPD, "days": NPD, "day": NPD, "h": 3600 * SEC, "hours": 3600 * SEC, "hour": 3600 * SEC, "min": 60 * SEC, "mins": 60 * SEC,
             "minute": 60 * SEC, "s": SEC, "second": SEC, "seconds": SEC, "ms": 10**6, "millisecond": 10**6, "milliseconds": 10**6,
             "us": 1000, "microsecond": 1000, "microseconds": 1000, "ns": 1, "nanosecond": 1, "nanoseconds": 1}
    ORDER = ["d", "h", "min", "s", "ms", "us", "ns"]

    def pdv(text, value, tol):
        fr = Fraction(value)
        return f"p_dur_v {enc(text)} {fr.numerator} {fr.denominator} {tol}"
    for d in durs10k_c11():
        out.append(f"rt_dur {p2(d)}")
    # single-component texts of every length ("-13 \u03bcs" is seven bytes, like an offset -HHMMSS), then two-component ones
    for f in UNIT_FACTORS[:7]:
        for k in (1, 2, 9, 10, 13, 59, 99, 100, 101, 999):
            for sg in (1, -1):
                if k * f < MAXV:
                    out.append(f"rt_dur {p2(parts_of(sg * k * f))}")
        for f2 in UNIT_FACTORS[:7]:
            if f2 < f:
                for k, k2 in ((1, 1), (13, 7), (10, 10), (23, 59)):
                    out.append(f"rt_dur {p2(parts_of(-(k * f + k2 * f2)))}")
                    out.append(f"rt_dur {p2(parts_of(k * f + k2 * f2))}")
    for sp, f in SPELL.items():
        for k in (0, 1, 2, 59, 999, 1000, 10**6, 3652425):
            if k * f < 2**53:
                out.append(pdv(f"{k} {sp}", k * f, 0))
                out.append(pdv(f"-{k} {sp}", -k * f, 0))
        for x in ("1.5", "0.25", "12.125", "10.598", "0.000000001", "3.999999999"):
            v = Fraction(x) * f
            out.append(pdv(f"{x} {sp}", v, 1 + int(abs(v)) // 2**50))
    out.append(pdv("5 h 256 ms 1 ns", 5 * 3600 * SEC + 256 * 10**6 + 1, 0))
    out.append(pdv("-5 h 256 ms 1 ns", -(5 * 3600 * SEC + 256 * 10**6 + 1), 0))
    out.append(pdv("1 d 2 h 3 min 4 s 5 ms 6 us 7 ns", NPD + 2 * 3600 * SEC + 3 * 60 * SEC + 4 * SEC + 5 * 10**6 + 6000 + 7, 0))
    for h in (0, 1, 5, 12, 23, 36):
        for m in (0, 15, 30, 59):
            for sg, sv in (("+", 1), ("-", -1)):
                out.append(pdv(f"{sg}{h:02}:{m:02}", sv * (h * 3600 + m * 60) * SEC, 0))
                out.append(pdv(f"{sg}{h:02}{m:02}", sv * (h * 3600 + m * 60) * SEC, 0))
                out.append(pdv(f"{sg}{h:02}:{m:02}:07", sv * (h * 3600 + m * 60 + 7) * SEC, 0))
    for _ in range(budget(tier, 6000, 400000)):
        k = rp.random()
        if k < 0.35:
            v = rp.choice([rp.randint(-3 * 10**20, 3 * 10**20), rp.choice([-1, 1]) * int(10 ** rp.uniform(0, 20)), rp.randint(-10**12, 10**12)])
            out.append(f"rt_dur {p2(parts_of(v))}")
        elif k < 0.7:
            sp = rp.choice(list(SPELL)); f = SPELL[sp]
            kk = rp.choice([rp.randint(0, 1000), rp.randint(0, 10**6), rp.randint(0, min(2**53 // f, 10**12))])
            sg = rp.choice(["", "", "-"])
            if kk * f < 2**53:
                out.append(pdv(f"{sg}{kk} {sp}", (-1 if sg else 1) * kk * f, 0))
        elif k < 0.85:
            sp = rp.choice(list(SPELL)); f = SPELL[sp]
            digs = rp.randint(1, 9)
            x = f"{rp.randint(0, 10**4)}.{rp.randint(0, 10**digs - 1):0{digs}d}"
            v = Fraction(x) * f
            out.append(pdv(f"{x} {sp}", v, 1 + int(abs(v)) // 2**50))
        else:
            comps = []; tot = 0
            for u in ORDER:
                if rp.random() < 0.5:
                    kk = rp.randint(0, 999)
                    comps.append(f"{kk} {u}"); tot += kk * SPELL[u]
            if comps:
                sg = rp.choice(["", "-"])
                out.append(pdv(sg + " ".join(comps), (-1 if sg else 1) * tot, 0))
    # Epoch::hours() .. nanoseconds() expose the decomposition
    for d in g.parts_pool()[::4]:
        for t in (0, 4, 5):
            out.append(f"accessors {p2(d)} {t}")
    for _ in range(budget(tier, 1500, 100000)):
        out.append(f"accessors {p3(g.rand_epoch())}")
    return out


GENERATORS["C19"] = gen_C19
GENERATORS["C11"] = gen_C11


# ------------------------------------------------------------------------------ parsers
NASTY = ["é", "٢", "½", " ", "μ", "²", "𝟙", " ", "٠", "Ⅷ", "T", "Z", "+", "-", ":", ".", " ", "0", "9", "%", "?", "e", "E", "_", "\t", "\n", "x"]


def mutate(r, s, n=1):
    for _ in range(n):
        k = r.random()
        i = r.randint(0, len(s)) if s else 0
        if k < 0.25 and s:
            s = s[:max(0, i - 1)] + s[i:]                      # delete
        elif k < 0.55:
            s = s[:i] + r.choice(NASTY) + s[i:]                # insert
        elif k < 0.8 and s:
            j = min(len(s) - 1, i)
            s = s[:j] + r.choice(NASTY) + s[j + 1:]            # substitute
        elif k < 0.9:
            s = s[:i]                                          # truncate
        else:
            s = s[:i] + r.choice(["9" * r.randint(5, 40), "1e400", "inf", "nan", "-", "0" * 12]) + s[i:]
    return s


EPOCH_TEXTS = ["2017-01-14T00:31:55 UTC", "2017-01-14T00:31:55.0000 UTC", "2017-01-14T00:31:55", "2017-01-14 00:31:55", "2017-01-14 00:31:55.811 UTC",
               "1994-11-05T13:15:30Z", "1994-11-05T08:15:30-05:00", "1994-11-05T08:15:30+10:30", "2018-02-13T23:08:32.123456983Z",
               "2000-02-29T14:57:29.000000037 TAI", "1900-01-01T00:00:00 TT", "2020-06-30T23:59:60 UTC", "2016-12-31T23:59:60 UTC", "1980-01-06T00:00:00 GPST",
               "2006-01-01T00:00:00 BDT", "1999-08-22T00:00:00 GST", "2020-01-01T00:00:00 QZSST", "2000-01-01T12:00:00 ET", "2000-01-01T12:00:00 TDB",
               "JD 2452312.500372511 TDB", "JD 2452312.500372511 ET", "JD 2452312.500372511 TAI", "JD 2452312.5 UTC", "MJD 51544.5 TAI", "MJD 51544.5 UTC",
               "MJD 51544.5 GPST", "MJD 51544.5 GST", "MJD 51544.5 BDT", "MJD 51544.5 TT", "MJD 51544.5 QZSST", "SEC 0.5 TAI", "SEC 66312032.18493909 TDB",
               "SEC 1.5 GPST", "SEC 1 QZSST", "SEC 17.25 TT", "SEC 3 UTC", "SEC 5 ET", "SEC -12.5 BDT", "SEC 0.5TAI", "JD 1 éé", "ééééé", "٢٠١٧-01-14T00:31:55",
               "2017-01-14T00:31:55.½ UTC", "SEC inf TAI", "SEC nan TAI", "JD inf ET", "MJD infinity UTC", "SEC 1e400 TAI", "JDXXXXX", "MJDAAAA", "SEC    TAI",
               "2147483647-12-31T23:59:00", "-2147483648-01-01T00:00:00", "2017-13-01T00:00:00", "2017-02-30T00:00:00", "2017-01-14T25:00:00", "2017-01-14T00:60:00",
               "2017-01-14T00:00:61", "2017-01-14T00:31:55.1234567890 UTC", "2017-01-14T00:31:55.123456789012 UTC", "2017-01-14T00:31:55 +01:00", "", "       ", "T",
               "2017-01-14T00:31:55+1:00", "2017-01-14T00:31:55+99:00", "2017-01-14T00:31:55+01:99", "2017-01-14T00:31:55.5+01:30 GPST", "0001-01-01T00:00:00 UTC",
               "9999-12-31T23:59:59.999999999 UTC", "10000-01-01T00:00:00 UTC", "2017-1-4T0:1:5", "2017-01-14T00:31:55Z UTC", "2017-01-14T00:31:55  UTC", "99999999999-01-01T00:00:00"]
DUR_TEXTS = ["1 d", "10.598 days", "10.598 min", "10.598 us", "10.598 seconds", "10.598 nanosecond", "5 h 256 ms 1 ns", "-01:15:30", "+3615", "-5 h 256 ms 1 ns",
             "1 day 99 ns", "36525 days 1 min 39 s", "10 s 100 ms", "0 ns", "-1 ns", "1 μs", "1 us", "3 hr", "2 mins", "4 minutes", "7 hours", "1 sec", "9 milliseconds",
             "8 microsecond", "+01:30", "-00:00", "+05", "+0530", "-053015", "+05:30:15", "+aé", "+é", "-", "+", "", " ", "5", "5 ", "5 x", "5  d", "d", "5 d 6", "5 d  6 h",
             "inf d", "nan s", "1e400 d", "-inf d", "1e-400 ns", "5 dé", "é d", "5 μ", "1.5 d 1.5 h 1.5 min 1.5 s 1.5 ms 1.5 us 1.5 ns", "0.5 d", "0.25 h", "1.125 s",
             "99999999999999999999 d", "-99999999999999999999 d", "+99:99:99", "+1:2", "-1:15:30", "+12345", "+123456789", "5 d", "5 d ", "  5 d  ", "5 D", "5 Days"]
NAME_TEXTS = ["UTC", "TT", "TAI", "TDB", "ET", "GPST", "GPS", "GST", "GAL", "BDT", "BDS", "QZSST", "QZSS", " UTC ", "utc", "", "é", "UT", "UTCC", "mon", "Mon", "MON", "monday",
              "Monday", "MONDAY", "tue", "Wed", "THU", "friday", "Saturday", "SUNDAY", "Sund", " sun ", "jan", "Jan", "JANUARY", "february", "Mar", "apr", "may", "May", "MAY",
              "june", "Jul", "AUG", "september", "oct", "Nov", "december", "Decem", "janv", "mAy"]


# typographic look-alikes of the ASCII characters the parsers give a meaning to (signs, digits, separators, letters): a parser that
# starts honouring one of them usually keeps a byte offset computed for its one-byte ASCII counterpart
LOOKALIKE = ["\u2212", "\u2010", "\u2011", "\u2012", "\u2013", "\u2014", "\u2015", "\ufe63", "\uff0d", "\u207b", "\u208b", "\u00ad", "\u02d7",   # minus / dashes
             "\uff0b", "\u207a", "\u208a", "\ufe62", "\u00b1", "\u2795",                                                                                # plus
             "\uff10", "\uff11", "\uff19", "\u0660", "\u0661", "\u06f0", "\u0966", "\u00b2", "\u00b9", "\u2460", "\U0001d7d8", "\U0001d7ce",     # digits
             "\uff1a", "\ua789", "\u2236", "\ufe55", "\uff0e", "\u2024", "\uff0c", "\u00a0", "\u2003", "\u200b", "\u3000", "\ufeff",             # : . , spaces
             "\uff34", "\uff3a", "\u0422", "\u0396", "\u03bc", "\u00b5", "\uff05", "\ufe6a", "\uff1f"]                                              # T Z mu % ?


def gen_lookalikes(out):
    dur_bases = ["5 h", "1 d 3 ns", "145 ns", "01:15:30", "10.598 s", "13 \u03bcs"]
    ep_bases = ["2017-01-14T00:31:55 UTC", "2017-01-14 00:31:55.811", "2018-02-13T23:08:32Z", "1994-11-05T08:15:30-05:00", "JD 2452312.5 TAI", "SEC 66312032.18 TDB", "MJD 51544.5 UTC"]
    for ch in LOOKALIKE:
        for b in dur_bases:
            for t in (ch + b, ch + ch + b, "-" + ch + b, " " + ch + b + " ", b[:1] + ch + b[1:], b + ch, ch):
                out.append(f"p_dur {enc(t)}")
        for b in ep_bases:
            for t in (ch + b, b[:4] + ch + b[5:], b[:10] + ch + b[11:], b[:-3] + ch + b[-3:], b + ch, b[:13] + ch + b[14:]):
                out.append(f"p_epoch {enc(t)}")
                out.append(f"p_greg {enc(t)}")
        for f, inp in (("%Y-%m-%d", "2020-01-05"), ("%Y-%m-%dT%H:%M:%S.%f%z", "1994-11-05T08:15:30-05:00"), ("%a, %d %b %Y %H:%M:%S", "Tue, 29 Feb 2000 14:57:29")):
            for t in (ch + inp, inp[:4] + ch + inp[5:], inp + ch):
                out.append(f"p_fmt {enc(f)} {enc(t)}")
            out.append(f"p_fmt {enc(f[:2] + ch + f[3:])} {enc(inp)}")
            out.append(f"fmt_debug {enc(ch + f)}")
        for name in ("UTC", "Monday", "jan"):
            out.append(f"p_ts {enc(ch + name)}")
            out.append(f"p_wd {enc(ch + name)}")
            out.append(f"p_month {enc(name + ch)}")
        for num in ("5", "1.5"):
            out.append(f"lex_i32 {enc(ch + num)}")
            out.append(f"lex_f64 {enc(ch + num)}")


def gen_C13(tier, seed):
    g = EGen(seed)
    r = g.r
    out = corpus("C13")
    for s in EPOCH_TEXTS:
        out.append(f"p_epoch {enc(s)}")
        out.append(f"p_greg {enc(s)}")
    for s in DUR_TEXTS:
        out.append(f"p_dur {enc(s)}")
    gen_lookalikes(out)
    for s in NAME_TEXTS:
        out.append(f"p_ts {enc(s)}")
        out.append(f"p_wd {enc(s)}")
        out.append(f"p_month {enc(s)}")
    for s in ["5", "+5", "-5", "05", "", "+", "-", "5a", "٢", "2147483647", "2147483648", "-2147483648", "-2147483649", "9223372036854775807", "9223372036854775808",
              "-9223372036854775808", "18446744073709551615", "18446744073709551616", "1.5", "1e3"] + ["9" * k for k in range(1, 25)]:
        for f in ("lex_i32", "lex_i64", "lex_u64"):
            out.append(f"{f} {enc(s)}")
    for s in ["1.5", "+1.5", "-1.5", ".5", "5.", "5.e3", "1e3", "1E3", "1e+3", "1e-3", "e3", "1e", "1e+", "inf", "INF", "infinity", "Infinity", "nan", "NaN", "-inf", "+inf",
              "-nan", "1.5.2", "0x10", "1.5 ", "0.1", "123456789.125", "9007199254740992", "9007199254740991", "0.5", "0.25", "1e22", "1e-22", "1e23", "4503599627370496.5",
              "0.000000001", "1000000000", "00012.500", "-0", "-0.0", "0e5", "1e0", ".", "+.", "-.e1", "infinit", "in", "1d5"]:
        out.append(f"lex_f64 {enc(s)}")
    # Unicode class tables: every range boundary of the generated tables, +/- 1
    import re as _re
    gen_uni = open(os.path.join(os.path.dirname(HERE), "coq", "Gen", "GenUnicode.v")).read()
    cps = set()
    for a, b in _re.findall(r"\((\d+), (\d+)\)", gen_uni):
        for v in (int(a) - 1, int(a), int(b), int(b) + 1):
            if 0 <= v <= 0x10FFFF and not (0xD800 <= v <= 0xDFFF):
                cps.add(v)
    for v in sorted(cps):
        out.append(f"uni_class {v}")
    n = budget(tier, 30000, 1500000)
    for _ in range(n):
        k = r.random()
        if k < 0.4:
            s = mutate(r, r.choice(EPOCH_TEXTS), r.choice([1, 1, 2, 3]))
            out.append(f"{r.choice(['p_epoch', 'p_epoch', 'p_greg'])} {enc(s)}")
        elif k < 0.7:
            s = mutate(r, r.choice(DUR_TEXTS), r.choice([1, 1, 2, 3]))
            out.append(f"p_dur {enc(s)}")
        elif k < 0.8:
            s = mutate(r, r.choice(NAME_TEXTS), r.choice([1, 2]))
            out.append(f"{r.choice(['p_ts', 'p_wd', 'p_month'])} {enc(s)}")
        elif k < 0.9:
            s = mutate(r, r.choice(DOC_FORMATS + ["%Y" * 16, "%f?" * 10]), r.choice([1, 2, 3]))
            out.append(f"fmt_debug {enc(s)}")
        else:
            s = mutate(r, r.choice(["1.5", "-12.25e3", "inf", "123", "+7"]), r.choice([1, 2]))
            out.append(f"{r.choice(['lex_f64', 'lex_i32', 'lex_i64'])} {enc(s)}")
    return out


def gen_C10(tier, seed):
    g = EGen(seed)
    r = g.r
    out = corpus("C10")
    for n in day_iter(1, 9999, 997 if tier != "thorough" else 41):
        for tod in (0, NPD - 1, 1, 12 * 3600 * SEC + 500 * 10**6, r.randint(0, NPD - 1)):
            for t in INT_SCALES:
                e = parts_of(n * NPD + tod - REF_NS.get(t, 0)) + (t,)
                out.append(f"rt_disp {p3(e)}")
                if t in (0, 4):
                    out.append(f"rt_iso {p3(e)}")
            c, nn = parts_of(n * NPD + tod)
            out.append(f"rt_rfc3339 {c} {nn}")
    for k in range(0, 10):
        for form, oh, om in ((0, 0, 0), (1, 0, 0), (2, 0, 0), (3, 0, 0), (2, 23, 59), (3, 23, 59), (2, 10, 0), (3, 10, 30), (2, 5, 45), (3, 1, 0), (2, 12, 0)):
            for sfx in (99, 4, 0, 5):
                frac = 0 if k == 0 else r.randint(0, 10**k - 1)
                out.append(f"iso_parse 1994 11 5 8 15 30 {frac} {k} {form} {oh} {om} {sfx} {r.randint(0, 1)}")
                out.append(f"iso_parse 2016 12 31 23 59 59 {10**k - 1 if k else 0} {k} {form} {oh} {om} {sfx} 0")
    for s in EPOCH_TEXTS[:40]:
        out.append(f"p_epoch {enc(s)}")
    n = budget(tier, 20000, 1000000)
    for _ in range(n):
        kk = r.random()
        if kk < 0.45:
            day = r.randint(days_from_civil(1, 1, 1), days_from_civil(9999, 12, 31))
            tod = r.choice([0, 1, NPD - 1, r.randint(0, NPD - 1), r.randint(0, 86399) * SEC])
            t = r.choice(INT_SCALES)
            e = parts_of(day * NPD + tod - REF_NS.get(t, 0)) + (t,)
            f = r.choice(["rt_disp", "rt_disp", "rt_iso"])
            out.append(f"{f} {p3(e)}")
            if r.random() < 0.3:
                c, nn = parts_of(day * NPD + tod)
                out.append(f"rt_rfc3339 {c} {nn}")
        elif kk < 0.85:
            y = r.randint(1, 9999); m = r.randint(1, 12); d = r.randint(1, mlen(y, m))
            k = r.randint(0, 9)
            frac = 0 if k == 0 else r.randint(0, 10**k - 1)
            form = r.randint(0, 3)
            out.append(f"iso_parse {y} {m} {d} {r.randint(0, 23)} {r.randint(0, 59)} {r.randint(0, 59)} {frac} {k} {form} {r.randint(0, 23)} {r.randint(0, 59)} {r.choice([99, 99, 0, 1, 4, 5, 6, 7, 8])} {r.randint(0, 1)}")
        else:
            form = r.choice(["JD", "MJD", "SEC"])
            x = r.choice([r.uniform(-3e6, 3e6), float(r.randint(-3000000, 3000000)), r.randint(0, 10**7) / 64.0])
            ts_ = r.choice(["TAI", "UTC", "TT", "GPST", "GST", "BDT", "QZSST"])
            out.append(f"p_epoch {enc(f'{form} {x!r} {ts_}')}")
    # numeric forms against the instant the text denotes (exact decimal), every (form, scale)
    def pnum(form, x_str, t):
        neg = 1 if x_str.startswith("-") else 0
        body = x_str.lstrip("-")
        ip, _, fp = body.partition(".")
        return f"p_num {form} {neg} {enc(ip)} {enc(fp)} {t}"
    rn = random.Random(seed * 23 + 10)
    fixed = {1: ["2415020.5", "2451545", "2451545.0", "2444244.5", "2453736.5", "1721425.5", "5373484.49999", "2400000.5", "0", "2460000.123456789"],
             2: ["15020", "15020.0", "51544.5", "44244", "44244.0", "53736", "51412", "0", "-678575", "2973483.99999", "60000.000000001", "40587.5"],
             3: ["0", "1", "-1", "0.5", "86400", "3155760000", "-3155760000", "1e0" if False else "1000000000.000000001", "315576000000", "0.000000001"]}
    for form, xs in fixed.items():
        for x in xs:
            for t in range(9):
                out.append(pnum(form, x, t))
    for _ in range(budget(tier, 4000, 300000)):
        form = rn.choice([1, 2, 3])
        t = rn.randint(0, 8)
        days = rn.choice([rn.uniform(-3652059, 3652059), float(rn.randint(-3652059, 3652059)), rn.randint(-10**7, 10**7) / 64.0])
        x = days + (2415020.5 if form == 1 else 15020.0 if form == 2 else 0.0)
        if form == 3:
            x = days * 86400.0
        k = rn.choice([0, 1, 3, 6, 9, 12])
        out.append(pnum(form, f"{x:.{k}f}", t))
    return out


FMT_INPUTS = [("%Y-%m-%dT%H:%M:%S.%f %T", "2015-02-07T11:22:33.0 UTC"), ("%Y-%m-%dT%H:%M:%S.%f%z", "2018-02-13T23:08:32Z"),
              ("%Y-%m-%dT%H:%M:%S.%f%z", "2018-02-13T23:08:32.123456983Z"), ("%Y-%m-%dT%H:%M:%S.%f%z", "1994-11-05T08:15:30-05:00"),
              ("%Y-%m-%dT%H:%M:%S.%f%z", "1994-11-05T08:15:30+10:30"), ("%Y-%jT%H:%M:%S", "2023-117T12:55:26"), ("%Y-%j", "2000-060"),
              ("%a, %d %b %Y %H:%M:%S", "Tue, 29 Feb 2000 14:57:29"), ("%A, %d %B %Y %H:%M:%S", "Tuesday, 29 February 2000 14:57:29"),
              ("%A, %d %B %Y %H:%M:%S", "Monday, 29 February 2000 14:57:29"), ("%Y-%m-%d", "2020-01-05"), ("%Y-%m-%d", "2020-01-05X"),
              ("%H:%M", "12:30"), ("%w", "2"), ("%y-%m-%d", "23-01-05"), ("%y-%m-%d", "2147483647-01-05"), ("%Y-%J", "2020-59.62325231481524"),
              ("%Y-%j", "-2147483648-001"), ("%Y-%j", "2147483647-001"), ("%Y" * 16, "2020"), ("%Y-" * 16, "2020-" * 16), ("%Y-%m-%d %T", "2020-01-05 GPST"),
              ("%Y-%m-%dT%H:%M:%S.%f", "2020-01-05T01:02:03.1234567890"), ("%Y-%m-%d", "ééééé"), ("%Y-%m-%d", "2020-é1-05"), ("%B %d %Y", "é 5 2020"),
              ("%Y-%m-%d", ""), ("", "2020"), ("%T", "UTC"), ("%z", "+01:00"), ("%Y%z", "2020é01:00"), ("%Y-%m-%dT%H:%M:%S.%f%z", "1994-11-05T08:15:30+é0:30")]


def gen_C13_fmt(r, out, n):
    for f, s in FMT_INPUTS:
        out.append(f"p_fmt {enc(f)} {enc(s)}")
    for k in range(9):
        for s in ["2015-02-07T11:22:33.0 UTC", "2018-02-13T23:08:32Z", "Tue, 29 Feb 2000 14:57:29", "2000-060", "2020-01-05", "ééé", ""]:
            out.append(f"p_fmt_const {k} {enc(s)}")
    for _ in range(n):
        f, s = r.choice(FMT_INPUTS)
        k = r.random()
        if k < 0.4:
            s = mutate(r, s, r.choice([1, 1, 2]))
        elif k < 0.6:
            f = mutate(r, f, 1)
        elif k < 0.8:
            f = rand_format(r)
        else:
            f = rand_format(r); s = mutate(r, s, 1)
        if r.random() < 0.15:
            out.append(f"p_fmt_const {r.randint(0, 8)} {enc(s)}")
        else:
            out.append(f"p_fmt {enc(f)} {enc(s)}")


_gen_C13_base = gen_C13


def gen_C13_all(tier, seed):
    out = _gen_C13_base(tier, seed)
    r = random.Random(seed + 13)
    gen_C13_fmt(r, out, budget(tier, 15000, 500000))
    # well-formed text whose fields are out of range must be rejected (never another date)
    rj = random.Random(seed * 47 + 13)
    def bad_texts(y, mo, d, h, mi, sec):
        base = dict(y=y, mo=mo, d=d, h=h, mi=mi, s=sec)
        muts = [("mo", 0), ("mo", 13), ("mo", 14), ("mo", 99), ("d", 0), ("d", 32), ("d", mlen(y, mo) + 1), ("h", 25), ("h", 99),
                ("mi", 60), ("mi", 61), ("mi", 99), ("s", 61), ("s", 99)]
        if not (mo in (6, 12) and d == mlen(y, mo) and h == 23 and mi == 59):
            muts.append(("s", 60))
        for k, v in muts:
            f = dict(base); f[k] = v
            if k == "d" and f["mo"] == 2 and v in (30, 31) and is_leap(y):
                pass      # known finding: kept, matched by the predicate
            yield f
    for (y, mo, d, h, mi, sec) in [(2017, 1, 14, 0, 31, 55), (2020, 2, 28, 12, 0, 0), (2021, 2, 28, 23, 59, 59), (1999, 12, 31, 23, 59, 59), (1, 1, 1, 0, 0, 0), (9999, 11, 30, 5, 6, 7)]:
        for f in bad_texts(y, mo, d, h, mi, sec):
            for tmpl in ("{y:04}-{mo:02}-{d:02}T{h:02}:{mi:02}:{s:02} UTC", "{y:04}-{mo:02}-{d:02} {h:02}:{mi:02}:{s:02}", "{y:04}-{mo:02}-{d:02}T{h:02}:{mi:02}:{s:02}.5 TAI",
                         "{y:04}-{mo:02}-{d:02}T{h:02}:{mi:02}:{s:02}+01:00"):
                out.append("p_reject " + enc(tmpl.format(**f)))
            out.append("p_reject_fmt " + enc("%Y-%m-%dT%H:%M:%S") + " " + enc("{y:04}-{mo:02}-{d:02}T{h:02}:{mi:02}:{s:02}".format(**f)))
    for _ in range(budget(tier, 1500, 100000)):
        y = rj.randint(1, 9999); mo = rj.randint(1, 12); d = rj.randint(1, mlen(y, mo))
        fs = list(bad_texts(y, mo, d, rj.randint(0, 23), rj.randint(0, 59), rj.randint(0, 59)))
        f = rj.choice(fs)
        if rj.random() < 0.7:
            out.append("p_reject " + enc(rj.choice(["{y:04}-{mo:02}-{d:02}T{h:02}:{mi:02}:{s:02} UTC", "{y:04}-{mo:02}-{d:02}T{h:02}:{mi:02}:{s:02}", "{y:04}-{mo:02}-{d:02} {h:02}:{mi:02}:{s:02} TAI"]).format(**f)))
        else:
            out.append("p_reject_fmt " + enc("%Y-%m-%dT%H:%M:%S") + " " + enc("{y:04}-{mo:02}-{d:02}T{h:02}:{mi:02}:{s:02}".format(**f)))
    return out


GENERATORS["C13"] = gen_C13_all
GENERATORS["C10"] = gen_C10


# ------------------------------------------------------------------------------ ET / TDB (C07)
J2000_NS = 3155716800 * SEC
SPAN10K = 10000 * 36525 * NPD // 100
FLOAT_SCALES = [2, 3]


def gen_C07(tier, seed):
    g = EGen(seed)
    r = g.r
    out = corpus("C07")
    YEAR = 31557600 * SEC

    def uni(i, t):          # count in uniform scale t of the TAI instant i
        return parts_of(i - REF_NS[t]) + (t,)
    # deterministic pool: J2000 and its neighbourhood, every quarter of a year over two centuries (phase of the yearly sine),
    # Duration century boundaries, both ends of the 10 000-year span
    inst = []
    for d in (0, 1, -1, SEC, -SEC, 32184 * 10**6, -32184 * 10**6, NPD, -NPD, 43200 * SEC, -43200 * SEC):
        inst.append(J2000_NS + d)
    for q in range(-400, 401, budget(tier, 5, 1)):
        inst.append(J2000_NS + q * YEAR // 4 + (q * 7919) % 1000)
    for c in range(-99, 101, 9):
        for d in (-1, 0, 1, 10**9):
            inst.append(c * NPC + d)
    for s in (-1, 1):
        for d in (0, 1, SEC, YEAR // 3, 777 * NPD + 13):
            inst.append(J2000_NS + s * (SPAN10K - d))
    for i in inst:
        for t1 in UNIFORM:
            for t2 in FLOAT_SCALES:
                e = uni(i, t1)
                if t1 in (0, 1) or (i % 3 == 0):
                    out.append(f"convf {p3(e)} {t2}")
                if t1 == 0 or (i % 5 == 0):
                    out.append(f"rtf {p3(e)} {t2}")
        for t1 in FLOAT_SCALES:
            e = parts_of(i - J2000_NS) + (t1,)
            for t2 in (0, 1, 5):
                out.append(f"convf {p3(e)} {t2}")
            out.append(f"convf {p3(e)} {5 - t1}")      # ET <-> TDB: both closed forms in sequence
        for dd in (101, -101, 150, 1000, 10**6, 99, 100, 0):
            out.append(f"ordf {p2(parts_of(i))} {p2(parts_of(i + dd))} 0 2")
            out.append(f"ordf {p2(parts_of(i - J2000_NS))} {p2(parts_of(i - J2000_NS + dd))} 3 0")
            out.append(f"ordf {p2(parts_of(i - J2000_NS))} {p2(parts_of(i - J2000_NS + dd))} {2 + (i + dd) % 2} {3 - (i + dd) % 2}")   # ET <-> TDB
    # out of the property's span and at the representable bounds (model = code; spec open)
    for v in (MINV, MINV + 1, MAXV - 1, -SPAN10K * 3, SPAN10K * 3, 0):
        for t1, t2 in ((0, 2), (0, 3), (2, 0), (3, 0), (2, 3), (3, 2), (4, 2), (2, 4), (3, 4), (4, 3)):
            out.append(f"convf {p3(parts_of(v) + (t1,))} {t2}")
    n = budget(tier, 12000, 120000)      # the Flocq model costs ~40 ms per conversion: 120 000 cases = ~6 min on 16 cores
    for _ in range(n):
        k = r.random()
        if k < 0.5:
            i = J2000_NS + r.randint(-SPAN10K, SPAN10K)
        elif k < 0.8:
            i = J2000_NS + r.randint(-300 * YEAR, 300 * YEAR)
        elif k < 0.9:
            i = J2000_NS + r.choice([-1, 1]) * int(10 ** r.uniform(0, 21))
        else:
            i = r.randint(-99, 100) * NPC + r.randint(-5 * SEC, 5 * SEC)
        i = max(J2000_NS - SPAN10K, min(J2000_NS + SPAN10K, i))
        m = r.random()
        t1 = r.choice(UNIFORM); t2 = r.choice(FLOAT_SCALES)
        if m < 0.35:
            out.append(f"convf {p3(uni(i, t1))} {t2}")
        elif m < 0.6:
            out.append(f"convf {p3(parts_of(i - J2000_NS) + (t2,))} {t1}")
        elif m < 0.8:
            out.append(f"rtf {p3(uni(i, t1))} {t2}")
        elif m < 0.9:
            dd = r.choice([-1, 1]) * r.choice([101, 102, 110, 128, 200, 500, 10**4, 10**9, r.randint(101, 10**7)])
            e1 = uni(i, t1); v2 = i - REF_NS[t1] + dd
            out.append(f"ordf {e1[0]} {e1[1]} {p2(parts_of(v2))} {t1} {t2}")
        elif m < 0.97:
            dd = r.choice([-1, 1]) * r.choice([101, 102, 110, 128, 200, 500, 10**4, 10**9, r.randint(101, 10**7)])
            v1 = i - J2000_NS
            out.append(f"ordf {p2(parts_of(v1))} {p2(parts_of(v1 + dd))} {t2} {t1 if r.random() < 0.8 else 5 - t2}")
        else:
            out.append(f"convf {p3(parts_of(i - J2000_NS) + (t2,))} {r.choice([4, 5 - t2])}")
    return out


GENERATORS["C07"] = gen_C07


# ---- leap seconds file provider (C06, second generator merged below) ----
def gen_leapfile(tier, seed):
    r = random.Random(seed * 7919 + 6)
    out = []
    repo = os.environ.get("VERIF_REPO", "/repo")
    shipped = open(os.path.join(repo, "data", "leap-seconds.list"), encoding="utf-8").read()
    out.append("leapfile " + enc(shipped))
    for ts in LEAP_TS:
        for d in (-1, 0, 1):
            c, n = parts_of(ts * SEC + d)
            out.append(f"leapfile_lookup {enc(shipped)} {c} {n}")
    for v in (0, -1, MINV, MAXV - 1, 5 * NPC):
        c, n = parts_of(v)
        out.append(f"leapfile_lookup {enc(shipped)} {c} {n}")
    lines = shipped.split("\n")
    data_idx = [i for i, l in enumerate(lines) if l and not l.startswith("#")]
    # the same table with other white space between and after the columns, with and without the trailing comment, LF and CRLF
    import re as _re
    for sep in (" ", "  ", "   ", "\t", "\t\t", "\t\t\t", " \t ", "  \t", "        ", "\t ", " \t"):
        for keep_comment in (True, False):
            for eol in ("\n", "\r\n"):
                ls = []
                for l in lines:
                    if l and not l.startswith("#"):
                        cols = l.split("#", 1)
                        f = cols[0].split()
                        l2 = f[0] + sep + f[1]
                        if keep_comment and len(cols) > 1:
                            l2 += sep + "#" + cols[1]
                        ls.append(l2)
                    else:
                        ls.append(l)
                data = [l for l in ls if l and not l.startswith("#")]      # every entry, a few of the comment lines around them
                out.append("leapfile_iers " + enc(eol.join(ls[:2] + data[:10] + ["#", ""] + data[10:] + ls[-2:]) + eol))
    fixed = ["", "\n", "#\n", "# only a comment", "10 5", "10 5\n", "10 5\r\n", "10 5\r", "10\n", "10 \n", " \n", "\t\n", "-10 5\n", "+10 +5\n", "10 -5\n",
             "10 256\n", "10 255\n", "10 5 6 7\n", " # not a comment\n", "18446744073709551615 1\n", "18446744073709551616 1\n", "5 1\n3 2\n", "1e3 4\n",
             "0x10 4\n", "007 08\n", "10\u00a05\n", "10\u20035\n", "10\u200b5\n", "\u0661\u0660 5\n", "10 5\n\n\n20 6\n", "10 5\x0b20 6\n", "10 5\x0c\n", "10,5\n", "10.0 5\n",
             "99999999999999999999 1\n", "1 1\n2 2\n3 3\n", "3 1\n3 2\n", "#10 5\n10 5", "\ufeff10 5\n", "10 5 #c\n", "4000000000 9\n", "9007199254740993 9\n"]
    for t in fixed:
        out.append("leapfile " + enc(t))
        for v in (0, 4 * SEC, 10 * SEC, 20 * SEC, 3 * SEC - 1):
            c, n = parts_of(v)
            out.append(f"leapfile_lookup {enc(t)} {c} {n}")
    n = budget(tier, 400, 20000)
    for _ in range(n):
        k = r.random()
        if k < 0.35:      # mutate the shipped file: a few characters or whole lines
            ls = list(lines)
            for _ in range(r.randint(1, 3)):
                i = r.choice(data_idx)
                m = r.random()
                if m < 0.3:
                    ls[i] = mutate(r, ls[i], r.randint(1, 2))
                elif m < 0.5:
                    ls[i] = ""
                elif m < 0.7:
                    ls[i] = "#" + ls[i]
                else:
                    ls[i], ls[r.choice(data_idx)] = ls[r.choice(data_idx)], ls[i]
            t = "\n".join(ls[-40:])          # the tail holds the table; keeps cases short
        else:             # synthetic small tables
            rows = []
            ts = r.randint(0, 3 * 10**9)
            for j in range(r.randint(0, 6)):
                ts += r.choice([0, 1, r.randint(1, 10**8), -r.randint(1, 10**6)])
                rows.append(f"{max(0, ts)}{r.choice([' ', '  ', chr(9), ' ' + chr(9)])}{r.randint(0, 60)}{r.choice(['', '', ' # x', ' y'])}")
                if r.random() < 0.2:
                    rows.append(r.choice(["# c", "", "  ", mutate(r, rows[-1], 1)]))
            t = r.choice(["\n", "\r\n"]).join(rows) + r.choice(["", "\n"])
        if r.random() < 0.5:
            out.append("leapfile " + enc(t))
        else:
            c, nn = parts_of(r.choice([r.randint(0, 4 * 10**9) * SEC + r.randint(-2, 2), r.choice(LEAP_TS) * SEC + r.randint(-2, 2)]))
            out.append(f"leapfile_lookup {enc(t)} {c} {nn}")
    return out


_gen_C06_core = GENERATORS["C06"]
GENERATORS["C06"] = lambda tier, seed: _gen_C06_core(tier, seed) + gen_leapfile(tier, seed)


# thin wrappers (to_*_seconds / days / parts, from_*_seconds / days, from_mjd_* / from_jde_*, ...) against the entry points that define them
def gen_wrappers(tier, seed, with_float, n_quick):
    g = EGen(seed * 53 + 5)
    r = g.r
    out = []
    # (not within a reference-epoch offset of the Duration bounds: there the conversions saturate and wrappers that go through
    #  different scales legitimately differ; every property is stated "as long as no bound is hit")
    SAFE = MAXV - 4 * 10**18
    for v in g.epoch_vals_pool()[::2] + [3 * 10**20, -3 * 10**20, SAFE, -SAFE]:
        for t in (INT_SCALES if not with_float else [0, 1, 4, 5, 2, 3]):
            if t in (2, 3) and abs(v) > 3 * 10**20:
                continue
            out.append(f"wrappers {p3(parts_of(v) + (t,))} {1 if with_float else 0}")
    for x in (0.0, 1.0, -1.0, 0.5, 86400.0, 15020.0, 51544.5, 2415020.5, 2451545.0, 1e9, -1e9, 3155760000.0, 1e-9, 123456.789, 1e300, -1e300, 5e-324):
        out.append(f"wrappers_from {fbits(x)}")
    for a in g.small_parts_pool():
        for t in range(9):
            out.append(f"wrappers_int {p2(a)} {t}")
    for _ in range(budget(tier, n_quick, n_quick * 50)):
        k = r.random()
        if k < 0.6:
            e = g.rand_epoch([0, 1, 4, 5, 6, 7, 8] if not with_float else [0, 1, 4, 5, 2, 3])
            if e[2] in (2, 3):
                e = parts_of(r.randint(-3 * 10**20, 3 * 10**20)) + (e[2],)
            if abs(val_of_parts(e[0], e[1])) > SAFE:
                continue
            out.append(f"wrappers {p3(e)} {1 if with_float else 0}")
        elif k < 0.85:
            x = r.choice([r.uniform(-4e6, 4e6), r.uniform(-3e11, 3e11), float(r.randint(-10**7, 10**7)), r.randint(0, 10**9) / 1024.0])
            out.append(f"wrappers_from {fbits(x)}")
        else:
            out.append(f"wrappers_int {p2(g.rand_parts())} {r.randint(0, 8)}")
    return out


for _p, _wf, _n in (("C05", False, 1500), ("C17", True, 300), ("C07", True, 200), ("C20", False, 800), ("C16", False, 500)):
    GENERATORS[_p] = (lambda base, wf, n: (lambda tier, seed: base(tier, seed) + gen_wrappers(tier, seed, wf, n)))(GENERATORS[_p], _wf, _n)
