#!/bin/bash
# tools/seed_verify.sh <name> <prop> <worktree>: confirm a seeded change (suite passes with it, demo fails with it,
# demo passes without it) in the scratch worktree, store it under seeded/<name>/, then run the property's check
# against /repo with the patch applied and undo it straight afterwards.
set -u
NAME=$1; PROP=$2; WT=$3
OUT=/verif/seeded/$NAME; mkdir -p $OUT
cd $WT || exit 2
git diff -- src > $OUT/patch.diff
cp tests/seeded_demo.rs $OUT/seeded_demo.rs
export CARGO_NET_OFFLINE=true
# 1. suite (without the demo) passes with the change
mv tests/seeded_demo.rs /tmp/seeded_demo_$NAME.rs
SUITE=$(cargo test --workspace --no-fail-fast --offline 2>&1 | grep -E "^test result" | awk '{p+=$4; f+=$6} END {print p" passed "f" failed"}')
mv /tmp/seeded_demo_$NAME.rs tests/seeded_demo.rs
# 2. demo fails with the change
cargo test --offline --test seeded_demo > /tmp/demo_with_$NAME.log 2>&1; DEMO_WITH=$?
# 3. demo passes without the change
git apply -R $OUT/patch.diff    # (git stash is shared between worktrees: do not use it here)
cargo test --offline --test seeded_demo > /tmp/demo_without_$NAME.log 2>&1; DEMO_WITHOUT=$?
git apply $OUT/patch.diff
echo "suite_with_change: $SUITE; demo_with_change_exit=$DEMO_WITH; demo_without_change_exit=$DEMO_WITHOUT"
# 4. the check against /repo with the patch applied
cd /verif
git -C /repo apply $OUT/patch.diff || { echo "patch does not apply to /repo"; exit 3; }
cp evidence/$PROP.json /tmp/evidence_$PROP.bak 2>/dev/null
./check $PROP > /tmp/check_$NAME.log 2>&1; CHECK=$?
cp evidence/$PROP.json $OUT/evidence_with_change.json 2>/dev/null; mv /tmp/evidence_$PROP.bak evidence/$PROP.json 2>/dev/null   # the committed evidence stays that of the unchanged tree
git -C /repo checkout -- .
grep -E "VIOLATION|KNOWN-FINDING|^$PROP:" /tmp/check_$NAME.log
REPLAY=$(grep -o "replay=[^ ]*" /tmp/check_$NAME.log | head -1 | cut -d= -f2)
[ -n "$REPLAY" ] && [ -f "$REPLAY" ] && cp $REPLAY $OUT/replay.json
echo "check_exit=$CHECK"
cat > $OUT/verify.txt <<EOT
suite_with_change: $SUITE
demo_with_change_exit: $DEMO_WITH (non-zero expected)
demo_without_change_exit: $DEMO_WITHOUT (zero expected)
check: ./check $PROP with the patch applied to /repo -> exit $CHECK
$(grep -E "VIOLATION|^$PROP:" /tmp/check_$NAME.log)
EOT
