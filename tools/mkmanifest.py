#!/usr/bin/env python3
"""Regenerates MANIFEST.json from the table below (claims per property) -- run by hand when a claim changes."""
import json, os
ROOT = os.path.dirname(os.path.dirname(os.path.abspath(__file__)))
props = [json.loads(l) for l in open(os.path.join(ROOT, "properties.jsonl"))]
NOTE = ("Trusted: Coq 8.16.1 kernel + vm_compute (no native_compute); no axioms of ours (Print Assumptions of every theorem is "
        "compared with an allowlist = the 4 classical axioms Flocq/Reals pull in; integer theorems print 'Closed under the global context'); "
        "translator tools/rs2v*.py; extraction via ExtrOcamlBasic only + ocaml/driver.ml; hand-written model control flow, whose fidelity to the "
        "Rust is established by the correspondence run (impl debug+release = model, impl = spec on generated cases), not proved.")
TECH = "machine-checked proof in Coq 8.16 over a hand-written executable model + differential correspondence (extracted OCaml model vs Rust debug/release) + constants/tables regenerated from the sources"
CLAIMS = {
 "C01": "Theorems C01_* : every Duration + - neg abs *i64 /i64 and +/-Unit returns the canonical form with val = clamp(exact result), for all canonical operands and all i64 factors; saturation lands on the right bound; i128 intermediates cannot overflow.",
 "C02": "Theorems C02_* : canonical form unique; from_parts/from_total_nanoseconds/Unit*i64/from_truncated denote clamp(count) for every input; total_nanoseconds = c*NPC+n; try_truncated never wrong, exact within +/-2 centuries, error when not i64. compose and std::time conversions: correspondence only so far.",
 "C03": "Theorems C03_* : cmp = comparison of signed counts (total order inherited from Z), min/max, a+b>a iff b>0 away from saturation, == characterised exactly (equal counts or exact negation within one century).",
 "C04": "Theorems C04_* : Epoch +/- Duration/Unit keeps the scale and changes the count by clamp(exact); (e+d)-e=d, (e+d)-d=e, e+(f-e)=f under explicit no-saturation hypotheses; difference measured in the left operand's scale. Epoch + f64 seconds: correspondence only so far.",
 "C05": "Theorems C05_* : for all 36 ordered pairs of uniform scales conversion is exact with the constant offsets written from the property text (dates via the calendar spec), identity, round trip, commutes with adding a duration; every duplicated constant in the sources is proved equal to them.",
 "C06": "Theorems C06_* : built-in table = IERS file = NAIF kernel (closed facts over regenerated tables); the two lookups are the spec's step functions for every duration; UTC->TAI strictly increasing; TAI->UTC(UTC->TAI u) = u for every u; TAI->UTC monotone outside the inserted seconds (any sorted table). File-provider parser: correspondence only so far.",
 "C08": "Theorems C08_* : the day count (closed form) equals the sum of year and month lengths; every valid date-time with second < 60, any year within 3 000 000 years of 1900, all nine scales, is accepted and lands exactly civil_ns - calendar zero; whatever is accepted satisfies the field ranges and second = 60 only at 23:59 of a day preceding a table entry (year lists = table, closed fact); rejected input is an error. Known finding: 30/31 February accepted in leap years (pinned by tests/epoch.rs).",
 "C09": "Theorems C09_* : the fields are civil_of_days(floor(count/day)) + time of day of the remainder, always a valid date-time, fields -> epoch returns the identical epoch and epoch(fields) -> fields returns the fields (both directions, all nine scales, years within 3 000 000 of 1900); era block proved by an exhaustive sweep of one 146 097-day period lifted by periodicity. Display text: correspondence (C10/C19 work).",
 "C16": "Theorems C16_* : weekday = floored day count in the scale mod 7 for every instant; exhaustive 7x256 / 7x7 weekday algebra (vm_compute over the finite domain, stated with bounds); next/previous move exactly 1..7 whole days = distance to the requested weekday. Landing on the requested weekday across an inserted UTC second: correspondence (partial).",
 "C12": "Theorems C12_* : for the seven integer scales (uniform + UTC) cmp/== are exactly comparison/equality of the denoted TAI instants, flipped by operand swap, instants preserved by conversion. ET/TDB operands: 100 ns clause by correspondence (partial).",
 "C14": "Theorems C14_* : floor = greatest multiple of |s| not above d, ceil = floor+|s| clamped, round nearest with ties up, zero step -> 0, for all canonical d, s outside the recorded known finding (floor within one step of MIN, pinned by the repo's own test).",
 "C15": "Theorems C15_* : from every reachable iterator state, the i-th call of next yields start + (j+i)*step exactly (in start's scale) while j+i < N and None for ever after, N = #{k : k*step < span} or <=; induction on the number of calls, unbounded.",
 "C17": "Theorems C17_* : the JD/MJD/J2000/UNIX constants are exactly 15 020 d, 2 400 000.5 d, 2 415 020.5 d, 3 155 716 800 s, day 25 567 (closed facts on the Flocq model of Unit * f64); every Duration-valued view = the scale's duration plus that constant, for all epochs. Partial: float-valued accessors and from_mjd/from_jde/from_unix_seconds have their dataflow proved and are bit-exact model=code in correspondence; the 'few ulps' bound is checked against exact rationals there, not proved.",
 "C18": "(partial) Theorems C18_* : Unit * f64 and Duration * f64 are total with canonical results (no panic, no loop), infinities -> bounds, NaN -> zero (each unit), Duration * f64 = the exact real product truncated toward zero and clamped whenever |count * mantissa| fits an i128, f64 factor table = integer table. Not proved: ulp bounds of to_seconds/to_unit and exactness of Unit * f64 on arbitrary whole products (bit-exact Flocq model vs code + exact-rational windows in correspondence).",
 "C20": "Theorems C20_* : week/time-of-week build and split are exact and mutually inverse (week fits u32), ns counters round-trip and give Err exactly when the count is negative or >= one century. Day-of-year float agreement: correspondence with tolerance (partial).",
}
checks = []
for pid, text in CLAIMS.items():
    checks.append({
        "property_id": pid, "quick_cmd": f"./check {pid} --tier quick", "thorough_cmd": f"./check {pid} --tier thorough",
        "evidence_file": f"/verif/evidence/{pid}.json", "replay_cmd_template": f"./check {pid} --replay {{path}}",
        "engine": "coq-model+correspondence",
        "level_claimed": {"category": "proof", "text": text, "design_ref": f"DESIGN.md section 7 ({pid})"},
        "level_note": NOTE, "technique": TECH})
na = [{"property_id": p["id"], "reason": "claimed in DESIGN.md; check not yet built in this round (work in progress, see DESIGN.md section 13)"}
      for p in props if p["id"] not in CLAIMS]
m = {"version": 1, "setup_cmd": "./setup.sh",
     "hooks": {"guard": "hifitime_verif",
               "enable": "RUSTFLAGS=\"--cfg hifitime_verif\" (set by ./check and setup.sh when they build harness/ against /repo); no hook is currently needed: every observation goes through the public API",
               "baseline_off_cmd": "cd /repo && cargo test --workspace --no-fail-fast --offline", "source_commits": [], "add_only": True},
     "engines": [{"name": "coq-model+correspondence", "path": "/verif/check", "serves_properties": list(CLAIMS),
                  "kind_free_text": "Coq 8.16 theorems over a hand-written Gallina model (coq/), constants regenerated from /repo by tools/rs2v.py, model extracted to OCaml and compared with the Rust crate (harness/) on generated cases (gen/)"}],
     "checks": checks, "notes": "See DESIGN.md. fix: commits in /repo and known findings are listed in KNOWN_FINDINGS.txt.", "not_applicable": na}
json.dump(m, open(os.path.join(ROOT, "MANIFEST.json"), "w"), indent=1)
print("claimed:", sorted(CLAIMS), "not claimed:", [x["property_id"] for x in na])
