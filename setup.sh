#!/bin/sh
# Offline build of the whole framework from files on disk: Coq development (full .vo), extracted
# model + OCaml driver, Rust harness (debug + release) against /repo's working tree.
set -e
cd "$(dirname "$0")"
python3 tools/rs2v.py
cd coq
coq_makefile -f _CoqProject -o Makefile
timeout 3400 make -j16
cd ../ocaml
ocamlfind ocamlopt -O2 -w -a model.mli model.ml driver.ml -o driver
cd ../harness
[ -f Cargo.lock ] || cp /repo/Cargo.lock .
CARGO_NET_OFFLINE=true RUSTFLAGS="--cfg hifitime_verif" cargo build --offline
CARGO_NET_OFFLINE=true RUSTFLAGS="--cfg hifitime_verif" cargo build --offline --release
echo setup done
